#!/usr/bin/env python3
"""validate MANIFEST.json and evidence files against the schemas (uses python3-vt's jsonschema)"""
import json, sys, glob
import jsonschema
m = json.load(open("/verif/MANIFEST.json"))
jsonschema.validate(m, json.load(open("/root/.vp/MANIFEST.schema.json")))
es = json.load(open("/root/.vp/EVIDENCE.schema.json"))
claimed = {c["property_id"] for c in m["checks"]}
for f in sorted(glob.glob("/verif/evidence/*.json")):
    if f.split("/")[-1][:-5] not in claimed:
        continue
    jsonschema.validate(json.load(open(f)), es)
    ev = json.load(open(f))
    assert ev["coverage"]["obligations"] == ev["coverage"]["discharged"], f
    print("ok", f, ev["coverage"]["obligations"], "theorems", ev["coverage"]["evaluations"], "cases")
na = {c["property_id"] for c in m.get("not_applicable", [])}
allp = {json.loads(l)["id"] for l in open("/verif/properties.jsonl")}
assert claimed | na == allp and not (claimed & na), (claimed, na)
print("manifest ok;", len(claimed), "claimed")
