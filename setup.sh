#!/bin/sh
# MANIFEST.setup_cmd: build the Lean package (model, theorems, driver) and the hooked laze, offline.
set -e
python3 /verif/translators/containers.py
[ -f /verif/translators/panics.py ] && python3 /verif/translators/panics.py
python3 /verif/translators/steporder.py
cd /verif/lean
lake build LazeModel lazemodel $(ls LazeModel/Theorems/*.lean | sed 's#/#.#g; s#\.lean$##')
/verif/build_laze.sh
