#!/bin/sh
# MANIFEST.setup_cmd: build the Lean package (model, theorems, driver) and the hooked laze, offline.
set -e
V=$(cd "$(dirname "$0")" && pwd)
for t in "$V"/translators/*.py; do python3 "$t"; done
cd "$V/lean"
lake build LazeModel lazemodel $(ls LazeModel/Theorems/*.lean | sed 's#/#.#g; s#\.lean$##')
"$V/build_laze.sh"
