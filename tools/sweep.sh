#!/bin/sh
# robustness sweep on the unchanged tree: tools/sweep.sh <tier> <seed>...   (prints one line per check; any VIOLATION is a false alarm or a finding)
V=$(cd "$(dirname "$0")/.." && pwd)
cd "$V"
tier=$1; shift
[ -x lean/.lake/build/bin/lazemodel ] || ./setup.sh >/dev/null 2>&1
for s in "$@"; do
  for c in 01 02 03 04 05 06 07 08 09 10 11 12 13 14 15 16 17 18 19 20; do
    VERIF_SEED=$s ./check C$c --tier $tier 2>&1 | grep "VIOLATION\|^C$c \|Traceback" | sed "s/^/seed=$s /"
  done
done
