#!/usr/bin/env python3
"""print the markdown table of DESIGN §10 from seeded/*/meta.json"""
import glob, json, os
V = os.path.dirname(os.path.dirname(os.path.abspath(__file__)))
print("| Seeded change | Needs | Caught by (quick tier, seed 1) |")
print("|---------------|-------|-----------|")
for d in sorted(glob.glob(os.path.join(V, "seeded", "C*"))):
    m = json.load(open(os.path.join(d, "meta.json")))
    name = os.path.basename(d)
    tgt = m.get("breaks_property") or name[:3]
    parts = []
    ch = m.get("checks", {})
    for p in [tgt] + sorted(k for k in ch if k != tgt):
        c = ch.get(p)
        if not c or c.get("exit") != 1 or not c.get("violations"):
            continue
        nf = all("no-failing-input-found" in v for v in c["violations"])
        sig = "" if nf else c["violations"][0].split("replay=")[-1].split("/")[-1].replace(p + "_violation_", "").replace(".json", "")
        parts.append(f"{p} (" + ("no-failing-input-found: correspondence/proof obligation" if nf else "failing input: " + sig) + ")")
    note = ""
    if m.get("obsolete"):
        note = " *(patch no longer applies to HEAD; result from the tree it was written against)*"
    needs = (m.get("needs") or "").replace("|", "/").replace("\n", " ")
    print(f"| {name} | {needs} | {'; '.join(parts) or 'NOT CAUGHT'}{note} |")
