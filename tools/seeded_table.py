#!/usr/bin/env python3
"""prints the markdown table of DESIGN.md §10 from seeded/*/meta.json (and notes.md for the `needs` column)"""
import glob, json, os, re

V = os.path.dirname(os.path.dirname(os.path.abspath(__file__)))
rows = []
for d in sorted(glob.glob(os.path.join(V, "seeded", "*", "meta.json"))):
    m = json.load(open(d))
    needs = (m.get("needs") or "").strip()
    if not needs:
        notes = os.path.join(os.path.dirname(d), "notes.md")
        if os.path.exists(notes):
            t = open(notes).read()
            mm = re.search(r"(?is)needs? (?:in order )?to manifest[^\n]*\n+(.*?)(?:\n\s*\n|\n#)", t)
            if mm:
                needs = re.sub(r"\s+", " ", mm.group(1)).strip(" -*")[:260]
    caught = []
    for p, r in sorted((m.get("checks") or {}).items()):
        if r.get("exit") == 1 and r.get("violations"):
            v = r["violations"][0]
            if v.endswith("no-failing-input-found"):
                caught.append(f"{p} (no-failing-input-found: correspondence / proof obligation)")
            else:
                mm = re.search(r"replays/[^_]+_violation_(.*)\.json", v)
                caught.append(f"{p} (failing input: {mm.group(1) if mm else '?'})")
    missed = [p for p, r in sorted((m.get("checks") or {}).items()) if not (r.get("exit") == 1 and r.get("violations"))]
    rows.append((m["id"], needs, "; ".join(caught) or "**not caught**", ", ".join(missed)))
print("| Seeded change | Needs | Caught by (quick tier, seed 1) | Also run, silent |")
print("|---------------|-------|-----------|------|")
for r in rows:
    print("| " + " | ".join(x.replace("|", "/") for x in r) + " |")
