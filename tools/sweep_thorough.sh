#!/bin/sh
# thorough tier of the named checks on the unchanged tree (any VIOLATION is a false alarm or a finding): tools/sweep_thorough.sh C11 C13 ...
V=$(cd "$(dirname "$0")/.." && pwd)
cd "$V"
[ -x lean/.lake/build/bin/lazemodel ] || ./setup.sh >/dev/null 2>&1
for c in "$@"; do
  /usr/bin/time -f "$c %es" ./check $c --tier thorough 2>&1 | grep "VIOLATION\|^$c \|Traceback\|^C[0-9][0-9] [0-9.]*s" 
done
