#!/usr/bin/env python3
"""writes /verif/MANIFEST.json from the table below"""
import json, os, subprocess
V = "/verif"
LEVEL_NOTE = ("Trusted: Lean kernel (axioms propext, Classical.choice, Quot.sound only; audited with #print axioms on every run; no sorry/admit/"
              "native_decide), the hand-written executable model (lean/LazeModel/Model), the correspondence harness (harness/) and the in-binary "
              "oracle/dump hooks (src/verif.rs). Theorems are about the model; the tie to /repo is differential execution on every run plus "
              "property oracles evaluated on the implementation's own output.")
TECH = "Lean 4 theorems about an executable model + differential correspondence with the implementation"
CLAIMS = {
 "C01": ("§7 C01", "resolver model (open recursion) with the closure theorem for every world, fuel and CLI (closure, closure_top over resolveTop); tie: ordered module lists and decisions of random projects vs the real CLI; closure oracle on the implementation's dump; translator obligation on the snapshot / roll-back order of resolve_module_deep (C01_order)."),
 "C02": ("§7 C02", "exclusion invariant Excl proved preserved by every resolver step and lifted to resolveTop (excl_top, no_conflict_pair, unique_provider, top_no_disabled); tie: same campaign with raised conflict density; pairwise oracle on the dump with disables/provides_unique read from the YAML; translator obligation: admission tests before registration, conflicts registered before the dependencies (C02_order)."),
 "C03": ("§7 C03", "generation model compared byte-for-byte (modulo hash renaming) with the real ninja file; theorems on link inputs / nearest rule / outfile; oracle parses the implementation's ninja file."),
 "C04": ("§7 C04", "global env = left fold of merges over built-ins, builder context env, module globals in reverse selection order, -D (global_env_spec), context env = fold along the chain (ctx_env_is_fold), module env = ((global + exports of the import closure) + notify) + local (module_env_spec), merge table and non-associativity; tie: dumped global/module envs + ninja file vs the model; oracle recomputes the documented formula from the dumped layers; translator: today's EnvKey::merge arms, interpreted, equal the model's merge for every pair of values (envKey_merge_is_model)."),
 "C05": ("§7 C05", "local_no_leak / export_no_leak: buildEnv and moduleStep of every module outside the scope are unchanged by an edit of a module's local / export env (all selections); tie: model correspondence + metamorphic single-variable edits on the implementation comparing every out-of-scope compile statement byte for byte."),
 "C06": ("§7 C06", "well-formedness theorems on the model's entry list incl. the modelled duplicate-output check (one_producer_per_output) + strict ninja-subset parser oracle on multi-build files (duplicate outputs, rules, statements without outputs, missing targets); translator obligation: every printed rule field is hashed; five genuine defects found by this check are repaired (dc15eeb, 99affe5)."),
 "C07": ("§7 C07", "object sharing theorems under HashOK + pairwise oracle over all builds of a file."),
 "C08": ("§7 C08", "cache protocol as a transition system with the invariant Inv proved preserved by every event incl. kill/fail and concurrent edits outside the parse-stat window (inv_next, cache_safe, hit_sound, never_accepted_after_edit, unchanged_is_served) and a negative witness for the pre-fix step order; tie: histories of runs / kills at 10 fault points / edits / binary swaps against the real binary, each event compared with the model, final run vs cold run oracle, near-miss key pairs, cache-disabled runs, import-edit scenarios; translators: step order of execute, tests of the cache reader, Selector::is_superset interpreted = model; partial: fsync/power loss, concurrent laze processes."),
 "C09": ("§7 C09", "order-insensitivity theorems (merge_get, merge_perm, foldl_insertKeyed_perm) + translator obligation that every unordered container in /repo/src is in the reviewed table (decide +kernel) + the info export modelled (Model/Insights.lean) with theorems (insight_iff_built, moduleInfo_keys, insight_modules_perm, insightsOf_last) and compared key order included + repeated runs under 6 thread counts in fresh processes and in used build directories; partial: schedules and hash seeds are sampled."),
 "C10": ("§7 C10", "selection/partition theorems + metamorphic runs (subsets, every count:k/N and hash:k/N partition, local mode from every directory; cold and in the build directory of the unrestricted run) on the implementation; translators: Selector::selects / is_superset interpreted = model, every printed rule field is hashed."),
 "C15": ("§7 C15", "totality theorems on the model: configureBuild_no_panic, generate_no_panic, load_no_panic, load_no_hang_strong (the two remaining modelled failure points are unreachable), parent_cycle_rejected, empty_name_rejected + translator obligation that every unwrap/expect/panic!/index site in /repo/src is in the reviewed table (decide +kernel) + structural mutation fuzzing (22 kinds) of projects and command lines through the real CLI and three-step invocation sequences in one build directory; three panics found this way are repaired (165d73e, 611d4e8 and earlier); partial: serde_yaml/clap/host stack not modelled, YAML-level mutations are fuzzing."),
 "C16": ("§7 C16", "runnable_iff, runs_only_selected_runnable, refuses_several, build_first, keep_going (exact prefix characterisation), exit_code over the MainRun model for all build lists; tie: real CLI with stand-in ninja and sh that log cwd/exports/argv, compared with the model's spawn list + exit status; oracle from the dumped task availability; partial: process spawning/signals not modelled."),
 "C17": ("§7 C17", "loader model: process_removes law, defaults-as-prefix per field (Prefixed, defaults_vs_plain), context_list, duplicate/unknown rejection, work-list duplicate-freeness, var_options nearest-ancestor inheritance; two counterexamples recorded as known findings; tie: loader+generator model vs CLI on trees with subdirs/multi-doc/defaults/context lists + metamorphic inlining on the implementation."),
 "C18": ("§7 C18", "targets_within_selection, targets_exact_of_selector, targets_cover, passes_flags, no_ninja_with_G, rc_nonzero_iff, clean_argv over the MainRun model; tie: scenarios of wide-then-narrow runs (cache hits), task runs, --compile-commands (runBuildCC), a 110 kB target list, with a stand-in ninja logging argv and scripted exit codes; translator: today's NinjaCmd::run, interpreted, passes exactly the model's ninjaArgv for every command value (ninjaCmd_run_is_model) + reviewed ninja_run setters / verdict / call sites; partial: spawning itself not modelled."),
 "C19": ("§7 C19", "build order topological (buildOrder_dep_before, buildOrder_global_before, buildOrder_perm), build-dep collection iff, order-only lists contain every registered file (moduleStmts_compile_deps), dep_cycle_drops for cycles of any length, link lists global deps; tie: ninja file vs model + oracle recomputing the users-closure from the dump."),
 "C20": ("§7 C20", "select_equiv and disable_equiv as whole-outcome equalities of configureBuild, define_parse (+ the V=a+=b quirk), define_equiv on global-env lookups; tie: model correspondence with these arguments + metamorphic flags vs LAZE_* env vs comma lists vs rewritten project on the implementation; partial: flag/env equivalence is clap behaviour (differential only)."),
 "C11": ("§7 C11", "allow/block decision (is_allowed) modelled in Lean; theorems: decision table over nearest listed ancestors, nearest = minimal depth, order independence under List.Perm (all trees, all lists); translator: today's if/else tree of ContextBag::is_allowed, evaluated, equals isAllowedCore for every pair of lookups (is_allowed_tree_is_model). Tie: 40k random trees x lists vs the real ContextBag::is_allowed through the in-binary oracle, plus a model-independent decision table and a permutation metamorphic check on the implementation."),
 "C12": ("§7 C12", "L1 imperative machine with explicit snapshot stack proved to refine the pure resolver (l1_refines_l2, stack_balanced, failure_restores), optional failures invisible, first-reach order, shadowing, provider order; tie: ORDERED module lists vs the real CLI + shadowing / provider-order oracles + optional-deletion metamorphic runs; translator obligation: the 36 tests and state effects of resolve_module_deep in reviewed order (resolve_steps_reviewed, snapshot_between_tests_and_registration, rollback_and_drop)."),
 "C13": ("§7 C13", "byte-level model of expand/eval in Lean; theorems: marker-free identity, typed errors only (never panic), termination within fuel for every map (fuel_suffices), self-reference cycle, exact single substitution, unknown-key policies. Tie: 42k grammar-generated strings x variable maps x policies vs the real expand/expand_eval/eval (evalexpr as a parameter table)."),
 "C14": ("§7 C14", "model of flatten_with_opts in Lean; theorems: closed form start ++ joinSep joiner (non-empty elements wrapped) ++ end for every list, empty list, from:, both-values-and-from error. Tie: 30k random envs x options vs the real Env::flatten_with_opts, plus a closed-form oracle written independently."),
}
ORDER = [f"C{i:02d}" for i in range(1, 21)]


def main():
    import sys
    claimed = [p for p in ORDER if p in CLAIMS and os.path.exists(f"{V}/harness/lazeverif/{p.lower()}.py")
               and os.path.exists(f"{V}/lean/LazeModel/Theorems/{p}.lean")]
    checks = []
    for p in claimed:
        ref, text = CLAIMS[p]
        checks.append({"property_id": p, "quick_cmd": f"./check {p} --tier quick", "thorough_cmd": f"./check {p} --tier thorough",
                       "evidence_file": f"/verif/evidence/{p}.json", "replay_cmd_template": f"./check {p} --replay {{path}}",
                       "engine": "lean4-proof+correspondence",
                       "level_claimed": {"category": "proof", "text": text, "design_ref": ref},
                       "level_note": LEVEL_NOTE, "technique": TECH})
    commits = subprocess.run(["git", "-C", "/repo", "log", "--format=%h %s"], capture_output=True, text=True).stdout.splitlines()
    hooks = [c.split()[0] for c in commits if "verif hook" in c]
    m = {"version": 1, "setup_cmd": "./setup.sh",
         "hooks": {"guard": "kaspar030_laze_verif", "enable": "RUSTFLAGS=--cfg kaspar030_laze_verif cargo build (see /verif/build_laze.sh)",
                   "baseline_off_cmd": "cd /repo && cargo test --workspace --no-fail-fast --offline", "source_commits": hooks, "add_only": True},
         "engines": [{"name": "lean4-proof+correspondence", "path": "/verif/lean + /verif/harness", "serves_properties": claimed,
                      "kind_free_text": "Lean 4 model + theorems; Python differential harness driving the hooked laze binary and the compiled model driver"}],
         "checks": checks, "notes": "see DESIGN.md",
         "not_applicable": [{"property_id": p, "reason": "not yet claimed: machinery under construction (DESIGN.md §12 build order); technique applies"}
                            for p in ORDER if p not in claimed]}
    json.dump(m, open(f"{V}/MANIFEST.json", "w"), indent=1)
    print("claimed:", claimed)


main()
