import Driver.Json
/-! JSON → YAML-IR (`Files`), arguments; `gen` op. -/
open Lean Laze

def jhas (j : Json) (k : String) : Bool := match j.getObjVal? k with | .ok .null => false | .ok _ => true | _ => false
def jobj? (j : Json) (k : String) : Option Json := match j.getObjVal? k with | .ok .null => none | .ok v => some v | _ => none
def jenvOpt (j : Json) (k : String) : Option Env :=
  match j.getObjVal? k with | .ok (.arr a) => some (jenvOf a.toList) | _ => none
def jpairs (j : Json) (k : String) : Option (List (String × Json)) :=
  match j.getObjVal? k with
  | .ok (.arr a) => some (a.toList.filterMap (fun kv => match kv with | .arr #[.str k, v] => some (k, v) | _ => none))
  | _ => none

def jexports (j : Json) (k : String) : Option (List VarExport) :=
  match j.getObjVal? k with
  | .ok (.arr a) => some (a.toList.filterMap (fun e => match e with
      | .str s => some ⟨s, none⟩
      | .arr #[.str k, .str v] => some ⟨k, some v⟩
      | _ => none))
  | _ => none

def jrule (j : Json) : Rule :=
  { name := jstr j "name", cmd := jstr j "cmd", in_ := jopt j "in", out := jopt j "out", gccDeps := jopt j "gcc_deps",
    rspfile := jopt j "rspfile", rspfileContent := jopt j "rspfile_content", pool := jopt j "pool",
    description := jopt j "description", «export» := jexports j "export", always := jbool j "always",
    shareable := jboolD j "shareable" true }

def jtask (j : Json) : Task :=
  { cmd := jstrs j "cmd", requiredVars := jstrsOpt j "required_vars", requiredModules := jstrsOpt j "required_modules",
    «export» := jexports j "export", build := jboolD j "build" true, workdir := jopt j "workdir" }

def jtasks (j : Json) (k : String) : Option (List (String × Task)) :=
  (jpairs j k).map (·.map (fun (n, t) => (n, jtask t)))

def jcontext (j : Json) : YContext :=
  { name := jstr j "name", parent := jopt j "parent", env := jenvOpt j "env", selects := jstrsOpt j "selects",
    disables := jstrsOpt j "disables", provides := jstrsOpt j "provides", providesUnique := jstrsOpt j "provides_unique",
    rules := match j.getObjVal? "rules" with | .ok (.arr a) => some (a.toList.map jrule) | _ => none,
    varOptions := jvarOpts j "var_options", tasks := jtasks j "tasks", isBuilder := jbool j "is_builder" }

def jentries (j : Json) (k : String) : Option (List YEntry) :=
  match j.getObjVal? k with
  | .ok (.arr a) => some (a.toList.filterMap (fun e => match e with
      | .str s => some (.str s)
      | .arr ps => some (.map (ps.toList.filterMap (fun kv => match kv with
          | .arr #[.str k, .arr v] => some (k, v.toList.filterMap (fun x => x.getStr?.toOption))
          | _ => none)))
      | _ => none))
  | _ => none

def jdownload (j : Json) : Download :=
  let g := (jobj? j "git").getD (Json.mkObj [])
  { url := jstr g "url", commit := if jhas j "git" then jopt g "commit" else none,
    patches := jstrsOpt j "patches", dldir := jopt j "dldir" }

def jmodule (j : Json) : YModule :=
  let env := (jobj? j "env").getD (Json.mkObj [])
  { name := jopt j "name",
    context := match j.getObjVal? "context" with
      | .ok (.str s) => some [s]
      | .ok (.arr a) => some (a.toList.filterMap (fun x => x.getStr?.toOption))
      | _ => none,
    contextIsList := match j.getObjVal? "context" with | .ok (.arr _) => true | _ => false,
    depends := jentries j "depends", selects := jentries j "selects", uses := jstrsOpt j "uses",
    provides := jstrsOpt j "provides", providesUnique := jstrsOpt j "provides_unique", conflicts := jstrsOpt j "conflicts",
    notifyAll := jbool j "notify_all", sources := jentries j "sources", tasks := jtasks j "tasks",
    build := (jobj? j "build").map (fun b => { gccDeps := jopt b "gcc_deps", cmd := jstrs b "cmd", out := jstrsOpt b "out" }),
    envLocal := jenvOpt env "local", envExport := jenvOpt env "export", envGlobal := jenvOpt env "global",
    blocklist := jstrsOpt j "blocklist", allowlist := jstrsOpt j "allowlist",
    download := (jobj? j "download").map jdownload, srcdir := jopt j "srcdir",
    isBuildDep := jbool j "is_build_dep", isGlobalBuildDep := jbool j "is_global_build_dep" }

def jmodlist (j : Json) (k : String) : Option (Option (List YModule)) :=
  match j.getObjVal? k with
  | .ok (.arr a) => some (some (a.toList.map jmodule))
  | .ok .null => some none
  | _ => none

def jdoc (j : Json) : YDoc :=
  { contexts := match j.getObjVal? "contexts" with | .ok (.arr a) => some (a.toList.map jcontext) | _ => none,
    builders := match j.getObjVal? "builders" with | .ok (.arr a) => some (a.toList.map jcontext) | _ => none,
    modules := jmodlist j "modules", apps := jmodlist j "apps",
    includes := jstrsOpt j "includes", subdirs := jstrsOpt j "subdirs",
    defaults := (jpairs j "defaults").map (·.map (fun (k, v) => (k, jmodule v))) }

def jfiles (j : Json) : Files :=
  (jarr j "files").filterMap (fun f => match f with
    | .arr #[.str p, .arr docs] => some (p, docs.toList.map jdoc)
    | _ => none)

def jselector (j : Json) (k : String) : Selector :=
  match jstrsOpt j k with | some l => .some l | none => .all

def parsePartition (s : String) : Option Partition :=
  let parse (rest : String) : Option (Nat × Nat) :=
    match rest.splitOn "/" with
    | [a, b] => match a.toNat?, b.toNat? with | some x, some y => some (x, y) | _, _ => none
    | _ => none
  if s.startsWith "count:" then (parse (s.drop 6).toString).map (fun (a, b) => .count a b)
  else if s.startsWith "hash:" then (parse (s.drop 5).toString).map (fun (a, b) => .hash a b)
  else none

/-- the CLI part of a request; `none` when `-D` cannot be parsed or a `--select` name is empty -/
def jargs (j : Json) : Option Args := do
  let a := (jobj? j "args").getD (Json.mkObj [])
  let select ← match jstrsOpt a "select" with
    | some l => (l.mapM (fun s => (depFromString s).toOption)).map some
    | none => some none
  let env ← match jstrsOpt a "define" with
    | some l => (l.foldl (fun (acc : Option Env) s => acc.bind (·.assignFromString s)) (some [])).map some
    | none => some none
  let mode := match jopt a "local" with | some d => Mode.local d | none => Mode.global
  pure { builders := jselector a "builders", apps := jselector a "apps", mode := mode,
         cli := { select := select, disable := jstrsOpt a "disable", env := env },
         partition := (jopt a "partition").bind parsePartition }

def taskAvailJ : TaskAvail → Json
  | .ok t => Json.arr #["ok", Json.mkObj [("cmd", toJson t.cmd), ("build", t.build), ("workdir", toJson t.workdir),
      ("export", match t.export with
        | some l => Json.arr (l.map (fun e => Json.arr #[Json.str e.var, toJson e.content])).toArray
        | none => Json.null)]]
  | .missingVar v => Json.arr #["err", Json.str ("var:" ++ v)]
  | .missingModule m => Json.arr #["err", Json.str ("module:" ++ m)]

def depJ : Dep → Json
  | .hard n => Json.arr #["h", Json.str n]
  | .soft n => Json.arr #["s", Json.str n]
  | .ifHard c n => Json.arr #["ih", Json.str c, Json.str n]
  | .ifSoft c n => Json.arr #["is", Json.str c, Json.str n]

/-- the loaded view of a module, field by field as `verif::module_json` prints it -/
def moduleJ (m : Laze.Module) : Json := Json.mkObj [
  ("name", m.name), ("context", m.contextName),
  ("selects", Json.arr (m.selects.map depJ).toArray), ("imports", Json.arr (m.imports.map depJ).toArray),
  ("provides", toJson m.provides), ("conflicts", toJson m.conflicts),
  ("sources", toJson m.sources),
  ("sources_optional", match m.sourcesOptional with
    | some l => Json.arr (l.map (fun (k, v) => Json.arr #[Json.str k, toJson v])).toArray
    | none => Json.null),
  ("srcdir", toJson m.srcdir), ("relpath", m.relpath),
  ("is_build_dep", m.isBuildDep), ("is_global_build_dep", m.isGlobalBuildDep),
  ("build_dep_files", toJson m.buildDepFiles), ("has_build", m.build.isSome), ("has_download", m.download.isSome),
  ("notify_all", m.notifyAll),
  ("env_local", envJ m.envLocal), ("env_export", envJ m.envExport), ("env_global", envJ m.envGlobal)]

/-- the selected modules of a build as loaded (`Bag.resolveModule`; the app as `Build::new` clones it) -/
def loadedJ (bag : Bag) (cli : Cli) (builder app : String) (names : List Laze.Name) : Json :=
  Json.arr (names.filterMap (fun n =>
    (bag.resolveModule builder n).map (fun m => moduleJ (if n == app then appClone m builder cli else m)))).toArray

def outcomeJ (bag : Bag) (cli : Cli) (builder app : String) : Outcome → Json
  | .noBuild r => Json.mkObj [("builder", builder), ("app", app), ("decision", match r with
      | .blocked => "blocked" | .notAncestor => "not-ancestor" | .unresolved => "unresolved" | .depCycle => "dep-cycle")]
  | .build i => Json.mkObj [("builder", builder), ("app", app), ("decision", "built"),
      ("modules", toJson i.modules), ("loaded", loadedJ bag cli builder app i.modules),
      ("outfile", i.out), ("global_flat", flatJ i.globalFlat),
      ("module_flats", Json.arr (i.moduleFlat.map (fun (n, f) => Json.arr #[Json.str n, flatJ f])).toArray),
      ("tasks", Json.arr (i.tasks.map (fun (n, t) => Json.arr #[Json.str n, taskAvailJ t])).toArray),
      ("entries", toJson i.entries)]

/-- the `--info-export` file as nested arrays of pairs (the order of keys is part of the comparison) -/
def insightsJ (l : List (Laze.Name × List (Laze.Name × Insight))) : Json :=
  Json.arr (l.map (fun (b, apps) => Json.arr #[Json.str b, Json.arr (apps.map (fun (a, i) => Json.arr #[Json.str a,
    Json.mkObj [("outfile", i.outfile),
      ("modules", Json.arr (i.modules.map (fun (n, deps) => Json.arr #[Json.str n, toJson deps])).toArray)]])).toArray]
    )).toArray

def gerrJ : GErr → Json
  | .error k => if k.startsWith "need:" then Json.mkObj [("need", (k.drop 5).toString)] else Json.mkObj [("error", k)]
  | .panic s => Json.mkObj [("panic", s)]

def lerrJ : LErr → Json
  | .error k => Json.mkObj [("error", k)]
  | .panic s => Json.mkObj [("panic", s)]
  | .hang w => Json.mkObj [("hang", w)]

def handleGen (j : Json) : Json :=
  let st : Settings := { buildDir := (jopt j "build_dir").getD "build", projectRoot := jstr j "project_root", lazeBin := jstr j "laze_bin" }
  match jargs j with
  | none => Json.mkObj [("error", "bad command line")]
  | some args =>
    match load (jfiles j) ((jopt j "project_file").getD "laze-project.yml") st.buildDir with
    | .error e => lerrJ e
    | .ok (bag, files) =>
      match generateChecked (jtable j) (fun _ => 0) st bag args with
      | .error e => gerrJ e
      | .ok (.failed errs) =>
        -- a missing evalexpr table entry must be resolved first
        match errs.find? (fun e => match e with | .error k => k.startsWith "need:" | _ => false) with
        | some e => gerrJ e
        | none =>
          let kinds := errs.map (fun e => match e with | .error _ => "error" | .panic _ => "panic")
          match errs.head? with
          | some (.panic s) => Json.mkObj [("panic", s), ("any", toJson kinds)]
          | some (.error k) => Json.mkObj [("error", k), ("any", toJson kinds)]
          | none => Json.mkObj [("bad", "empty failure list")]
      | .ok (.done r) => Json.mkObj [("ok", Json.mkObj [
          ("ninja", r.ninja st), ("files", toJson files),
          ("insights", if jbool j "want_insights" then
              (match insights (jtable j) (fun _ => 0) st bag args with | .ok l => insightsJ l | .error _ => Json.null)
            else Json.null),
          ("builds", Json.arr (r.outcomes.map (fun (b, a, o) => outcomeJ bag args.cli b a o)).toArray)])]
