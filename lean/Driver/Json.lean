import Lean.Data.Json
import LazeModel
/-! JSON helpers shared by the line-protocol driver. -/
open Lean Laze

/-- a YAML plain scalar read as a string: serde_yaml hands `1` / `true` to a `String` field as their text -/
def scalarStr? : Json → Option String
  | .str s => some s
  | .num n => some (toString n)
  | .bool b => some (if b then "true" else "false")
  | _ => none
def jopt (j : Json) (k : String) : Option String :=
  match j.getObjVal? k with | .ok v => scalarStr? v | _ => none
def jstr (j : Json) (k : String) : String := (jopt j k).getD ""
def jbool (j : Json) (k : String) : Bool := (j.getObjValAs? Bool k).toOption.getD false
def jboolD (j : Json) (k : String) (d : Bool) : Bool := (j.getObjValAs? Bool k).toOption.getD d
def jnat (j : Json) (k : String) : Nat := (j.getObjValAs? Nat k).toOption.getD 0
def jarr (j : Json) (k : String) : List Json :=
  match j.getObjVal? k with | .ok (.arr a) => a.toList | _ => []
def jstrs (j : Json) (k : String) : List String :=
  (jarr j k).filterMap (fun x => x.getStr?.toOption)
/-- `null`/absent ↦ none, array ↦ some -/
def jstrsOpt (j : Json) (k : String) : Option (List String) :=
  match j.getObjVal? k with
  | .ok (.arr a) => some (a.toList.filterMap (fun x => x.getStr?.toOption))
  | _ => none

def ofBJ (b : Bytes) : Json :=
  match String.fromUTF8? (ByteArray.mk b.toArray) with
  | some s => Json.str s
  | none => Json.mkObj [("invalid_utf8", toJson (b.map (·.toNat)))]

def xerrJ : XErr → Json
  | .missing k => Json.mkObj [("err", "missing"), ("k", ofBJ k)]
  | .unclosed p => Json.mkObj [("err", "unclosed"), ("p", toJson p)]
  | .cycle k => Json.mkObj [("err", "cycle"), ("k", ofBJ k)]
  | .expr => Json.mkObj [("err", "expr")]
  | .panic => Json.mkObj [("panic", true)]
  | .fuel => Json.mkObj [("fuel", true)]
  | .need e => Json.mkObj [("need", ofBJ e)]

def jpolicy (j : Json) : Policy :=
  match jstr j "pol" with | "error" => .error | "empty" => .empty | _ => .ignore

def jvars (j : Json) (k : String) : Vars :=
  (jarr j k).filterMap (fun kv => match kv with
    | .arr #[.str a, .str b] => some (toB a, toB b) | _ => none)

/-- evalexpr table: `[[expr, value|null], …]`; a missing entry makes the model answer `need` -/
def jtable (j : Json) : EvalExpr :=
  let table : List (Bytes × Option Bytes) := (jarr j "table").filterMap (fun kv => match kv with
    | .arr #[.str k, .str v] => some (toB k, some (toB v))
    | .arr #[.str k, .null] => some (toB k, none)
    | _ => none)
  fun e => match table.find? (·.1 == e) with
    | some (_, some v) => .ok v
    | some (_, none) => .error .expr
    | none => .error (.need e)

def jenvOf (l : List Json) : Env :=
  l.filterMap (fun kv => match kv with
    | .arr #[.str key, .str v] => some (key, EnvKey.single v)
    | .arr #[.str key, .arr l] => some (key, EnvKey.list (l.toList.filterMap (fun x => x.getStr?.toOption)))
    | _ => none)
def jenv (j : Json) (k : String) : Env := jenvOf (jarr j k)

def envKeyJ : EnvKey → Json
  | .single s => Json.str s
  | .list l => toJson l

def sortPairs {α} (l : List (String × α)) : List (String × α) :=
  (l.toArray.qsort (fun a b => a.1 < b.1)).toList

def envJ (e : Env) : Json := Json.arr ((sortPairs e).map (fun (k, v) => Json.arr #[Json.str k, envKeyJ v])).toArray
def flatJ (f : Flat) : Json := Json.arr ((sortPairs f).map (fun (k, v) => Json.arr #[Json.str k, Json.str v])).toArray

def jmergeOpt (j : Json) : MergeOption :=
  { «from» := jopt j "from", joiner := jopt j "joiner", «prefix» := jopt j "prefix",
    suffix := jopt j "suffix", start := jopt j "start", «end» := jopt j "end" }

/-- var_options: either an object `{k: {...}}` or an array of `[k, {...}]` pairs -/
def jvarOpts (j : Json) (k : String) : Option VarOpts :=
  match j.getObjVal? k with
  | .ok (.obj kvs) => some (kvs.toList.map (fun (k, v) => (k, jmergeOpt v)))
  | .ok (.arr a) => some (a.toList.filterMap (fun kv => match kv with
      | .arr #[.str k, v] => some (k, jmergeOpt v) | _ => none))
  | _ => none
