import Driver.Project
/-! `cache` op: replay a history of runs/edits on the cache-protocol model. -/
open Lean Laze Laze.Cache

def jkey (j : Json) : Key :=
  { mode := (jopt j "mode").getD "global", builders := jselector j "builders", apps := jselector j "apps",
    select := jstrsOpt j "select", disable := jstrsOpt j "disable", define := jstrs j "define",
    partition := jopt j "partition", uuid := jnat j "uuid", namesKnown := jboolD j "names_known" true }

def jstop (s : String) : StopAt :=
  match s with
  | "after_cache_check" => .afterCacheCheck | "after_parse" => .afterParse | "after_stat" => .afterStat
  | "after_load" => .afterStat | "after_cache_remove" => .afterCacheRemove
  | "after_ninja_create" => .afterNinjaCreate | "after_header" => .afterHeader | "after_configure" => .afterConfigure
  | "after_entries" => .afterEntries | "after_flush" => .afterFlush | "after_cache_write" => .afterCacheWrite
  | _ => .never

def ninjaJ (s : State) : Json :=
  match s.ninja with
  | .absent => "absent"
  | .short => "short"
  | .complete sn k => Json.mkObj [("complete", Json.mkObj [("versions", toJson (sn.map (fun p => p.2))), ("uuid", k.uuid)])]

def cacheJ (s : State) : Json :=
  match s.cache with | .absent => "absent" | .torn => "torn" | .record .. => "record"

def handleCache (j : Json) : Json :=
  let step (acc : State × List Json) (e : Json) : State × List Json :=
    let (s, out) := acc
    match jstr e "e" with
    | "edit" => (next s (.edit (jstr e "f")), out ++ [Json.mkObj [("ok", "edit")]])
    | "run" =>
      let k := jkey ((jobj? e "key").getD (Json.mkObj []))
      let files := jstrs e "files"
      -- "window_edit": "<file>" = that build file is edited right after every file was read (complete runs only)
      let (s', rep) :=
        if jbool e "nocache" then runNoCache s k files
        else if jbool e "failing" then runFailing s k files
        else match jopt e "window_edit", jstop (jstr e "stop") with
          | some f, .never => runWithEdit s k files f
          | _, stop => run s k files stop
      (s', out ++ [Json.mkObj [("report", match rep with | .hit => "hit" | .done => "done" | .stopped => "stopped"),
                               ("ninja", ninjaJ s'), ("cache", cacheJ s')]])
    | _ => (s, out ++ [Json.mkObj [("bad", "event")]])
  let (_, out) := (jarr j "events").foldl step (Cache.init, [])
  Json.mkObj [("ok", Json.arr out.toArray)]
