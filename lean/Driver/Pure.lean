import Driver.Json
/-! Handlers for the pure-function ops (C11, C13, C14, env algebra). -/
open Lean Laze

def handleExpand (j : Json) : Json :=
  match expand (jvars j "vars") (jpolicy j) (toB (jstr j "s")) with
  | .ok r => Json.mkObj [("ok", ofBJ r)]
  | .error e => xerrJ e

def handleExpandEval (j : Json) : Json :=
  match expandEval (jtable j) (jvars j "vars") (jpolicy j) (toB (jstr j "s")) with
  | .ok r => Json.mkObj [("ok", ofBJ r)]
  | .error e => xerrJ e

def handleEval (j : Json) : Json :=
  match eval (jtable j) (toB (jstr j "s")) with
  | .ok r => Json.mkObj [("ok", ofBJ r)]
  | .error e => xerrJ e

def handleFlattenOpts (j : Json) : Json :=
  match (jenv j "env").flattenWithOptsOption (jvarOpts j "opts") with
  | .ok f => Json.mkObj [("ok", flatJ f)]
  | .error _ => Json.mkObj [("err", "flatten")]

def handleEnvMerge (j : Json) : Json :=
  let layers := (jarr j "layers").map (fun l => match l with | .arr a => jenvOf a.toList | _ => [])
  Json.mkObj [("ok", envJ (layers.foldl Env.merge []))]

def handleEnvAssign (j : Json) : Json :=
  let r := (jstrs j "assignments").foldl (fun (acc : Option Env) a => acc.bind (·.assignFromString a)) (some [])
  match r with
  | some e => Json.mkObj [("ok", envJ e)]
  | none => Json.mkObj [("err", "assign")]

def handleIsAllowed (j : Json) : Json :=
  let parents : List (Option Nat) := (jarr j "parents").map (fun p => p.getNat?.toOption)
  let nm (i : Nat) : String := "c" ++ toString i
  let t : Tree := (parents.zipIdx).map (fun (p, i) => ⟨nm i, p.map nm⟩)
  let idx (n : String) : Json := toJson ((n.drop 1).toNat?.getD 0)
  match t.isAllowed (nm (jnat j "ctx")) (jstrsOpt j "block") (jstrsOpt j "allow") with
  | .allowed => Json.mkObj [("ok", "allowed")]
  | .allowedBy n => Json.mkObj [("by", idx n), ("ok", "allowed")]
  | .blocked => Json.mkObj [("ok", "blocked")]
  | .blockedBy n => Json.mkObj [("by", idx n), ("ok", "blocked")]
