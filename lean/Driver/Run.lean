import Driver.Project
/-! `run` op: generation (possibly with the arguments of an earlier, wider run whose cache is hit)
    followed by the `build`/`clean` subcommand logic. -/
open Lean Laze

def spawnJ : Spawn → Json
  | .ninja argv => Json.mkObj [("ninja", toJson argv)]
  | .sh cwd env cmd args => Json.mkObj [("sh", cmd), ("cwd", cwd), ("args", toJson args),
      ("env", Json.arr ((sortPairs env).map (fun (k, v) => Json.arr #[Json.str k, Json.str v])).toArray)]

def jflags (j : Json) : Flags :=
  let f := (jobj? j "flags").getD (Json.mkObj [])
  { generateOnly := jbool f "generate_only", multiple := jbool f "multiple",
    keepGoing := (f.getObjValAs? Nat "keep_going").toOption.getD 1,
    jobs := (f.getObjValAs? Nat "jobs").toOption, verbose := jnat f "verbose", compileCommands := jbool f "compile_commands" }

/-- `ninja_rc`: a number (exit code) or the string "kill" (killed by a signal: no exit code) -/
def jninjaRc (j : Json) : Nat :=
  match j.getObjVal? "ninja_rc" with
  | .ok (.str "kill") => ninjaVerdict none
  | .ok v => match v.getInt? with | .ok i => ninjaVerdict (some i) | _ => 0
  | _ => 0

def containsSub (s pat : String) : Bool := (s.splitOn pat).length > 1

def handleRun (j : Json) : Json :=
  let st : Settings := { buildDir := (jopt j "build_dir").getD "build", projectRoot := jstr j "project_root", lazeBin := jstr j "laze_bin" }
  match jargs j with
  | none => Json.mkObj [("error", "bad command line")]
  | some args =>
    if jstr j "subcommand" == "clean" then
      let (sp, rc) := runClean st args.mode (jbool j "unused") (jflags j).verbose (jninjaRc j)
      Json.mkObj [("ok", Json.mkObj [("spawns", Json.arr (sp.map spawnJ).toArray), ("rc", rc)])]
    else
    -- the arguments the build files were generated with (a cache hit serves a wider earlier run)
    let genArgs := match jobj? j "cache_args" with
      | some ca => (jargs (Json.mkObj [("args", ca)])).getD args
      | none => args
    match load (jfiles j) ((jopt j "project_file").getD "laze-project.yml") st.buildDir with
    | .error e => lerrJ e
    | .ok (bag, _) =>
      match generateChecked (jtable j) (fun _ => 0) st bag genArgs with
      | .error e => gerrJ e
      | .ok (.failed errs) =>
        match errs.find? (fun e => match e with | .error k => k.startsWith "need:" | _ => false) with
        | some e => gerrJ e
        | none => match errs.head? with
          | some (.panic s) => Json.mkObj [("panic", s)]
          | some (.error k) => Json.mkObj [("error", k)]
          | none => Json.mkObj [("bad", "empty")]
      | .ok (.done r) =>
        let task := match jopt j "task" with
          | some t => some (t, jstrs j "task_args")
          | none => none
        let markers := jstrs j "fail_markers"
        let (sp, rc) := runBuildCC st args (jflags j) r.builds task (jninjaRc j)
          (fun cmd => markers.any (fun m => containsSub cmd m))
        Json.mkObj [("ok", Json.mkObj [("spawns", Json.arr (sp.map spawnJ).toArray), ("rc", rc)])]
