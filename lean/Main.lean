import Driver.Pure
import Driver.Project
import Driver.Run
import Driver.CacheOp
/-! Line-protocol driver: one JSON request per line in, one JSON answer per line out. -/
open Lean Laze

def dispatch (j : Json) : Json :=
  match jstr j "op" with
  | "expand" => handleExpand j
  | "expand_eval" => handleExpandEval j
  | "eval" => handleEval j
  | "flatten_opts" => handleFlattenOpts j
  | "env_merge" => handleEnvMerge j
  | "env_assign" => handleEnvAssign j
  | "is_allowed" => handleIsAllowed j
  | "gen" => handleGen j
  | "run" => handleRun j
  | "cache" => handleCache j
  | op => Json.mkObj [("bad", "unknown op " ++ op)]

partial def loop (h : IO.FS.Stream) (out : IO.FS.Stream) : IO Unit := do
  let line ← h.getLine
  if line.isEmpty then return ()
  if line.trimAscii.toString.isEmpty then loop h out else
  match Json.parse line with
  | .ok j => out.putStrLn (dispatch j).compress
  | .error e => out.putStrLn (Json.mkObj [("bad", e)]).compress
  out.flush
  loop h out

def main : IO Unit := do loop (← IO.getStdin) (← IO.getStdout)
