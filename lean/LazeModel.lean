import LazeModel.Model.Bytes
import LazeModel.Model.Expand
import LazeModel.Model.Expr
import LazeModel.Model.Env
import LazeModel.Model.Ctx
