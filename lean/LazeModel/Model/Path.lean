import LazeModel.Model.Types
/-! `Utf8Path` operations as far as laze uses them, on `String`s. Faithful for *simple relative
    paths* (segments without empty/`.`/`..` parts, no leading `/`); see DESIGN §3.6. -/
namespace Laze

/-- `Path::components()`: empty and `.` segments are normalised away, except a leading `.`
    (`CurDir`, which sorts before every normal component: represented by the empty string) -/
def pathComponents (p : String) : List String :=
  match (p.splitOn "/").filter (· ≠ "") with
  | [] => []
  | c :: rest => (if c == "." then "" else c) :: rest.filter (· ≠ ".")

/-- `Utf8PathBuf::push` / `join`: an absolute argument replaces the path -/
def pathPush (a b : String) : String :=
  if b.startsWith "/" then b
  else if a == "" then b
  else if a.endsWith "/" then a ++ b
  else a ++ "/" ++ b

def fileName (p : String) : String := ((p.splitOn "/").getLast?).getD ""

/-- `Path::extension`: the part of the file name after the last `.`, unless the name has no `.`,
    or only a leading one, or is `..` -/
def pathExtension (p : String) : Option String :=
  let file := fileName p
  if file == ".." || file == "" then none else
  match (file.splitOn ".").reverse with
  | [] | [_] => none
  | ext :: before => if before.all (· == "") && before.length == 1 then none else some ext

/-- file name without its extension -/
def fileStem (file : String) : String :=
  match pathExtension file with
  | some ext => (file.dropEnd (ext.length + 1)).toString
  | none => file

/-- `Path::with_extension` / `set_extension` -/
def pathWithExtension (p ext : String) : String :=
  let segs := p.splitOn "/"
  let file := segs.getLast?.getD ""
  if file == "" || file == ".." then p else
  let stem := fileStem file
  let newFile := if ext == "" then stem else stem ++ "." ++ ext
  "/".intercalate (segs.dropLast ++ [newFile])

/-- `Path::parent` as used on file names of lazefiles (`a/b/laze.yml` ↦ `a/b`, `laze.yml` ↦ ``) -/
def pathParent (p : String) : String := "/".intercalate (p.splitOn "/").dropLast

/-- `Path::starts_with` (component-wise prefix) -/
def pathStartsWith (p base : String) : Bool := (pathComponents base).isPrefixOf (pathComponents p)

/-- lexicographic order on component lists (`Path`'s `Ord`) -/
def compsLt : List String → List String → Bool
  | [], [] => false
  | [], _ :: _ => true
  | _ :: _, [] => false
  | a :: as, b :: bs => if a < b then true else if b < a then false else compsLt as bs

def pathLe (a b : String) : Bool := !(compsLt (pathComponents b) (pathComponents a))

def insertSorted (x : String) : List String → List String
  | [] => [x]
  | y :: ys => if pathLe y x then y :: insertSorted x ys else x :: y :: ys

/-- stable sort of paths (`Vec::sort` on `Cow<Utf8Path>`) -/
def pathSort (l : List String) : List String := l.foldl (fun acc x => insertSorted x acc) []

/-- the components of a path (split at every `/`) -/
def splitSlash : List Char → List Char → List (List Char)
  | cur, [] => [cur.reverse]
  | cur, c :: cs => if c == '/' then cur.reverse :: splitSlash [] cs else splitSlash (c :: cur) cs

/-- a path as ninja canonicalizes it: `.` components, repeated `/` and `dir/..` pairs are dropped (`check_duplicate_outputs::canonical`) -/
def canonParts : List (List Char) → List (List Char) → List (List Char)
  | acc, [] => acc.reverse
  | acc, p :: ps =>
    if p == [] || p == ['.'] then canonParts acc ps
    else if p == ['.', '.'] then
      match acc with
      | last :: rest => if last != ['.', '.'] then canonParts rest ps else canonParts (p :: acc) ps
      | [] => canonParts (p :: acc) ps
    else canonParts (p :: acc) ps

def joinSlash : List (List Char) → List Char
  | [] => []
  | [p] => p
  | p :: ps => p ++ '/' :: joinSlash ps

def canonPath (p : String) : String :=
  String.ofList ((if p.toList.head? == some '/' then ['/'] else []) ++ joinSlash (canonParts [] (splitSlash [] p.toList)))

end Laze
