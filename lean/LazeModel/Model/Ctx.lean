import LazeModel.Model.Env
/-! Model of the context tree (`src/model/context_bag.rs`, `context.rs`, `blockallow.rs`):
    parent chains, ancestor test, allow/block decision. -/
namespace Laze

abbrev Name := String

structure CtxT where
  name : Name
  parent : Option Name          -- `none` only for the root ("default")
  deriving Repr

abbrev Tree := List CtxT

def Tree.ctx? (t : Tree) (n : Name) : Option CtxT := t.find? (·.name == n)

/-- chain from a context up to the root: `[c, parent c, …]`; fuel = number of contexts -/
def Tree.chainUp (t : Tree) : Nat → Name → List Name
  | 0, _ => []
  | fuel+1, n => match t.ctx? n with
    | none => []
    | some c => n :: (match c.parent with | none => [] | some p => t.chainUp fuel p)

def Tree.chain (t : Tree) (n : Name) : List Name := t.chainUp (t.length + 1) n

/-- `is_ancestor(anc, c, 0)`: depth of `anc` above `c` if it is `c` or an ancestor of `c` -/
def Tree.depthOf (t : Tree) (anc c : Name) : Option Nat :=
  let ch := t.chain c
  let i := ch.idxOf anc
  if i < ch.length then some i else none

/-- one iteration of the loop in `is_ancestor_in_list`: unknown names are skipped, a listed
    ancestor replaces the best so far only if it is strictly nearer -/
def Tree.nearestStep (t : Tree) (c : Name) (best : Option (Name × Nat)) (x : Name) : Option (Name × Nat) :=
  match t.ctx? x with
  | none => best
  | some _ =>
    match t.depthOf x c with
    | none => best
    | some d => match best with
      | some (_, bd) => if bd ≤ d then best else some (x, d)
      | none => some (x, d)

/-- `is_ancestor_in_list`: the nearest listed ancestor (name, depth) -/
def Tree.nearestIn (t : Tree) (c : Name) (l : List Name) : Option (Name × Nat) :=
  l.foldl (t.nearestStep c) none

inductive Verdict where
  | allowed | allowedBy (n : Name) | blocked | blockedBy (n : Name)
  deriving DecidableEq, Repr

def Verdict.ok : Verdict → Bool
  | .allowed | .allowedBy _ => true
  | _ => false

def Verdict.allow (n : Name) : Nat → Verdict | 0 => .allowed | _ => .allowedBy n
def Verdict.block (n : Name) : Nat → Verdict | 0 => .blocked | _ => .blockedBy n

/-- the decision of `is_allowed` given the nearest listed ancestors of both lists
    (outer `none`: the list is absent) -/
def isAllowedCore (a b : Option (Option (Name × Nat))) : Verdict :=
  match a, b with
  | some a, some b =>
    (match a, b with
     | some (an, ad), some (bn, bd) => if ad > bd then Verdict.block bn bd else Verdict.allow an ad
     | some (an, ad), none => Verdict.allow an ad
     | none, some (bn, bd) => Verdict.block bn bd
     | none, none => .allowed)
  | some a, none => if a.isNone then .blocked else .allowed
  | none, some b => (match b with | some (bn, bd) => Verdict.block bn bd | none => .allowed)
  | none, none => .allowed

/-- `ContextBag::is_allowed` -/
def Tree.isAllowed (t : Tree) (c : Name) (block allow : Option (List Name)) : Verdict :=
  isAllowedCore (allow.map (t.nearestIn c)) (block.map (t.nearestIn c))

end Laze
