import LazeModel.Model.Select
/-! `src/main.rs` (the `build` and `clean` subcommands after generation), `task_runner.rs`,
    `Task::execute`, `NinjaCmd::run`: which processes are spawned, in which order, and the exit
    status. Process results are parameters (`ninjaRc`, `cmdFails`). -/
namespace Laze

structure Flags where
  generateOnly : Bool := false
  multiple : Bool := false
  keepGoing : Nat := 1            -- clap default "1"
  jobs : Option Nat := none
  verbose : Nat := 0
  compileCommands : Bool := false  -- `-c` / `--compile-commands`
  deriving Repr

inductive Spawn where
  | ninja (argv : List String)                         -- arguments after the binary name
  | sh (cwd : String) (env : List (String × String)) (cmd : String) (args : List String)
  deriving Repr, DecidableEq

/-- `ninja_run`'s reading of `ExitStatus::code()`: `some 0` is success, any other code is "ninja exited with code",
    `none` (no exit code: the process was killed by a signal) is "ninja probably killed by signal". The rest of the model only
    sees the verdict `0` / non-zero (`ninjaRc`). -/
def ninjaVerdict : Option Int → Nat
  | some 0 => 0
  | some c => if c == 0 then 0 else c.natAbs
  | none => 1

/-- `NinjaCmd::run` argv -/
def ninjaArgv (file : String) (verbose : Bool) (jobs keepGoing : Option Nat) (targets : Option (List String)) : List String :=
  ["-f", file] ++ (if verbose then ["-v"] else []) ++
  (match jobs with | some j => ["-j", toString j] | none => []) ++
  (match keepGoing with | some k => ["-k", toString k] | none => []) ++
  targets.getD []

def ninjaFile (st : Settings) (mode : Mode) : String :=
  pathPush st.buildDir (match mode with | .global => "build-global.ninja" | .local _ => "build-local.ninja")

def selected (a : Args) (i : BuildInfo) : Bool := a.builders.selects i.builder && a.apps.selects i.app

/-- ninja targets of a plain `laze build`: everything in the file only when nothing was selected -/
def plainTargets (a : Args) (builds : List BuildInfo) : Option (List String) :=
  match a.builders, a.apps with
  | .all, .all => none
  | _, _ => some ((builds.filter (selected a)).map (·.out))

def taskOf (i : BuildInfo) (t : String) : Option TaskAvail := (i.tasks.find? (·.1 == t)).map (·.2)

/-- `str::replace("$$", "$")` -/
def unescapeDollar : List Char → List Char
  | '$' :: '$' :: rest => '$' :: unescapeDollar rest
  | c :: rest => c :: unescapeDollar rest
  | [] => []

/-- the shell processes of one task, in order; stops at the first failing command -/
def taskSpawns (projectRoot : String) (t : Task) (args : List String) (cmdFails : String → Bool) : List String → List Spawn × Bool
  | [] => ([], true)
  | c :: rest =>
    let cmd := String.ofList (unescapeDollar c.toList)
    let cwd := match t.workdir with | some w => pathPush projectRoot w | none => projectRoot
    let env := (t.export.getD []).filterMap (fun e => e.content.map (fun v => (e.var, v)))
    let sp := Spawn.sh cwd env cmd args
    if cmdFails cmd then ([sp], false)
    else let (more, ok) := taskSpawns projectRoot t args cmdFails rest; (sp :: more, ok)

/-- `run_tasks`: (spawns, number of failed tasks) with the keep-going rule -/
def runTasks (projectRoot : String) (args : List String) (cmdFails : String → Bool) (keepGoing : Nat) :
    List Task → Nat → List Spawn × Nat
  | [], errors => ([], errors)
  | t :: rest, errors =>
    let (sp, ok) := taskSpawns projectRoot t args cmdFails t.cmd
    if ok then
      let (more, e) := runTasks projectRoot args cmdFails keepGoing rest errors
      (sp ++ more, e)
    else
      let errors := errors + 1
      if keepGoing > 0 && errors ≥ keepGoing then (sp, errors)
      else
        let (more, e) := runTasks projectRoot args cmdFails keepGoing rest errors
        (sp ++ more, e)

/-- everything `laze build [task]` does after the build files exist -/
def runBuild (st : Settings) (a : Args) (fl : Flags) (builds : List BuildInfo) (task : Option (String × List String))
    (ninjaRc : Nat) (cmdFails : String → Bool) : List Spawn × Nat :=
  let file := ninjaFile st a.mode
  match task with
  | none =>
    if fl.generateOnly then ([], 0)
    else
      match plainTargets a builds with
      | some [] => ([], 0)          -- nothing configured for the selection: ninja is not run
      | targets =>
        let argv := ninjaArgv file (fl.verbose > 0) fl.jobs (some fl.keepGoing) targets
        ([.ninja argv], if ninjaRc == 0 then 0 else 1)
  | some (tname, targs) =>
    let cands := builds.filter (fun i => selected a i && (taskOf i tname).isSome)
    let runnable := cands.filterMap (fun i => match taskOf i tname with | some (.ok t) => some (i, t) | _ => none)
    if runnable.isEmpty then ([], 1)
    else if cands.length > 1 && !fl.multiple then ([], 1)
    else
      let ninjaTargets := (runnable.filter (fun (_, t) => t.build)).map (fun (i, _) => i.out)
      let pre : List Spawn := if !ninjaTargets.isEmpty && !fl.generateOnly
        then [.ninja (ninjaArgv file (fl.verbose > 0) fl.jobs none (some ninjaTargets))] else []
      if !pre.isEmpty && ninjaRc != 0 then (pre, 1)
      else
        let (sp, errors) := runTasks st.projectRoot targs cmdFails fl.keepGoing (runnable.map (·.2)) 0
        (pre ++ sp, if errors > 0 then 1 else 0)

/-- `--compile-commands`: right after generation (before the `-G` exit, before any task or build) laze runs ninja's `compdb` tool on
    the file it generated, with stdout redirected to `<project root>/compile_commands.json` (`generate_compile_commands`,
    `NinjaToolBase::get_command`: `-f <file>` then the tool arguments). Only a failure to START ninja is an error; the tool's exit
    status is not looked at. -/
def compdbSpawns (st : Settings) (a : Args) (fl : Flags) : List Spawn :=
  if fl.compileCommands then [.ninja ["-f", ninjaFile st a.mode, "-t", "compdb"]] else []

/-- `laze build [-c] [task]` after the build files exist: the compdb call, then everything `runBuild` does -/
def runBuildCC (st : Settings) (a : Args) (fl : Flags) (builds : List BuildInfo) (task : Option (String × List String))
    (ninjaRc : Nat) (cmdFails : String → Bool) : List Spawn × Nat :=
  (compdbSpawns st a fl ++ (runBuild st a fl builds task ninjaRc cmdFails).1, (runBuild st a fl builds task ninjaRc cmdFails).2)

/-- `laze clean [--unused]` -/
def runClean (st : Settings) (mode : Mode) (unused : Bool) (verbose : Nat) (ninjaRc : Nat) : List Spawn × Nat :=
  ([.ninja (ninjaArgv (ninjaFile st mode) (verbose > 0) none none (some ["-t", if unused then "cleandead" else "clean"]))],
   if ninjaRc == 0 then 0 else 1)

end Laze
