import LazeModel.Model.Path
/-! `src/ninja/mod.rs`: rule/build blocks and their `Display`, symbolic hashes. -/
namespace Laze

/-- Hash values are symbolic: a token that spells out the hash *input*. Two tokens are equal iff the
    inputs are equal — this is the `HashOK` assumption on `DefaultHasher` (no collision within a run).
    `\x01 … \x02` delimit a token; the harness renumbers tokens by first occurrence. -/
def hashTok (kind : String) (payload : String) : String := "\x01" ++ kind ++ ":" ++ payload ++ "\x02"

/-- length-prefixed (hence injective) encoding of a hashed string field -/
def enc (s : String) : String := toString s.length ++ "#" ++ s
def optS (o : Option String) : String := match o with | some s => "S" ++ enc s | none => "N"

structure NinjaRule where
  name : String
  command : String
  description : Option String := none
  deps : Option String := none          -- `NinjaRuleDeps::GCC(depfile)`
  rspfile : Option String := none
  rspfileContent : Option String := none
  pool : Option String := none
  always : Bool := false
  «export» : Option (List VarExport) := none
  deriving Repr, BEq, DecidableEq

/-- `impl Hash for NinjaRule` (+ `get_hash(None)`): name, command, description, deps (if GCC),
    pool (if set), `always` (if set), rspfile, rspfile_content, depfile again. `export` is not hashed
    (it is already part of the command). -/
def NinjaRule.hash (r : NinjaRule) : String :=
  hashTok "rule" (enc r.name ++ "|" ++ enc r.command ++ "|" ++ optS r.description ++ "|" ++ optS r.deps ++ "|"
    ++ optS r.pool ++ "|" ++ optS r.rspfile ++ "|" ++ optS r.rspfileContent ++ (if r.always then "|always" else ""))

/-- `trim_end_matches(['\n', '\r'])` -/
def trimLineEnd (s : String) : String :=
  String.ofList (s.toList.reverse.dropWhile (fun c => c == '\n' || c == '\r')).reverse

def hasLineBreak (s : String) : Bool := s.toList.contains '\n'

def optHasLineBreak : Option String → Bool
  | some s => hasLineBreak s
  | none => false

/-- `NinjaRule::single_line`: a line break that ends the command or the description is dropped (a YAML block scalar ends with one);
    a line break anywhere else in a printed value is refused — a ninja value ends with its line (the code before the repair wrote
    the value as it was, which cut the rule block in two; found by C06's oracle) -/
def NinjaRule.singleLine (r : NinjaRule) : Option NinjaRule :=
  let r' := { r with command := trimLineEnd r.command, description := r.description.map trimLineEnd }
  if hasLineBreak r'.command || optHasLineBreak r'.description || optHasLineBreak r'.rspfile
      || optHasLineBreak r'.rspfileContent || optHasLineBreak r'.pool || optHasLineBreak r'.deps then none
  else some r'

/-- `NinjaRule::named` -/
def NinjaRule.named (r : NinjaRule) : NinjaRule := { r with name := r.name ++ "_" ++ r.hash }

def NinjaRule.render (r : NinjaRule) : String :=
  "rule " ++ r.name ++ "\n  command = " ++ r.command ++ "\n" ++
  (match r.description with | some d => "  description = " ++ d ++ "\n" | none => "") ++
  (match r.deps with | some d => "  deps = gcc\n  depfile = " ++ d ++ "\n" | none => "") ++
  (match r.rspfile with | some d => "  rspfile = " ++ d ++ "\n" | none => "") ++
  (match r.rspfileContent with | some d => "  rspfile_content = " ++ d ++ "\n" | none => "") ++
  (match r.pool with | some d => "  pool = " ++ d ++ "\n" | none => "") ++ "\n"

structure NinjaBuild where
  rule : String
  inputs : Option (List String) := none
  outs : List String
  deps : Option (List String) := none
  env : Option (List (String × String)) := none
  always : Bool := false
  deriving Repr, BEq, DecidableEq

def NinjaBuild.render (b : NinjaBuild) : String :=
  "build" ++ String.join (b.outs.map (" " ++ ·)) ++ ": $\n    " ++ b.rule ++
  String.join ((b.inputs.getD []).map (" $\n    " ++ ·)) ++
  (if b.deps.isSome || b.always then
     " $\n    |" ++ String.join ((b.deps.getD []).map (" $\n    " ++ ·)) ++
     (if b.always then " $\n    ALWAYS" else "")
   else "") ++ "\n" ++
  String.join ((b.env.getD []).map (fun (k, v) => "  " ++ k ++ " = " ++ v ++ "\n")) ++ "\n"

/-- `NinjaBuildBuilder::from_rule(rule)` + `.outs()` (sorted) + `.deps()` (sorted) -/
def buildFromRule (r : NinjaRule) (inputs : Option (List String)) (outs : List String)
    (deps : Option (List String)) : NinjaBuild :=
  { rule := r.name, inputs := inputs, outs := outs, deps := deps.map pathSort, always := r.always }

/-- `ninja::alias(input, alias)` -/
def ninjaAlias (input alias : String) : String :=
  ({ rule := "phony", inputs := some [input], outs := [alias] } : NinjaBuild).render

/-- `ninja::alias_multiple(inputs, alias)` -/
def ninjaAliasMultiple (inputs : List String) (alias : String) : String :=
  ({ rule := "phony", inputs := some inputs, outs := [alias] } : NinjaBuild).render

/-- `utils::calculate_hash(&Vec<path>)` -/
def hashPaths (kind : String) (l : List String) : String := hashTok kind (String.join (l.map (fun p => enc p ++ ";")))

/-- `rule_hash ^ build_deps_hash` where the second operand is `0` when there are no build deps -/
def hashXor (a : String) (b : Option String) : String :=
  match b with
  | none => a
  | some b => hashTok "xor" (a ++ "^" ++ b)

end Laze
