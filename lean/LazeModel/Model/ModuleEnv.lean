import LazeModel.Model.Ninja
/-! `src/model/module.rs`: import closure (`get_imports_recursive`) and `build_env`. -/
namespace Laze

/-- result of the resolver as the generator sees it -/
structure Resolved where
  modules : List Module                  -- selection order; the app clone first
  providers : List (Name × List Name)    -- `provided_by`: feature ↦ selected providers (selection order)

def Resolved.module? (r : Resolved) (n : Name) : Option Module := r.modules.find? (·.name == n)
def Resolved.has (r : Resolved) (n : Name) : Bool := r.modules.any (·.name == n)
def Resolved.providersOf (r : Resolved) (n : Name) : List Name :=
  ((r.providers.find? (·.1 == n)).map (·.2)).getD []

/-- the name an import refers to, if its condition holds -/
def importName (r : Resolved) : Dep → Option Name
  | .hard n | .soft n => some n
  | .ifHard c n | .ifSoft c n => if r.has c then some n else none

abbrev IRec := Name → List Name → (List Name × List Name)   -- name, seen ↦ (post-order result, seen')

/-- one level of `get_imports_recursive` (post-order, self last) -/
def importsStep (r : Resolved) (rec : IRec) (n : Name) (seen : List Name) : (List Name × List Name) :=
  if seen.contains n then ([], seen) else
  let seen := seen ++ [n]
  match r.module? n with
  | none => ([n], seen)
  | some m =>
    let (res, seen) := m.imports.foldl (fun (acc : List Name × List Name) d =>
      match importName r d with
      | none => acc
      | some x =>
        let acc := if r.has x then
            let (res, s) := rec x acc.2
            (acc.1 ++ res, s) else acc
        (r.providersOf x).foldl (fun acc q => let (res, s) := rec q acc.2; (acc.1 ++ res, s)) acc) ([], seen)
    (res ++ [n], seen)

def importsRec (r : Resolved) : Nat → IRec
  | 0 => fun _ s => ([], s)
  | f+1 => importsStep r (importsRec r f)

/-- the import closure of a selected module: dependencies first, the module itself last -/
def importsOf (r : Resolved) (n : Name) : List Name := (importsRec r (r.modules.length + 2) n []).1

/-- `create_module_define` -/
def defineName (n : String) : String :=
  n.map (fun c => if 'a' ≤ c && c ≤ 'z' then c.toUpper else if c == '/' || c == '.' || c == '-' || c == ':' then '_' else c)

inductive GErr where
  | error (kind : String)     -- laze reports an error (exit status 1)
  | panic (site : String)     -- the implementation would panic at this site
  deriving Repr, DecidableEq

/-- `Module::build_env`: (module env, build-dep modules) -/
def buildEnv (r : Resolved) (m : Module) (globalEnv : Env) : Except GErr (Env × Option (List Name)) := do
  let deps := (importsOf r m.name).filterMap r.module?
  let mut env := globalEnv
  let mut bdeps : Option (List Name) := none
  for dep in deps do
    env := env.merge dep.envExport
    if !m.notifyAll then
      match env.get "notify" with
      | some (.single _) => throw (.panic "module.rs:build_env unexpected notify value")
      | some (.list l) => env := env.insert "notify" (.list (l ++ [defineName dep.name]))
      | none => env := env.insert "notify" (.list [defineName dep.name])
    if !(dep.name == m.name && dep.contextName == m.contextName) && dep.isBuildDep then
      bdeps := some (let l := bdeps.getD []; if l.contains dep.name then l else l ++ [dep.name])
  if m.notifyAll then
    env := env.insert "notify" (.list ((r.modules.filter (!·.isContextModule)).map (defineName ·.name)))
  env := env.merge m.envLocal
  return (env, bdeps)

end Laze
