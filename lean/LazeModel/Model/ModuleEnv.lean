import LazeModel.Model.Ninja
/-! `src/model/module.rs`: import closure (`get_imports_recursive`) and `build_env`. -/
namespace Laze

/-- result of the resolver as the generator sees it -/
structure Resolved where
  modules : List Module                  -- selection order; the app clone first
  providers : List (Name × List Name)    -- `provided_by`: feature ↦ selected providers (selection order)

def Resolved.module? (r : Resolved) (n : Name) : Option Module := r.modules.find? (·.name == n)
def Resolved.has (r : Resolved) (n : Name) : Bool := r.modules.any (·.name == n)
def Resolved.providersOf (r : Resolved) (n : Name) : List Name :=
  ((r.providers.find? (·.1 == n)).map (·.2)).getD []

/-- the name an import refers to, if its condition holds -/
def importName (r : Resolved) : Dep → Option Name
  | .hard n | .soft n => some n
  | .ifHard c n | .ifSoft c n => if r.has c then some n else none

abbrev IRec := Name → List Name → (List Name × List Name)   -- name, seen ↦ (post-order result, seen')

/-- one level of `get_imports_recursive` (post-order, self last) -/
def importsStep (r : Resolved) (rec : IRec) (n : Name) (seen : List Name) : (List Name × List Name) :=
  if seen.contains n then ([], seen) else
  let seen := seen ++ [n]
  match r.module? n with
  | none => ([n], seen)
  | some m =>
    let (res, seen) := m.imports.foldl (fun (acc : List Name × List Name) d =>
      match importName r d with
      | none => acc
      | some x =>
        let acc := if r.has x then
            let (res, s) := rec x acc.2
            (acc.1 ++ res, s) else acc
        (r.providersOf x).foldl (fun acc q => let (res, s) := rec q acc.2; (acc.1 ++ res, s)) acc) ([], seen)
    (res ++ [n], seen)

def importsRec (r : Resolved) : Nat → IRec
  | 0 => fun _ s => ([], s)
  | f+1 => importsStep r (importsRec r f)

/-- the import closure of a selected module: dependencies first, the module itself last -/
def importsOf (r : Resolved) (n : Name) : List Name := (importsRec r (r.modules.length + 2) n []).1

/-- `create_module_define` -/
def defineName (n : String) : String :=
  n.map (fun c => if 'a' ≤ c && c ≤ 'z' then c.toUpper else if c == '/' || c == '.' || c == '-' || c == ':' then '_' else c)

inductive GErr where
  | error (kind : String)     -- laze reports an error (exit status 1)
  | panic (site : String)     -- the implementation would panic at this site
  deriving Repr, DecidableEq

/-- append the dependency's define to `notify`; the variable must be a list (or absent) -/
def notifyAppend (env : Env) (dep : Module) : Except GErr Env :=
  match env.get "notify" with
  | some (.single _) => .error (.error "module.rs:build_env notify must be a list")
  | some (.list l) => .ok (env.insert "notify" (.list (l ++ [defineName dep.name])))
  | none => .ok (env.insert "notify" (.list [defineName dep.name]))

/-- the env part of one iteration: merge the dependency's exports, then (unless `notify_all`)
    append it to `notify` -/
def depEnvStep (m dep : Module) (env : Env) : Except GErr Env :=
  if m.notifyAll then .ok (env.merge dep.envExport) else notifyAppend (env.merge dep.envExport) dep

/-- is `dep` a build dependency of `m` (a module is not its own build dependency) -/
def isBuildDepOf (m dep : Module) : Bool :=
  !(dep.name == m.name && dep.contextName == m.contextName) && dep.isBuildDep

/-- `IndexSet::insert` into the (lazily created) build-dep set -/
def bdepInsert (bdeps : Option (List Name)) (n : Name) : Option (List Name) :=
  some (if (bdeps.getD []).contains n then bdeps.getD [] else bdeps.getD [] ++ [n])

/-- the build-dep part of one iteration -/
def addBuildDep (m dep : Module) (bdeps : Option (List Name)) : Option (List Name) :=
  if isBuildDepOf m dep then bdepInsert bdeps dep.name else bdeps

/-- the `for dep in deps` loop of `build_env` over the import closure (as modules) -/
def buildEnvLoop : List Module → Module → Env → Option (List Name) → Except GErr (Env × Option (List Name))
  | [], _, env, bdeps => .ok (env, bdeps)
  | dep :: deps, m, env, bdeps =>
    match depEnvStep m dep env with
    | .error e => .error e
    | .ok env' => buildEnvLoop deps m env' (addBuildDep m dep bdeps)

/-- `notify` for a `notify_all` module: every selected non-context module -/
def notifyAllEnv (r : Resolved) (m : Module) (env : Env) : Env :=
  if m.notifyAll then
    env.insert "notify" (.list ((r.modules.filter (!·.isContextModule)).map (defineName ·.name)))
  else env

/-- what happens after the loop: `notify_all`, then the module's local env on top -/
def finishEnv (r : Resolved) (m : Module) (env : Env) : Env := (notifyAllEnv r m env).merge m.envLocal

/-- the import closure of `m` as modules (names without a selected module are skipped) -/
def importedModules (r : Resolved) (m : Module) : List Module := (importsOf r m.name).filterMap r.module?

/-- `Module::build_env`: (module env, build-dep modules) -/
def buildEnv (r : Resolved) (m : Module) (globalEnv : Env) : Except GErr (Env × Option (List Name)) :=
  match buildEnvLoop (importedModules r m) m globalEnv none with
  | .error e => .error e
  | .ok p => .ok (finishEnv r m p.1, p.2)

end Laze
