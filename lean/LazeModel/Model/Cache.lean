import LazeModel.Model.Select
/-! The cache protocol of `Generator::execute` / `GenerateResult::{try_from,to_cache}` /
    `data::load` (generate.rs 117-153, 285-299, 1052-1157; data.rs 1051-1066) as a small-step
    transition system over an abstract disk. Generation itself is abstract: a complete ninja file is
    identified by (what was parsed, with which arguments). -/
namespace Laze.Cache

abbrev File := String

/-- the project tree: per file a stamp (what `treestate` records: len+mtime) and a content version;
    every edit gives the file a fresh stamp and a fresh version (`clock`). A missing file has stamp 0. -/
structure Tree where
  stamp : File → Nat
  ver   : File → Nat
  clock : Nat

abbrev Snap := List (File × Nat)      -- (file, content version) as parsed
abbrev Stamps := List (File × Nat)    -- (file, stamp) as stat'ed

/-- what the cache key compares (`try_from`) -/
structure Key where
  mode : String                        -- "global" | "local:<dir>"
  builders : Selector
  apps : Selector
  select : Option (List String)
  disable : Option (List String)
  define : List String                 -- the -D assignments as an order-independent key (sorted pairs)
  partition : Option String
  uuid : Nat                           -- `build_uuid` of the running binary
  /-- every explicitly requested builder/app name exists in the project (a builder context resp. an app; a
      property of the request and the loaded project) -/
  namesKnown : Bool := true
  deriving Repr, DecidableEq

/-- lines 1127-1151 of generate.rs: may a record written with key `r` serve a run with key `k`?
    (the stamp comparison is separate) -/
def Selector.sameSet (a b : Selector) : Bool := a.isSuperset b && b.isSuperset a

/-- `Selector::same_sequence`: the same names in the same order -/
def Selector.sameSeq : Selector → Selector → Bool
  | .all, .all => true
  | .some a, .some b => a == b
  | _, _ => false

/-- with a partition the selection has to be the same one: a partition is a slice of the tuple sequence left *after*
    selection (`C10.count_not_commute`), so a wider run's slice does not contain a narrower run's. The sequence lists the builders in
    the order they were GIVEN (`selectedBuilders`) and the apps in definition order (`selectedBins` filters): the builders must be the
    same list, the apps the same set (fix 0b669f6: the builders used to be compared as sets, so `-b x,y -P count:1/2` was served
    from the cache of `-b y,x -P count:1/2`) -/
def partitionOk (r k : Key) : Bool :=
  k.partition.isNone || (Selector.sameSeq r.builders k.builders && Selector.sameSet r.apps k.apps)

def keyValid (r k : Key) : Bool :=
  r.uuid == k.uuid && r.partition == k.partition && r.builders.isSuperset k.builders && r.apps.isSuperset k.apps
    && r.mode == k.mode && r.select == k.select && r.disable == k.disable && r.define == k.define
    && k.namesKnown && partitionOk r k

inductive Ninja where
  | absent
  | short                              -- created/truncated or partially written (buffer not flushed)
  | complete (sn : Snap) (k : Key)     -- the full output of generation from snapshot `sn` with key `k`
  deriving Repr, DecidableEq

inductive CacheFile where
  | absent
  | torn                               -- a partially written file: never deserialises
  | record (k : Key) (st : Stamps) (sn : Snap)   -- `sn` is a ghost field (what the run had parsed)
  deriving Repr, DecidableEq

/-- the phases of one (cache-missing) run, in code order. `load` makes three passes over the build files:
    for each file `stat` then read+parse (`parsing`/`reading`; `pre` = the stamps seen just before each read),
    then the treestate pass (`statting`, records `st`), then the comparison pass (`checking`: is every file's
    stamp still what it was just before it was read?). `ok = false` means "a build file changed while it was
    being loaded": the run completes but writes no cache record. -/
inductive Proc where
  | idle
  | parsing (k : Key) (todo : List File) (sn : Snap) (pre : Stamps)
  | reading (k : Key) (f : File) (todo : List File) (sn : Snap) (pre : Stamps)   -- `f` stat'ed, about to be read
  | statting (k : Key) (sn : Snap) (todo : List File) (st : Stamps) (pre : Stamps)
  | checking (k : Key) (sn : Snap) (st : Stamps) (todo : Stamps) (ok : Bool)
  | statted (k : Key) (sn : Snap) (st : Stamps) (ok : Bool)      -- `load` returned
  | removed (k : Key) (sn : Snap) (st : Stamps) (ok : Bool)      -- the old cache file is gone
  | created (k : Key) (sn : Snap) (st : Stamps) (ok : Bool)      -- ninja file created (truncated), header buffered
  | written (k : Key) (sn : Snap) (st : Stamps) (ok : Bool)      -- all entries handed to the BufWriter
  | flushed (k : Key) (sn : Snap) (st : Stamps) (ok : Bool)      -- buffer flushed: the file is complete
  deriving Repr, DecidableEq

structure State where
  tree : Tree
  ninja : Ninja
  cache : CacheFile
  proc : Proc

def Tree.edit (t : Tree) (f : File) : Tree :=
  { stamp := fun g => if g = f then t.clock else t.stamp g
    ver := fun g => if g = f then t.clock else t.ver g
    clock := t.clock + 1 }

def stampsMatchB (st : Stamps) (t : Tree) : Bool := st.all (fun p => t.stamp p.1 == p.2)

/-- `try_from`: is the run with key `k` served from the cache? -/
def hit (s : State) (k : Key) : Bool :=
  match s.cache with
  | .record r st _ => keyValid r k && stampsMatchB st s.tree
  | _ => false

inductive Ev where
  | edit (f : File)
  | start (k : Key) (files : List File)   -- a run that misses the cache begins (hits do not change the disk)
  | step                                  -- the running process performs its next micro-step
  | kill                                  -- the process dies: whatever is in its buffers is lost
  | fail                                  -- generation reports an error (possible while configuring/writing)
  deriving Repr

def next (s : State) : Ev → State
  | .edit f => { s with tree := s.tree.edit f }
  | .start k files => match s.proc with
      | .idle => { s with proc := .parsing k files [] [] }
      | _ => s
  | .kill => { s with proc := .idle }
  | .fail => match s.proc with
      | .created .. | .written .. => { s with proc := .idle }
      | _ => s
  | .step => match s.proc with
      | .idle => s
      | .parsing k [] sn pre => { s with proc := .statting k sn (sn.map (·.1)) [] pre }
      | .parsing k (f :: todo) sn pre => { s with proc := .reading k f todo sn (pre ++ [(f, s.tree.stamp f)]) }
      | .reading k f todo sn pre => { s with proc := .parsing k todo (sn ++ [(f, s.tree.ver f)]) pre }
      | .statting k sn [] st pre => { s with proc := .checking k sn st pre true }
      | .statting k sn (f :: todo) st pre => { s with proc := .statting k sn todo (st ++ [(f, s.tree.stamp f)]) pre }
      | .checking k sn st [] ok => { s with proc := .statted k sn st ok }
      | .checking k sn st (q :: todo) ok => { s with proc := .checking k sn st todo (ok && (s.tree.stamp q.1 == q.2)) }
      | .statted k sn st ok => { s with cache := .absent, proc := .removed k sn st ok }
      | .removed k sn st ok => { s with ninja := .short, proc := .created k sn st ok }
      | .created k sn st ok => { s with proc := .written k sn st ok }
      | .written k sn st ok => { s with ninja := .complete sn k, proc := .flushed k sn st ok }
      | .flushed k sn st ok => { s with cache := if ok then .record k st sn else s.cache, proc := .idle }

def init : State :=
  { tree := { stamp := fun _ => 0, ver := fun _ => 0, clock := 1 }, ninja := .absent, cache := .absent, proc := .idle }

/-! ### run-level interface used by the correspondence check -/

/-- where a run is stopped (the fault points of the hooked binary, in code order) -/
inductive StopAt where
  | never
  | afterCacheCheck | afterParse | afterStat | afterCacheRemove | afterNinjaCreate
  | afterHeader | afterConfigure | afterEntries | afterFlush | afterCacheWrite
  deriving Repr, DecidableEq

/-- run micro-steps until the process reaches a phase satisfying `p` (or is idle); fuel-bounded -/
def stepsUntil (p : Proc → Bool) : Nat → State → State
  | 0, s => s
  | n+1, s => if p s.proc || s.proc == .idle then s else stepsUntil p n (next s .step)

/-- `load` has returned: treestate taken and compared (fault point `after_stat`) -/
def isStatted : Proc → Bool | .statted .. => true | _ => false
/-- all files read, the treestate pass not yet begun (fault point `after_parse`) -/
def isParsedAll : Proc → Bool | .statting .. => true | _ => false
def isRemoved : Proc → Bool | .removed .. => true | _ => false
def isCreated : Proc → Bool | .created .. => true | _ => false
def isWritten : Proc → Bool | .written .. => true | _ => false
def isFlushed : Proc → Bool | .flushed .. => true | _ => false

inductive Report where
  | hit | done | stopped
  deriving Repr, DecidableEq

/-- one laze run with key `k` that loads `files`, killed at `stop` (or running to completion) -/
def run (s : State) (k : Key) (files : List File) (stop : StopAt) : State × Report :=
  if hit s k then (s, .hit) else
  let fuel := 4 * files.length + 12
  let s0 := next s (.start k files)
  let upTo (p : Proc → Bool) := stepsUntil p fuel s0
  match stop with
  | .never => (stepsUntil (fun _ => false) fuel s0, .done)
  | .afterCacheCheck => (next s0 .kill, .stopped)
  | .afterParse => (next (upTo isParsedAll) .kill, .stopped)
  | .afterStat => (next (upTo isStatted) .kill, .stopped)
  | .afterCacheRemove => (next (upTo isRemoved) .kill, .stopped)
  | .afterNinjaCreate | .afterHeader | .afterConfigure => (next (upTo isCreated) .kill, .stopped)
  | .afterEntries => (next (upTo isWritten) .kill, .stopped)
  | .afterFlush => (next (upTo isFlushed) .kill, .stopped)
  | .afterCacheWrite => (next (stepsUntil (fun _ => false) fuel s0) .kill, .stopped)

/-- a run with the cache disabled (`--info-export`): `try_from` refuses ("cache disabled") whatever the cache file says, the rest
    of `execute` is the same — the old cache is removed, the ninja file rewritten, a new record written -/
def runNoCache (s : State) (k : Key) (files : List File) : State × Report :=
  let fuel := 4 * files.length + 12
  (stepsUntil (fun _ => false) fuel (next s (.start k files)), .done)

/-- a run whose generation fails after the ninja file was created (e.g. unknown builder, bad rule) -/
def runFailing (s : State) (k : Key) (files : List File) : State × Report :=
  if hit s k then (s, .hit) else
  let fuel := 4 * files.length + 12
  (next (stepsUntil isCreated fuel (next s (.start k files))) .fail, .stopped)

/-- a complete cache-missing run during which build file `f` is edited exactly at the `after_parse` point
    (every file has been read, the treestate pass has not begun) -/
def runWithEdit (s : State) (k : Key) (files : List File) (f : File) : State × Report :=
  if hit s k then (s, .hit) else
  let fuel := 4 * files.length + 12
  let s1 := stepsUntil isParsedAll fuel (next s (.start k files))
  (stepsUntil (fun _ => false) fuel (next s1 (.edit f)), .done)

end Laze.Cache
