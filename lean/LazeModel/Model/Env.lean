import LazeModel.Model.Expr
/-! Model of `src/nested_env/mod.rs`: `EnvKey`, `Env`, merge, flatten, var_options. -/
namespace Laze

inductive EnvKey where
  | single (s : String)
  | list (l : List String)
  deriving Repr, BEq, DecidableEq

/-- `EnvKey::merge`: list onto list appends, every other combination: the later value wins -/
def EnvKey.merge : EnvKey → EnvKey → EnvKey
  | .list a, .list b => .list (a ++ b)
  | _, o => o

/-- `itertools::join(list, " ")` -/
def joinSep (sep : String) : List String → String
  | [] => ""
  | [x] => x
  | x :: y :: r => x ++ sep ++ joinSep sep (y :: r)

def EnvKey.flatten : EnvKey → String
  | .single s => s
  | .list l => joinSep " " l

structure MergeOption where
  «from» : Option String := none
  joiner : Option String := none
  «prefix» : Option String := none
  suffix : Option String := none
  start : Option String := none
  «end» : Option String := none
  deriving Repr, BEq, DecidableEq

def optStr (o : Option String) : String := o.getD ""

/-- the `for s in list` loop of `flatten_with_opts`: `(res, first)` -/
def flattenLoop (joiner pre suf : String) : List String → String → Bool → String
  | [], res, _ => res
  | s :: rest, res, first =>
    if s.isEmpty then flattenLoop joiner pre suf rest res first
    else
      let res := if first then res else res ++ joiner
      flattenLoop joiner pre suf rest (res ++ pre ++ s ++ suf) false

/-- `EnvKey::flatten_with_opts` -/
def EnvKey.flattenWithOpts (v : EnvKey) (o : MergeOption) : String :=
  let res := optStr o.start
  let res := match v with
    | .single s => res ++ optStr o.prefix ++ s ++ optStr o.suffix
    | .list l => flattenLoop (o.joiner.getD " ") (optStr o.prefix) (optStr o.suffix) l res true
  res ++ optStr o.end

/-- `Env`: association list with unique keys (the Rust map is unordered; every observable
    of the model is order-insensitive or sorted by key before comparison) -/
abbrev Env := List (String × EnvKey)

def Env.get (e : Env) (k : String) : Option EnvKey := (e.find? (·.1 == k)).map (·.2)
def Env.has (e : Env) (k : String) : Bool := e.any (·.1 == k)
def Env.insert (e : Env) (k : String) (v : EnvKey) : Env :=
  if e.has k then e.map (fun p => if p.1 == k then (k, v) else p) else e ++ [(k, v)]

/-- `Env::merge(&mut self, other)` -/
def Env.merge (a b : Env) : Env :=
  b.foldl (fun acc kv => match acc.get kv.1 with
    | some old => acc.insert kv.1 (old.merge kv.2)
    | none => acc ++ [kv]) a

abbrev Flat := List (String × String)
def Flat.get (f : Flat) (k : String) : Option String := (f.find? (·.1 == k)).map (·.2)
def Flat.insert (f : Flat) (k : String) (v : String) : Flat :=
  if f.any (·.1 == k) then f.map (fun p => if p.1 == k then (k, v) else p) else f ++ [(k, v)]

def Env.flatten (e : Env) : Flat := e.map (fun kv => (kv.1, kv.2.flatten))

abbrev VarOpts := List (String × MergeOption)
def VarOpts.get (o : VarOpts) (k : String) : Option MergeOption := (o.find? (·.1 == k)).map (·.2)

inductive FlatErr where | fromMissing | bothValuesAndFrom
  deriving Repr, DecidableEq

/-- the `for (key, merge_opt) in merge_opts` loop handling `from:` -/
def fromLoop (e : Env) : VarOpts → Flat → Except FlatErr Flat
  | [], res => .ok res
  | (key, o) :: rest, res =>
    match o.from with
    | none => fromLoop e rest res
    | some other =>
      match e.get other with
      | none => .error .fromMissing
      | some v =>
        if res.any (·.1 == key) then .error .bothValuesAndFrom
        else fromLoop e rest (res ++ [(key, v.flattenWithOpts o)])

/-- one entry of the flattened map: with the variable's options if it has some -/
def flatEntry (opts : VarOpts) (kv : String × EnvKey) : String × String :=
  match opts.get kv.1 with
  | some o => (kv.1, kv.2.flattenWithOpts o)
  | none => (kv.1, kv.2.flatten)

/-- `Env::flatten_with_opts` -/
def Env.flattenWithOpts (e : Env) (opts : VarOpts) : Except FlatErr Flat :=
  fromLoop e opts (e.map (flatEntry opts))

def Env.flattenWithOptsOption (e : Env) : Option VarOpts → Except FlatErr Flat
  | some o => e.flattenWithOpts o
  | none => .ok e.flatten

/-- `str::split_once(pat)` on characters -/
def splitOnce (pat : List Char) : List Char → Option (List Char × List Char)
  | [] => if pat.isEmpty then some ([], []) else none
  | c :: tl =>
    if pat.isPrefixOf (c :: tl) then some ([], (c :: tl).drop pat.length)
    else (splitOnce pat tl).map (fun (a, b) => (c :: a, b))

/-- `str::strip_suffix('+')` -/
def stripPlus (var : List Char) : Option (List Char) :=
  match var.reverse with
  | '+' :: rest => some rest.reverse
  | _ => none

/-- `Env::assign_from_string`: the first `=` separates variable and value; `VAR+=value` appends -/
def Env.assignFromString (e : Env) (a : String) : Option Env :=
  match splitOnce ['='] a.toList with
  | some (var, value) =>
    (match stripPlus var with
     | some v => some (e.merge [(String.ofList v, .list [String.ofList value])])
     | none => some (e.merge [(String.ofList var, .single (String.ofList value))]))
  | none => none

def flatVars (f : Flat) : Vars := f.map (fun (k, v) => (toB k, toB v))

/-- `nested_env::expand` on strings -/
def expandS (f : Flat) (pol : Policy) (s : String) : Except XErr String :=
  (expand (flatVars f) pol (toB s)).map ofB

/-- `nested_env::expand_keep_escapes` on strings -/
def expandKeepS (f : Flat) (pol : Policy) (s : String) : Except XErr String :=
  (expandKeep (flatVars f) pol (toB s)).map ofB

def expandEvalS (ev : EvalExpr) (f : Flat) (pol : Policy) (s : String) : Except XErr String :=
  (expandEval ev (flatVars f) pol (toB s)).map ofB

/-- `Env::expand(values)`: the early pass over every value (policy Ignore) -/
def Env.expandEarly (e : Env) (values : Env) : Except XErr Env :=
  let f := values.flatten
  e.mapM (fun (k, v) => match v with
    | .single s => (expandKeepS f .ignore s).map (fun r => (k, EnvKey.single r))
    | .list l => (l.mapM (expandKeepS f .ignore)).map (fun r => (k, EnvKey.list r)))

end Laze
