import LazeModel.Model.Resolver
/-! Loaded project data (`src/model/*.rs`): rules, tasks, modules, contexts, the context bag. -/
namespace Laze

structure VarExport where
  var : String
  content : Option String
  deriving Repr, BEq, DecidableEq

structure Rule where
  name : String
  cmd : String
  in_ : Option String := none
  out : Option String := none
  gccDeps : Option String := none
  rspfile : Option String := none
  rspfileContent : Option String := none
  pool : Option String := none
  description : Option String := none
  «export» : Option (List VarExport) := none
  always : Bool := false
  shareable : Bool := true
  deriving Repr, BEq, DecidableEq

structure Task where
  cmd : List String
  requiredVars : Option (List String) := none
  requiredModules : Option (List String) := none
  «export» : Option (List VarExport) := none
  build : Bool := true
  workdir : Option String := none
  deriving Repr, BEq, DecidableEq

structure CustomBuild where
  gccDeps : Option String := none
  cmd : List String
  out : Option (List String) := none
  deriving Repr, BEq, DecidableEq

/-- `download:` — only the git/commit form produces statements; everything else is an error -/
structure Download where
  url : String
  commit : Option String       -- `none`: branch/tag/default/laze form ("unsupported download type")
  patches : Option (List String) := none
  dldir : Option String := none
  deriving Repr, BEq, DecidableEq

structure Module where
  name : Name
  contextName : Name
  selects : List Dep := []
  imports : List Dep := []
  provides : Option (List Name) := none
  conflicts : Option (List Name) := none
  notifyAll : Bool := false
  blocklist : Option (List Name) := none
  allowlist : Option (List Name) := none
  sources : List String := []
  sourcesOptional : Option (List (Name × List String)) := none
  tasks : List (String × Task) := []
  build : Option CustomBuild := none
  envLocal : Env := []
  envExport : Env := []
  envGlobal : Env := []
  envEarly : Env := []
  download : Option Download := none
  definedIn : String := ""
  relpath : String := "."
  srcdir : Option String := none
  buildDepFiles : Option (List String) := none
  isBuildDep : Bool := false
  isGlobalBuildDep : Bool := false
  isBinary : Bool := false
  deriving Repr

def Module.toMod (m : Module) : Mod :=
  { name := m.name, selects := m.selects, conflicts := m.conflicts.getD [], provides := m.provides.getD [] }

def Module.isContextModule (m : Module) : Bool := m.name.startsWith "context::"

structure Context where
  name : Name
  parent : Option Name            -- parent_name (`none` only for "default")
  modules : List Module := []     -- insertion order (IndexMap)
  rules : Option (List Rule) := none
  env : Option Env := none
  disable : Option (List Name) := none
  provided : Option (List (Name × List Name)) := none
  varOptions : Option VarOpts := none
  tasks : Option (List (String × Task)) := none
  envEarly : Env := []
  isBuilder : Bool := false
  definedIn : String := ""
  deriving Repr

structure Bag where
  contexts : List Context
  deriving Repr

def Bag.ctx? (b : Bag) (n : Name) : Option Context := b.contexts.find? (·.name == n)
def Bag.tree (b : Bag) : Tree := b.contexts.map (fun c => ⟨c.name, c.parent⟩)
/-- `[c, parent c, …, root]` -/
def Bag.chain (b : Bag) (n : Name) : List Name := b.tree.chain n
def Bag.chainCtx (b : Bag) (n : Name) : List Context := (b.chain n).filterMap b.ctx?

def Context.module? (c : Context) (n : Name) : Option Module := c.modules.find? (·.name == n)

/-- `Context::resolve_module`: the nearest definition on the chain -/
def Bag.resolveModule (b : Bag) (c : Name) (n : Name) : Option Module :=
  (b.chainCtx c).findSome? (·.module? n)

def dedup [BEq α] (l : List α) : List α := l.foldl (fun acc x => if acc.contains x then acc else acc ++ [x]) []

/-- `collect_disabled_modules`: root → builder, insertion-ordered set -/
def Bag.collectDisabled (b : Bag) (c : Name) : List Name :=
  dedup ((b.chainCtx c).reverse.flatMap (fun x => x.disable.getD []))

/-- `collect_rules`: root → builder; keyed by `in` (else by name); `IndexMap::insert` semantics:
    a later value replaces, the position of the first insertion is kept -/
def insertKeyed (acc : List (String × α)) (k : String) (v : α) : List (String × α) :=
  if acc.any (·.1 == k) then acc.map (fun q => if q.1 == k then (k, v) else q) else acc ++ [(k, v)]

def Bag.collectRules (b : Bag) (c : Name) : List (String × Rule) :=
  (b.chainCtx c).reverse.foldl (fun acc x =>
    (x.rules.getD []).foldl (fun acc r => insertKeyed acc (r.in_.getD r.name) r) acc) []

def rulesGet (rules : List (String × Rule)) (k : String) : Option Rule := (rules.find? (·.1 == k)).map (·.2)
/-- `get_rule(name)`: first rule (in map order) with that name -/
def rulesByName (rules : List (String × Rule)) (n : String) : Option Rule := (rules.find? (·.2.name == n)).map (·.2)

end Laze
