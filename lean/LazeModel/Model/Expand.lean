import LazeModel.Model.Bytes
/-! Byte-level model of `nested_env::expand` (`src/nested_env/expand.rs`). -/
namespace Laze

inductive XErr where
  | missing (k : Bytes) | unclosed (p : Nat) | cycle (k : Bytes) | expr | panic | fuel
  | need (e : Bytes)      -- protocol only: the evalexpr table lacks an entry
  deriving Repr, DecidableEq

inductive Policy where | error | ignore | empty
  deriving Repr, DecidableEq

structure Rep where
  key : Bytes
  start : Nat
  stop : Nat
  deriving Repr, DecidableEq

/-- first loop of `expand_recursive`: collect the replacements `(key, (start, end))`.
    `fuel` bounds the number of loop iterations (every iteration advances `cursor`). -/
def scan (f : Bytes) : Nat → Nat → List Rep → Bool → Except XErr (List Rep × Bool)
  | 0, _, _, _ => .error .fuel
  | fuel+1, cursor, acc, esc =>
    if cursor < f.length then
      match findSub dollarBrace (f.drop cursor) with
      | none => .ok (acc, esc)
      | some start =>
        -- `start > 0 && f.as_bytes()[cursor + start - 1] == b'\\'`
        if start > 0 && f.getD (cursor + start - 1) 0 == backslash then
          scan f fuel (cursor + start + 1) acc true
        else
          let s := start + cursor
          match findSub closeBrace (f.drop s) with
          | none => .error (.unclosed s)
          | some e =>
            let stop := e + s
            scan f fuel (stop + 1) (acc ++ [⟨(f.drop (s+2)).take (stop - (s+2)), s, stop + 1⟩]) esc
    else .ok (acc, esc)

abbrev Vars := List (Bytes × Bytes)
def Vars.get (r : Vars) (k : Bytes) : Option Bytes := (r.find? (·.1 == k)).map (·.2)

abbrev XRec := Bytes → List Bytes → Except XErr Bytes

/-- second loop: substitute -/
def subst (r : Vars) (pol : Policy) (rec : XRec) (f : Bytes) (seen : List Bytes) :
    List Rep → Nat → Bytes → Except XErr (Bytes × Nat)
  | [], cursor, res => .ok (res, cursor)
  | rep :: reps, cursor, res =>
    let res := res ++ (f.drop cursor).take (rep.start - cursor)
    if seen.contains rep.key then .error (.cycle rep.key)
    else
      match r.get rep.key with
      | some val =>
        match rec val (seen ++ [rep.key]) with
        | .ok v => subst r pol rec f seen reps rep.stop (res ++ v)
        | .error e => .error e
      | none =>
        match pol with
        | .error => .error (.missing rep.key)
        | .ignore => subst r pol rec f seen reps rep.stop (res ++ dollarBrace ++ rep.key ++ closeBrace)
        | .empty => subst r pol rec f seen reps rep.stop res

def expandStep (r : Vars) (pol : Policy) (rec : XRec) (f : Bytes) (seen : List Bytes) : Except XErr Bytes :=
  match scan f (f.length + 1) 0 [] false with
  | .error e => .error e
  | .ok (reps, esc) =>
    match subst r pol rec f seen reps 0 [] with
    | .error e => .error e
    | .ok (res, cursor) =>
      let res := if cursor < f.length then res ++ f.drop cursor else res
      .ok (if esc then replaceAll escDollarBrace dollarBrace res else res)

def expandRec (r : Vars) (pol : Policy) : Nat → XRec
  | 0 => fun _ _ => .error .fuel
  | n+1 => expandStep r pol (expandRec r pol n)

/-- `expand_recursive(.., unescape = false)`: like `expandStep` but escaped references stay escaped -/
def expandStepKeep (r : Vars) (pol : Policy) (rec : XRec) (f : Bytes) (seen : List Bytes) : Except XErr Bytes :=
  match scan f (f.length + 1) 0 [] false with
  | .error e => .error e
  | .ok (reps, _) =>
    match subst r pol rec f seen reps 0 [] with
    | .error e => .error e
    | .ok (res, cursor) => .ok (if cursor < f.length then res ++ f.drop cursor else res)

def expandRecKeep (r : Vars) (pol : Policy) : Nat → XRec
  | 0 => fun _ _ => .error .fuel
  | n+1 => expandStepKeep r pol (expandRecKeep r pol n)

/-- `expand_keep_escapes`: the early pass over the yaml files (its result is expanded again later) -/
def expandKeep (r : Vars) (pol : Policy) (f : Bytes) : Except XErr Bytes :=
  expandRecKeep r pol (r.length + 2) f []

/-- number of distinct keys bounds the recursion depth (a repeated key on a path is a `Cycle`) -/
def expand (r : Vars) (pol : Policy) (f : Bytes) : Except XErr Bytes :=
  expandRec r pol (r.length + 2) f []

end Laze
