import LazeModel.Model.Build
/-! `src/generate.rs` `configure_build`, `src/build.rs` `Build::new`, `src/download.rs`,
    `Context::collect_tasks`: everything that turns (bag, builder, app, CLI) into ninja statements. -/
namespace Laze

/-! ### environment assembly -/

structure Settings where
  buildDir : String := "build"
  projectRoot : String := ""
  lazeBin : String := ""
  deriving Repr

def lazeEnv (st : Settings) : Env :=
  [("in", .single "\\${in}"), ("out", .single "\\${out}"), ("build-dir", .single st.buildDir),
   ("outfile", .single "${bindir}/${app}.elf"), ("project-root", .single st.projectRoot),
   ("root", .single "."), ("LAZE_BIN", .single st.lazeBin)]

/-- `relroot(relpath)` -/
def relroot (relpath : String) : String :=
  let comps := (pathComponents relpath).filter (· ≠ ".")
  if comps.length == 0 then "${root}" else "/".intercalate (comps.map (fun _ => ".."))

def globalEnv (st : Settings) (b : Bag) (builder : Name) (app : Module) (r : Resolved) (cli : Cli) : Env :=
  let benv := ((((b.ctx? builder).bind (·.env)).getD []).insert "builder" (.single builder)).insert "app" (.single app.name)
  let g := (lazeEnv st).merge benv
  let g := r.modules.reverse.foldl (fun g m => g.merge m.envGlobal) g
  let g := g.insert "relpath" (.single app.relpath)
  let g := g.insert "relroot" (.single (relroot app.relpath))
  let g := g.insert "modules" (.list ((r.modules.filter (!·.isContextModule)).map (·.name)))
  let g := g.insert "contexts" (.list (b.chain builder))
  match cli.env with
  | some e => g.merge e
  | none => g

/-! ### `Rule::to_ninja` -/

def xerrKind : XErr → String
  | .missing _ => "missing" | .unclosed _ => "unclosed" | .cycle _ => "cycle" | .expr => "expr"
  | .panic => "panic" | .fuel => "fuel" | .need _ => "need"

def liftX {α} (site : String) (x : Except XErr α) : Except GErr α :=
  match x with
  | .ok v => .ok v
  | .error (.need e) => .error (.error ("need:" ++ ofB e))
  | .error e => .error (.error (site ++ ":" ++ xerrKind e))

/-- an `.unwrap()` on an expansion result: an error there is a panic -/
def unwrapX {α} (site : String) (x : Except XErr α) : Except GErr α :=
  match x with
  | .ok v => .ok v
  | .error (.need e) => .error (.error ("need:" ++ ofB e))
  | .error e => .error (.panic (site ++ ":" ++ xerrKind e))

/-- `VarExportSpec::apply_env` -/
def applyExport (ev : EvalExpr) (flat : Flat) (e : VarExport) : Except GErr VarExport := do
  let content := match e.content with | some c => c | none => "${" ++ e.var ++ "}"
  let c ← unwrapX "shared.rs:apply_env" (expandEvalS ev flat .empty content)
  return { var := e.var, content := some c }

def ruleToNinja (ev : EvalExpr) (rule : Rule) (flat : Flat) : Except GErr NinjaRule := do
  let exports ← match rule.export with
    | some l => (l.mapM (applyExport ev flat)).map some
    | none => pure none
  let pre := String.join ((exports.getD []).map (fun e => match e.content with
    | some v => e.var ++ "=\"" ++ v ++ "\" && " | none => ""))
  let cmd ← liftX "rule-cmd" (expandEvalS ev flat .ignore rule.cmd)
  let deps ← match rule.gccDeps with
    | some d => (liftX "rule-deps" (expandEvalS ev flat .ignore d)).map some
    | none => pure none
  let r : NinjaRule := { name := rule.name, command := pre ++ cmd, description := some (rule.description.getD rule.name),
                         deps := deps, rspfile := rule.rspfile, rspfileContent := rule.rspfileContent,
                         pool := rule.pool, always := rule.always }
  return r.named

/-! ### build-order graph (`solvent::DepGraph`, deterministic feature) -/

structure DepGraph where
  edges : List (Name × List Name) := []   -- node ↦ dependencies, both in insertion order

def DepGraph.add (g : DepGraph) (n d : Name) : DepGraph :=
  { edges := if g.edges.any (·.1 == n) then g.edges.map (fun e => if e.1 == n then (n, if e.2.contains d then e.2 else e.2 ++ [d]) else e)
             else g.edges ++ [(n, [d])] }

def DepGraph.deps (g : DepGraph) (n : Name) : Option (List Name) := (g.edges.find? (·.1 == n)).map (·.2)

/-- `get_next_dependency`: descend to the first unsatisfied dependency; `none` = cycle -/
def nextDependency (g : DepGraph) (satisfied : List Name) : Nat → List Name → Name → Option Name
  | 0, _, _ => none
  | fuel+1, curpath, pos =>
    if curpath.contains pos then none else
    match g.deps pos with
    | none => some pos
    | some deplist =>
      match deplist.find? (fun n => !satisfied.contains n) with
      | some n => nextDependency g satisfied fuel (curpath ++ [pos]) n
      | none => some pos

/-- the iterator of `dependencies_of(target)`: nodes in emission order, `none` on a cycle -/
def dependenciesOf (g : DepGraph) (target : Name) (size : Nat) : Nat → List Name → Option (List Name)
  | 0, _ => none
  | fuel+1, satisfied =>
    if satisfied.contains target then some satisfied else
    match nextDependency g satisfied (size + 2) [] target with
    | none => none
    | some n => dependenciesOf g target size fuel (satisfied ++ [n])

def rootNode : Name := ""
def globalNode : Name := "_global_build_deps"

/-- modules in build order, or `none` when there is a build-dependency cycle -/
def buildOrder (mods : List (Module × Option (List Name))) : Option (List Name) :=
  let globals := (mods.filter (·.1.isGlobalBuildDep)).map (·.1.name)
  let g : DepGraph := globals.foldl (fun g d => g.add globalNode d) {}
  let g := mods.foldl (fun g (m, bdeps) =>
    let g := (bdeps.getD []).foldl (fun g d => g.add m.name d) g
    let g := g.add rootNode m.name
    if !m.isGlobalBuildDep then g.add m.name globalNode else g) g
  let size := mods.length + 3
  (dependenciesOf g rootNode size (size + 1) []).map
    (fun order => order.filter (fun n => n != rootNode && n != globalNode))

/-! ### download statements (`download.rs`) -/

def Download.tagfileDownload (srcdir : String) : String := pathPush srcdir ".laze-downloaded"
def Download.tagfilePatched (srcdir : String) : String := pathPush srcdir ".laze-patched"
def Download.tagfile (d : Download) (srcdir : String) : String :=
  if d.patches.isSome then Download.tagfilePatched srcdir else Download.tagfileDownload srcdir

/-- `Download::srcdir` -/
def Download.srcdir (d : Download) (buildDir : String) (relpath name : String) : String :=
  let s := pathPush buildDir "dl"
  match d.dldir with
  | some dl => pathPush s dl
  | none => pathPush (pathPush s relpath) name

def downloadEntries (ev : EvalExpr) (m : Module) (d : Download) (rules : List (String × Rule)) (flat : Flat) :
    Except GErr (List String) := do
  match d.commit with
  | none => throw (.error "unsupported download type")
  | some commit =>
    let env := [("commit", commit), ("url", d.url)]
    match rulesByName rules "GIT_DOWNLOAD" with
    | none => throw (.panic "download.rs:missing GIT_DOWNLOAD rule")
    | some dr =>
      let nr ← ruleToNinja ev dr flat
      let srcdir := m.srcdir.getD ""
      let dl : NinjaBuild := { rule := nr.name, outs := [Download.tagfileDownload srcdir], env := some env }
      let base := [nr.render, dl.render]
      match d.patches with
      | none => return base
      | some patches =>
        match rulesByName rules "GIT_PATCH" with
        | none => throw (.panic "download.rs:missing GIT_PATCH rule")
        | some pr =>
          let npr ← match ruleToNinja ev pr flat with
            | .ok r => pure r
            | .error (.error k) => throw (if k.startsWith "need:" then .error k else .panic ("download.rs:patch to_ninja:" ++ k))
            | .error e => throw e
          let pb : NinjaBuild := { rule := npr.name, inputs := some (patches.map (pathPush m.relpath ·)),
                                   outs := [Download.tagfilePatched srcdir],
                                   deps := some (pathSort [Download.tagfileDownload srcdir]), env := some env }
          return base ++ [npr.render, pb.render]

/-! ### tasks (`Context::collect_tasks`, `Task::with_env_eval`) -/

inductive TaskAvail where
  | ok (t : Task)
  | missingVar (v : String)
  | missingModule (m : String)
  deriving Repr

def taskWithEnvEval (ev : EvalExpr) (flat : Flat) (t : Task) : Except GErr Task := do
  let cmd ← t.cmd.mapM (fun c => liftX "task-cmd" (expandEvalS ev flat .empty c))
  let exp ← match t.export with
    | some l => (l.mapM (applyExport ev flat)).map some
    | none => pure none
  let wd ← match t.workdir with
    | some w => (liftX "task-workdir" (expandEvalS ev flat .empty w)).map some
    | none => pure none
  return { t with cmd := cmd, «export» := exp, workdir := wd }

def taskAvail (ev : EvalExpr) (flat : Flat) (r : Resolved) (t : Task) : Except GErr TaskAvail :=
  match (t.requiredVars.getD []).find? (fun v => !(flat.any (·.1 == v))) with
  | some v => .ok (.missingVar v)
  | none =>
    match (t.requiredModules.getD []).find? (fun m => !r.has m) with
    | some m => .ok (.missingModule m)
    | none => (taskWithEnvEval ev flat t).map TaskAvail.ok

/-- the final task table: contexts root → builder, then (after each context) every selected
    module's tasks; `IndexMap::insert` semantics (a later definition replaces, position kept) -/
def collectTasks (ev : EvalExpr) (b : Bag) (builder : Name) (flat : Flat) (r : Resolved) :
    Except GErr (List (String × TaskAvail)) := do
  let mut res : List (String × TaskAvail) := []
  for c in (b.chainCtx builder).reverse do
    for (name, t) in c.tasks.getD [] do
      res := insertKeyed res name (← taskAvail ev flat r t)
    for m in r.modules do
      for (name, t) in m.tasks do
        res := insertKeyed res name (← taskAvail ev flat r t)
  return res

/-! ### `configure_build` -/

inductive NoBuild where
  | blocked | notAncestor | unresolved | depCycle
  deriving Repr, DecidableEq

structure BuildInfo where
  builder : Name
  app : Name
  out : String
  modules : List Name                       -- selection order (incl. context modules)
  globalFlat : Flat
  moduleFlat : List (Name × Flat)
  tasks : List (String × TaskAvail)
  entries : List String                     -- ninja rule/build blocks, insertion-ordered set
  deriving Repr

inductive Outcome where
  | noBuild (r : NoBuild)
  | build (i : BuildInfo)
  deriving Repr

def addEntry (es : List String) (e : String) : List String := if es.contains e then es else es ++ [e]
def addEntries (es : List String) (l : List String) : List String := l.foldl addEntry es

abbrev FileTable := List (Name × List String)   -- `module_build_dep_files`: IndexMap name ↦ IndexSet path
def FileTable.get? (t : FileTable) (n : Name) : Option (List String) := (t.find? (·.1 == n)).map (·.2)
def FileTable.extend (t : FileTable) (n : Name) (l : List String) : FileTable :=
  if t.any (·.1 == n) then t.map (fun e => if e.1 == n then (n, dedup (e.2 ++ l)) else e) else t ++ [(n, dedup l)]

/-- `IndexMap<&Utf8PathBuf, Utf8PathBuf>::get_containing_path` -/
def containingPath (dirs : List (String × String)) (p : String) : Option String :=
  match dirs.find? (·.1 == p) with
  | some e => some e.2
  | none => (dirs.find? (fun e => pathStartsWith p e.1)).map (·.2)

structure LoopState where
  entries : List String := []
  objects : List String := []
  files : FileTable := []
  downloadDirs : List (String × String) := []

/-- the body of `for (module, module_env, module_build_deps) in modules_in_build_order` -/
def moduleStep (ev : EvalExpr) (st : Settings) (builder : Name) (app : Module) (r : Resolved)
    (rules : List (String × Rule)) (opts : Option VarOpts) (globals : List Name)
    (m : Module) (menv : Env) (bdeps : Option (List Name)) (ls : LoopState) :
    Except GErr (LoopState × Option (Name × Flat)) := do
  match m.srcdir with
  | none => return (ls, none)                          -- a context module
  | some srcdir =>
  let flat ← match menv.flattenWithOptsOption opts with
    | .ok f => pure f
    | .error _ => throw (.error "module env: var_options")
  let mut ls := ls
  -- downloads
  let mut srcTagfile : Option String := none
  match m.download with
  | some d =>
    ls := { ls with entries := addEntries ls.entries (← downloadEntries ev m d rules flat) }
    ls := { ls with downloadDirs := insertKeyed ls.downloadDirs srcdir (d.tagfile srcdir) }
  | none =>
    let sd ← unwrapX "generate.rs:srcdir" (expandEvalS ev flat .ignore srcdir)
    srcTagfile := containingPath ls.downloadDirs sd
  -- optional sources whose guard is selected
  let optional := (m.sourcesOptional.getD []).flatMap (fun (k, v) => if r.has k then v else [])
  let sources := m.sources ++ optional
  -- build deps: global ones first (for non-global modules), then the imported ones
  let haveGlobal := !globals.isEmpty
  let bdeps' : Option (List Name) :=
    if haveGlobal && !m.isGlobalBuildDep then some (dedup (globals ++ bdeps.getD [])) else bdeps
  let imported : Option (List String) ← match bdeps' with
    | none => pure none
    | some l =>
      let mut acc : List String := []
      for d in l do
        match ls.files.get? d with
        | some fs => acc := dedup (acc ++ fs)
        | none => throw (.panic "generate.rs:imported build deps: no files for build dep")
      pure (some acc)
  let localDeps := m.buildDepFiles
  match localDeps with
  | some l => ls := { ls with files := ls.files.extend m.name l }
  | none => pure ()
  let combined : Option (List String) :=
    if imported.isSome || localDeps.isSome then some (imported.getD [] ++ localDeps.getD []) else none
  let depsHash := combined.map (hashPaths "deps")
  match m.build with
  | some cb =>
    let cmd ← unwrapX "generate.rs:custom build cmd" (expandEvalS ev flat .empty (" && ".intercalate cb.cmd))
    let rule : NinjaRule := ({ name := "BUILD", command := cmd, description := some "BUILD ${out}", deps := cb.gccDeps } : NinjaRule).named
    let srcs ← sources.mapM (fun s => unwrapX "generate.rs:custom build source" (expandEvalS ev flat .empty (pathPush srcdir s)))
    let outs ← (cb.out.getD []).mapM (fun o => unwrapX "generate.rs:custom build out" (expandEvalS ev flat .empty o))
    let outsHash := hashPaths "outs" outs
    let alias := "outs_" ++ outsHash
    let bld := buildFromRule rule (some srcs) (pathSort outs) combined
    ls := { ls with files := ls.files.extend m.name [alias] }
    ls := { ls with entries := addEntries ls.entries [rule.render, bld.render, ninjaAliasMultiple outs alias] }
  | none =>
    -- per-extension rules, in order of first use (extension taken *before* substitution)
    let mut mrules : List (String × NinjaRule) := []
    for s in sources do
      match pathExtension s with
      | none => throw (.error "source file missing extension")
      | some ext =>
        match rulesGet rules ext with
        | none => throw (.error "no rule found")
        | some rule =>
          -- `entry(ext).or_insert({...})`: the argument is evaluated even when the entry exists
          let nr ← ruleToNinja ev rule flat
          ls := { ls with entries := addEntry ls.entries nr.render }
          if !(mrules.any (·.1 == ext)) then mrules := mrules ++ [(ext, nr)]
    for s in sources do
      let srcpath ← unwrapX "generate.rs:srcpath" (expandEvalS ev flat .empty (pathPush srcdir s))
      match pathExtension srcpath with
      | none => throw (.panic "generate.rs:srcpath extension")
      | some ext =>
        match rulesGet rules ext, (mrules.find? (·.1 == ext)).map (·.2) with
        | some rule, some nr =>
          match rule.out with
          | none => throw (.panic "generate.rs:rule.out")
          | some out =>
            let outExt := if rule.shareable then hashXor nr.hash depsHash ++ "." ++ out else out
            let objdir := pathPush st.buildDir "objects"
            let objdir := if rule.shareable then objdir else pathPush (pathPush objdir builder) app.name
            let object := pathPush objdir (pathWithExtension srcpath outExt)
            let bld := buildFromRule nr (some [srcpath]) [object] combined
            ls := { ls with entries := addEntry ls.entries bld.render, objects := ls.objects ++ [object] }
            match localDeps with
            | some l =>
              let ph : NinjaBuild := { rule := "phony", outs := [srcpath], deps := some (pathSort l) }
              ls := { ls with entries := addEntry ls.entries ph.render }
            | none =>
              match srcTagfile with
              | some tag => ls := { ls with entries := addEntry ls.entries (ninjaAlias tag srcpath) }
              | none => pure ()
        | _, _ => throw (.panic "generate.rs:rule lookup after expansion")
  return (ls, some (m.name, flat))

def configureBuild (ev : EvalExpr) (st : Settings) (b : Bag) (builder : Name) (app : Module) (cli : Cli) :
    Except GErr Outcome := do
  if !(b.tree.isAllowed builder app.blocklist app.allowlist).ok then return .noBuild .blocked
  if !(b.chain builder).contains app.contextName then return .noBuild .notAncestor
  let app' := appClone app builder cli
  match resolveTop b builder app cli with
  | .error _ => return .noBuild .unresolved
  | .ok rs =>
  let r := resolvedOf b builder app' rs
  let rules := b.collectRules builder
  let opts := (b.ctx? builder).bind (·.varOptions)
  let genv := globalEnv st b builder app r cli
  let gflat ← match genv.flattenWithOptsOption opts with
    | .ok f => pure f
    | .error _ => throw (.error "global env: var_options")
  let outfile ← unwrapX "generate.rs:outfile" (expandS gflat .empty "${outfile}")
  let globals := (r.modules.filter (·.isGlobalBuildDep)).map (·.name)
  let mut menvs : List (Module × Env × Option (List Name)) := []
  for m in r.modules do
    let (e, bd) ← buildEnv r m genv
    menvs := menvs ++ [(m, e, bd)]
  match buildOrder (menvs.map (fun (m, _, bd) => (m, bd))) with
  | none => return .noBuild .depCycle
  | some order =>
  let mut ls : LoopState := {}
  let mut mflats : List (Name × Flat) := []
  for n in order do
    match menvs.find? (·.1.name == n) with
    | none => throw (.panic "generate.rs:modules.get(dep_name)")
    | some (m, e, bd) =>
      let (ls', mf) ← moduleStep ev st builder app r rules opts globals m e bd ls
      ls := ls'
      match mf with | some x => mflats := mflats ++ [x] | none => pure ()
  -- global build dep files for the link step
  let gfiles := dedup (globals.flatMap (fun g => (ls.files.get? g).getD []))
  let gdeps : Option (List String) := if gfiles.isEmpty then none else some gfiles
  let linkRule ← match rulesByName rules "LINK" with
    | none => throw (.error "missing LINK rule")
    | some lr => ruleToNinja ev lr gflat
  let link := buildFromRule linkRule (some ls.objects) [outfile] gdeps
  let mut entries := addEntries ls.entries [linkRule.render, link.render]
  let mut out := outfile
  match rulesByName rules "POST_LINK" with
  | none => pure ()
  | some pr =>
    match pr.out with
    | none => throw (.error "POST_LINK rule has no out")
    | some ext =>
      let newOut := pathWithExtension outfile ext
      let pl ← ruleToNinja ev pr gflat
      let plb := buildFromRule pl (some [outfile]) [newOut] none
      entries := addEntries entries [pl.render, plb.render]
      out := newOut
  let tflat := gflat.insert "out" out
  let tasks ← collectTasks ev b builder tflat r
  return .build { builder := builder, app := app.name, out := out, modules := r.modules.map (·.name),
                  globalFlat := gflat, moduleFlat := mflats, tasks := tasks, entries := entries }

end Laze
