import LazeModel.Model.Build
/-! `src/generate.rs` `configure_build`, `src/build.rs` `Build::new`, `src/download.rs`,
    `Context::collect_tasks`: everything that turns (bag, builder, app, CLI) into ninja statements. -/
namespace Laze

/-! ### environment assembly -/

structure Settings where
  buildDir : String := "build"
  projectRoot : String := ""
  lazeBin : String := ""
  deriving Repr

def lazeEnv (st : Settings) : Env :=
  [("in", .single "\\${in}"), ("out", .single "\\${out}"), ("build-dir", .single st.buildDir),
   ("outfile", .single "${bindir}/${app}.elf"), ("project-root", .single st.projectRoot),
   ("root", .single "."), ("LAZE_BIN", .single st.lazeBin)]

/-- `relroot(relpath)` -/
def relroot (relpath : String) : String :=
  let comps := (pathComponents relpath).filter (fun c => c ≠ "." && c ≠ "")
  if comps.length == 0 then "${root}" else "/".intercalate (comps.map (fun _ => ".."))

def globalEnv (st : Settings) (b : Bag) (builder : Name) (app : Module) (r : Resolved) (cli : Cli) : Env :=
  let benv := ((((b.ctx? builder).bind (·.env)).getD []).insert "builder" (.single builder)).insert "app" (.single app.name)
  let g := (lazeEnv st).merge benv
  let g := r.modules.reverse.foldl (fun g m => g.merge m.envGlobal) g
  let g := g.insert "relpath" (.single app.relpath)
  let g := g.insert "relroot" (.single (relroot app.relpath))
  let g := g.insert "modules" (.list ((r.modules.filter (!·.isContextModule)).map (·.name)))
  let g := g.insert "contexts" (.list (b.chain builder))
  match cli.env with
  | some e => g.merge e
  | none => g

/-! ### `Rule::to_ninja` -/

def xerrKind : XErr → String
  | .missing _ => "missing" | .unclosed _ => "unclosed" | .cycle _ => "cycle" | .expr => "expr"
  | .panic => "panic" | .fuel => "fuel" | .need _ => "need"

def liftX {α} (site : String) (x : Except XErr α) : Except GErr α :=
  match x with
  | .ok v => .ok v
  | .error (.need e) => .error (.error ("need:" ++ ofB e))
  | .error e => .error (.error (site ++ ":" ++ xerrKind e))

/-- an `.unwrap()` on an expansion result: an error there is a panic -/
def unwrapX {α} (site : String) (x : Except XErr α) : Except GErr α :=
  match x with
  | .ok v => .ok v
  | .error (.need e) => .error (.error ("need:" ++ ofB e))
  | .error e => .error (.error (site ++ ":" ++ xerrKind e))   -- reported with `?` (these sites used to `.unwrap()`)

/-- `VarExportSpec::apply_env` -/
def applyExport (ev : EvalExpr) (flat : Flat) (e : VarExport) : Except GErr VarExport := do
  let content := match e.content with | some c => c | none => "${" ++ e.var ++ "}"
  let c ← unwrapX "shared.rs:apply_env" (expandEvalS ev flat .empty content)
  return { var := e.var, content := some c }

/-- `apply_env` on an optional export list -/
def applyExports (ev : EvalExpr) (flat : Flat) : Option (List VarExport) → Except GErr (Option (List VarExport))
  | some l => (l.mapM (applyExport ev flat)).map some
  | none => .ok none

/-- the `VAR="value" && ` prefix one export contributes to a rule's command -/
def exportPrefix (e : VarExport) : String :=
  match e.content with
  | some v => e.var ++ "=\"" ++ v ++ "\" && "
  | none => ""

def exportsPrefix (exports : Option (List VarExport)) : String := String.join ((exports.getD []).map exportPrefix)

/-- the optional gcc depfile of a rule, expanded -/
def ruleDeps (ev : EvalExpr) (flat : Flat) : Option String → Except GErr (Option String)
  | some d => (liftX "rule-deps" (expandEvalS ev flat .ignore d)).map some
  | none => .ok none

/-- the rule as `NinjaRuleBuilder` + `expand` leave it, before `single_line` and `named` -/
def rawNinjaRule (rule : Rule) (pre cmd : String) (deps : Option String) : NinjaRule :=
  { name := rule.name, command := pre ++ cmd, description := some (rule.description.getD rule.name),
    deps := deps, rspfile := rule.rspfile, rspfileContent := rule.rspfileContent,
    pool := rule.pool, always := rule.always }

def mkNinjaRule (rule : Rule) (pre cmd : String) (deps : Option String) : NinjaRule :=
  (rawNinjaRule rule pre cmd deps).named

/-- `single_line()` then `named()`; a line break inside a printed value is an error -/
def finishRule (r : NinjaRule) : Except GErr NinjaRule :=
  match r.singleLine with
  | some r' => .ok r'.named
  | none => .error (.error "ninja/mod.rs:rule value contains a line break")

def ruleToNinja (ev : EvalExpr) (rule : Rule) (flat : Flat) : Except GErr NinjaRule := do
  let exports ← applyExports ev flat rule.export
  let cmd ← liftX "rule-cmd" (expandEvalS ev flat .ignore rule.cmd)
  let deps ← ruleDeps ev flat rule.gccDeps
  finishRule (rawNinjaRule rule (exportsPrefix exports) cmd deps)

/-! ### build-order graph (`solvent::DepGraph`, deterministic feature) -/

structure DepGraph where
  edges : List (Name × List Name) := []   -- node ↦ dependencies, both in insertion order

def DepGraph.add (g : DepGraph) (n d : Name) : DepGraph :=
  { edges := if g.edges.any (·.1 == n) then g.edges.map (fun e => if e.1 == n then (n, if e.2.contains d then e.2 else e.2 ++ [d]) else e)
             else g.edges ++ [(n, [d])] }

def DepGraph.deps (g : DepGraph) (n : Name) : Option (List Name) := (g.edges.find? (·.1 == n)).map (·.2)

/-- `get_next_dependency`: descend to the first unsatisfied dependency; `none` = cycle -/
def nextDependency (g : DepGraph) (satisfied : List Name) : Nat → List Name → Name → Option Name
  | 0, _, _ => none
  | fuel+1, curpath, pos =>
    if curpath.contains pos then none else
    match g.deps pos with
    | none => some pos
    | some deplist =>
      match deplist.find? (fun n => !satisfied.contains n) with
      | some n => nextDependency g satisfied fuel (curpath ++ [pos]) n
      | none => some pos

/-- the iterator of `dependencies_of(target)`: nodes in emission order, `none` on a cycle -/
def dependenciesOf (g : DepGraph) (target : Name) (size : Nat) : Nat → List Name → Option (List Name)
  | 0, _ => none
  | fuel+1, satisfied =>
    if satisfied.contains target then some satisfied else
    match nextDependency g satisfied (size + 2) [] target with
    | none => none
    | some n => dependenciesOf g target size fuel (satisfied ++ [n])

def rootNode : Name := ""
def globalNode : Name := "_global_build_deps"

/-- `_global_build_deps → d` for every global build dep -/
def graphAddGlobal (g : DepGraph) (d : Name) : DepGraph := g.add globalNode d

/-- `module → d` for every build dep of the module, then `root → module` -/
def graphAddModuleEdges (g : DepGraph) (mb : Module × Option (List Name)) : DepGraph :=
  ((mb.2.getD []).foldl (fun g d => g.add mb.1.name d) g).add rootNode mb.1.name

/-- the edges of one module; every non-global module depends on `_global_build_deps` -/
def graphAddModule (g : DepGraph) (mb : Module × Option (List Name)) : DepGraph :=
  if !mb.1.isGlobalBuildDep then (graphAddModuleEdges g mb).add mb.1.name globalNode else graphAddModuleEdges g mb

def buildGraph (mods : List (Module × Option (List Name))) : DepGraph :=
  mods.foldl graphAddModule (((mods.filter (·.1.isGlobalBuildDep)).map (·.1.name)).foldl graphAddGlobal {})

def isRealNode (n : Name) : Bool := n != rootNode && n != globalNode

/-- modules in build order, or `none` when there is a build-dependency cycle -/
def buildOrder (mods : List (Module × Option (List Name))) : Option (List Name) :=
  (dependenciesOf (buildGraph mods) rootNode (mods.length + 3) (mods.length + 3 + 1) []).map
    (fun order => order.filter isRealNode)

/-! ### download statements (`download.rs`) -/

def Download.tagfileDownload (srcdir : String) : String := pathPush srcdir ".laze-downloaded"
def Download.tagfilePatched (srcdir : String) : String := pathPush srcdir ".laze-patched"
def Download.tagfile (d : Download) (srcdir : String) : String :=
  if d.patches.isSome then Download.tagfilePatched srcdir else Download.tagfileDownload srcdir

/-- `Download::srcdir` -/
def Download.srcdir (d : Download) (buildDir : String) (relpath name : String) : String :=
  let s := pathPush buildDir "dl"
  match d.dldir with
  | some dl => pathPush s dl
  | none => pathPush (pathPush s relpath) name

/-- the ninja variables of a git download -/
def downloadVars (d : Download) (commit : String) : List (String × String) := [("commit", commit), ("url", d.url)]

def downloadBuild (nr : NinjaRule) (srcdir : String) (vars : List (String × String)) : NinjaBuild :=
  { rule := nr.name, outs := [Download.tagfileDownload srcdir], env := some vars }

def patchBuild (npr : NinjaRule) (m : Module) (srcdir : String) (patches : List String)
    (vars : List (String × String)) : NinjaBuild :=
  { rule := npr.name, inputs := some (patches.map (pathPush m.relpath ·)),
    outs := [Download.tagfilePatched srcdir],
    deps := some (pathSort [Download.tagfileDownload srcdir]), env := some vars }

/-- `.unwrap()` on the patch rule's `to_ninja`: a reported error becomes a panic -/
def remapPatchErr : GErr → GErr
  | .error k => if k.startsWith "need:" then .error k else .error ("download.rs:patch to_ninja:" ++ k)
  | e => e

def patchRuleToNinja (ev : EvalExpr) (pr : Rule) (flat : Flat) : Except GErr NinjaRule :=
  match ruleToNinja ev pr flat with
  | .ok r => .ok r
  | .error e => .error (remapPatchErr e)

/-- the GIT_PATCH rule and the patch build statement -/
def patchEntries (ev : EvalExpr) (m : Module) (rules : List (String × Rule)) (flat : Flat)
    (srcdir : String) (vars : List (String × String)) (patches : List String) : Except GErr (List String) :=
  match rulesByName rules "GIT_PATCH" with
  | none => .error (.error "download.rs:missing GIT_PATCH rule")
  | some pr =>
    match patchRuleToNinja ev pr flat with
    | .error e => .error e
    | .ok npr => .ok [npr.render, (patchBuild npr m srcdir patches vars).render]

/-- the optional patch statements after the download statements -/
def withPatchEntries (ev : EvalExpr) (m : Module) (rules : List (String × Rule)) (flat : Flat)
    (srcdir : String) (vars : List (String × String)) (base : List String) :
    Option (List String) → Except GErr (List String)
  | none => .ok base
  | some patches =>
    match patchEntries ev m rules flat srcdir vars patches with
    | .error e => .error e
    | .ok pe => .ok (base ++ pe)

/-- statements of a git download with a commit -/
def gitDownloadEntries (ev : EvalExpr) (m : Module) (d : Download) (rules : List (String × Rule)) (flat : Flat)
    (commit : String) : Except GErr (List String) :=
  match rulesByName rules "GIT_DOWNLOAD" with
  | none => .error (.error "download.rs:missing GIT_DOWNLOAD rule")
  | some dr =>
    match ruleToNinja ev dr flat with
    | .error e => .error e
    | .ok nr =>
      withPatchEntries ev m rules flat (m.srcdir.getD "") (downloadVars d commit)
        [nr.render, (downloadBuild nr (m.srcdir.getD "") (downloadVars d commit)).render] d.patches

def downloadEntries (ev : EvalExpr) (m : Module) (d : Download) (rules : List (String × Rule)) (flat : Flat) :
    Except GErr (List String) :=
  match d.commit with
  | none => .error (.error "unsupported download type")
  | some commit => gitDownloadEntries ev m d rules flat commit

/-! ### tasks (`Context::collect_tasks`, `Task::with_env_eval`) -/

inductive TaskAvail where
  | ok (t : Task)
  | missingVar (v : String)
  | missingModule (m : String)
  deriving Repr

def taskCmd (ev : EvalExpr) (flat : Flat) (c : String) : Except GErr String :=
  liftX "task-cmd" (expandEvalS ev flat .empty c)

def taskWorkdir (ev : EvalExpr) (flat : Flat) : Option String → Except GErr (Option String)
  | some w => (liftX "task-workdir" (expandEvalS ev flat .empty w)).map some
  | none => .ok none

def taskWithEnvEval (ev : EvalExpr) (flat : Flat) (t : Task) : Except GErr Task := do
  let cmd ← t.cmd.mapM (taskCmd ev flat)
  let exp ← applyExports ev flat t.export
  let wd ← taskWorkdir ev flat t.workdir
  return { t with cmd := cmd, «export» := exp, workdir := wd }

def taskAvail (ev : EvalExpr) (flat : Flat) (r : Resolved) (t : Task) : Except GErr TaskAvail :=
  match (t.requiredVars.getD []).find? (fun v => !(flat.any (·.1 == v))) with
  | some v => .ok (.missingVar v)
  | none =>
    match (t.requiredModules.getD []).find? (fun m => !r.has m) with
    | some m => .ok (.missingModule m)
    | none => (taskWithEnvEval ev flat t).map TaskAvail.ok

/-- `IndexMap::insert` of every task of a list, evaluated in order (a later definition replaces,
    position kept) -/
def insertTasks (ev : EvalExpr) (flat : Flat) (r : Resolved) :
    List (String × Task) → List (String × TaskAvail) → Except GErr (List (String × TaskAvail))
  | [], res => .ok res
  | (name, t) :: ts, res =>
    match taskAvail ev flat r t with
    | .error e => .error e
    | .ok a => insertTasks ev flat r ts (insertKeyed res name a)

/-- the tasks of every selected module, in selection order -/
def moduleTasks (r : Resolved) : List (String × Task) := r.modules.flatMap (·.tasks)

/-- what one context contributes: its own tasks, then every selected module's tasks -/
def contextTaskList (r : Resolved) (c : Context) : List (String × Task) := c.tasks.getD [] ++ moduleTasks r

def contextTasksStep (ev : EvalExpr) (flat : Flat) (r : Resolved) (c : Context)
    (res : List (String × TaskAvail)) : Except GErr (List (String × TaskAvail)) :=
  insertTasks ev flat r (contextTaskList r c) res

def contextsTasksLoop (ev : EvalExpr) (flat : Flat) (r : Resolved) :
    List Context → List (String × TaskAvail) → Except GErr (List (String × TaskAvail))
  | [], res => .ok res
  | c :: cs, res =>
    match contextTasksStep ev flat r c res with
    | .error e => .error e
    | .ok res' => contextsTasksLoop ev flat r cs res'

/-- the final task table: contexts root → builder, then (after each context) every selected
    module's tasks; `IndexMap::insert` semantics (a later definition replaces, position kept) -/
def collectTasks (ev : EvalExpr) (b : Bag) (builder : Name) (flat : Flat) (r : Resolved) :
    Except GErr (List (String × TaskAvail)) :=
  contextsTasksLoop ev flat r (b.chainCtx builder).reverse []

/-! ### `configure_build` -/

inductive NoBuild where
  | blocked | notAncestor | unresolved | depCycle
  deriving Repr, DecidableEq

structure BuildInfo where
  builder : Name
  app : Name
  out : String
  modules : List Name                       -- selection order (incl. context modules)
  globalFlat : Flat
  moduleFlat : List (Name × Flat)
  tasks : List (String × TaskAvail)
  entries : List String                     -- ninja rule/build blocks, insertion-ordered set
  deriving Repr

inductive Outcome where
  | noBuild (r : NoBuild)
  | build (i : BuildInfo)
  deriving Repr

def addEntry (es : List String) (e : String) : List String := if es.contains e then es else es ++ [e]
def addEntries (es : List String) (l : List String) : List String := l.foldl addEntry es

abbrev FileTable := List (Name × List String)   -- `module_build_dep_files`: IndexMap name ↦ IndexSet path
def FileTable.get? (t : FileTable) (n : Name) : Option (List String) := (t.find? (·.1 == n)).map (·.2)
def FileTable.extend (t : FileTable) (n : Name) (l : List String) : FileTable :=
  if t.any (·.1 == n) then t.map (fun e => if e.1 == n then (n, dedup (e.2 ++ l)) else e) else t ++ [(n, dedup l)]

/-- `IndexMap<&Utf8PathBuf, Utf8PathBuf>::get_containing_path` -/
def containingPath (dirs : List (String × String)) (p : String) : Option String :=
  match dirs.find? (·.1 == p) with
  | some e => some e.2
  | none => (dirs.find? (fun e => pathStartsWith p e.1)).map (·.2)

structure LoopState where
  entries : List String := []
  objects : List String := []
  files : FileTable := []
  downloadDirs : List (String × String) := []

/-! #### per-module inputs -/

/-- the sources an optional-sources entry contributes: all of them when its guard is selected -/
def optionalSourcesOf (r : Resolved) (kv : Name × List String) : List String := if r.has kv.1 then kv.2 else []

/-- the module's sources followed by the optional sources whose guard is selected (map order) -/
def effSources (r : Resolved) (m : Module) : List String :=
  m.sources ++ (m.sourcesOptional.getD []).flatMap (optionalSourcesOf r)

/-- build deps: global ones first (for non-global modules), then the imported ones -/
def effBuildDeps (globals : List Name) (m : Module) (bdeps : Option (List Name)) : Option (List Name) :=
  if !globals.isEmpty && !m.isGlobalBuildDep then some (dedup (globals ++ bdeps.getD [])) else bdeps

/-- the files exported by the given build deps (insertion-ordered set); a dep without an entry in
    the table is a panic -/
def importedDepFiles (files : FileTable) : List Name → List String → Except GErr (List String)
  | [], acc => .ok acc
  | d :: ds, acc =>
    match files.get? d with
    | some fs => importedDepFiles files ds (dedup (acc ++ fs))
    | none => importedDepFiles files ds acc      -- a build dep that exports no files: nothing to wait for

def importedOf (files : FileTable) : Option (List Name) → Except GErr (Option (List String))
  | none => .ok none
  | some l => (importedDepFiles files l []).map some

/-- imported build-dep files followed by the module's own; `none` when there are none (an empty list is no list) -/
def combinedDeps (imported localDeps : Option (List String)) : Option (List String) :=
  if (imported.getD [] ++ localDeps.getD []).isEmpty then none else some (imported.getD [] ++ localDeps.getD [])

/-- the hash of the build-dep files, taken over the list in the order the build statements print it (sorted):
    the same order-only dependencies give the same hash whatever order the exporting modules were resolved in -/
def depsHashOf (combined : Option (List String)) : Option String := combined.map (fun l => hashPaths "deps" (pathSort l))

/-- a module's own build-dep files are registered under its name -/
def registerLocalDeps (m : Module) (ls : LoopState) : LoopState :=
  match m.buildDepFiles with
  | some l => { ls with files := ls.files.extend m.name l }
  | none => ls

def moduleFlat (opts : Option VarOpts) (menv : Env) : Except GErr Flat :=
  match menv.flattenWithOptsOption opts with
  | .ok f => .ok f
  | .error _ => .error (.error "module env: var_options")

/-! #### downloads -/

/-- a downloading module emits its download statements and registers its source directory; any other
    module finds out whether its (expanded) source directory lies inside a downloaded one.
    Result: the new state and the tag file the module's sources depend on -/
def downloadStep (ev : EvalExpr) (m : Module) (srcdir : String) (rules : List (String × Rule)) (flat : Flat)
    (ls : LoopState) : Except GErr (LoopState × Option String) :=
  match m.download with
  | some d =>
    match downloadEntries ev m d rules flat with
    | .error e => .error e
    | .ok es =>
      .ok ({ ls with entries := addEntries ls.entries es,
                     downloadDirs := insertKeyed ls.downloadDirs srcdir (d.tagfile srcdir) }, none)
  | none =>
    match unwrapX "generate.rs:srcdir" (expandEvalS ev flat .ignore srcdir) with
    | .error e => .error e
    | .ok sd => .ok (ls, containingPath ls.downloadDirs sd)

/-! #### custom build -/

def customSource (ev : EvalExpr) (flat : Flat) (srcdir : String) (s : String) : Except GErr String :=
  unwrapX "generate.rs:custom build source" (expandEvalS ev flat .empty (pathPush srcdir s))

def customOut (ev : EvalExpr) (flat : Flat) (o : String) : Except GErr String :=
  unwrapX "generate.rs:custom build out" (expandEvalS ev flat .empty o)

def customRule (cb : CustomBuild) (cmd : String) : NinjaRule :=
  ({ name := "BUILD", command := cmd, description := some "BUILD ${out}", deps := cb.gccDeps } : NinjaRule).named

/-- `single_line()` on the rule of a custom build: its description is fixed, so the command (a line break at its end is dropped) and
    the depfile decide -/
def customCmd (cb : CustomBuild) (cmd0 : String) : Except GErr String :=
  if hasLineBreak (trimLineEnd cmd0) || optHasLineBreak cb.gccDeps then .error (.error "ninja/mod.rs:rule value contains a line break")
  else .ok (trimLineEnd cmd0)

def outsAlias (outs : List String) : String := "outs_" ++ hashPaths "outs" outs

/-- the statements of a custom build: rule, build, alias for the outputs -/
def customStmts (cb : CustomBuild) (cmd : String) (srcs outs : List String) (combined : Option (List String)) :
    List String :=
  [(customRule cb cmd).render,
   (buildFromRule (customRule cb cmd) (some srcs) (pathSort outs) combined).render,
   ninjaAliasMultiple outs (outsAlias outs)]

/-- a module with a `build:` section (after the "has an output" test) -/
def customBuildStepCore (ev : EvalExpr) (flat : Flat) (m : Module) (srcdir : String) (sources : List String)
    (combined : Option (List String)) (cb : CustomBuild) (ls : LoopState) : Except GErr LoopState := do
  let cmd0 ← unwrapX "generate.rs:custom build cmd" (expandEvalS ev flat .empty (" && ".intercalate (cb.cmd.map trimLineEnd)))
  let cmd ← customCmd cb cmd0
  let srcs ← sources.mapM (customSource ev flat srcdir)
  let outs ← (cb.out.getD []).mapM (customOut ev flat)
  return { ls with files := ls.files.extend m.name [outsAlias outs],
                   entries := addEntries ls.entries (customStmts cb cmd srcs outs combined) }

/-- a module with a `build:` section: a custom build without `out` (absent or empty) is rejected before anything is expanded — a build
    statement must name an output (the pre-fix code wrote `build: BUILD_<h>`, which ninja refuses; found by C06's oracle) -/
def customBuildStep (ev : EvalExpr) (flat : Flat) (m : Module) (srcdir : String) (sources : List String)
    (combined : Option (List String)) (cb : CustomBuild) (ls : LoopState) : Except GErr LoopState :=
  if (cb.out.getD []).isEmpty then .error (.error "generate.rs:custom build has no out")
  else customBuildStepCore ev flat m srcdir sources combined cb ls

/-! #### default build: per-extension rules, then one compile statement per source -/

/-- the rule for a source, by its extension (taken *before* substitution), converted for this module -/
def ruleForSource (ev : EvalExpr) (rules : List (String × Rule)) (flat : Flat) (s : String) :
    Except GErr (String × NinjaRule) :=
  match pathExtension s with
  | none => .error (.error "source file missing extension")
  | some ext =>
    match rulesGet rules ext with
    | none => .error (.error "no rule found")
    | some rule =>
      match ruleToNinja ev rule flat with
      | .error e => .error e
      | .ok nr => .ok (ext, nr)

/-- `entry(ext).or_insert(nr)` -/
def addModuleRule (mrules : List (String × NinjaRule)) (ext : String) (nr : NinjaRule) : List (String × NinjaRule) :=
  if mrules.any (·.1 == ext) then mrules else mrules ++ [(ext, nr)]

/-- first loop over the sources: `to_ninja` is evaluated and the rule rendered for EVERY source
    (`entry(ext).or_insert({...})` evaluates its argument), the table keeps the first per extension -/
def moduleRulesLoop (ev : EvalExpr) (rules : List (String × Rule)) (flat : Flat) :
    List String → List String → List (String × NinjaRule) → Except GErr (List String × List (String × NinjaRule))
  | [], entries, mrules => .ok (entries, mrules)
  | s :: ss, entries, mrules =>
    match ruleForSource ev rules flat s with
    | .error e => .error e
    | .ok en => moduleRulesLoop ev rules flat ss (addEntry entries en.2.render) (addModuleRule mrules en.1 en.2)

def objectExt (rule : Rule) (nr : NinjaRule) (depsHash : Option String) (out : String) : String :=
  if rule.shareable then hashXor nr.hash depsHash ++ "." ++ out else out

def objectDir (st : Settings) (builder appName : Name) (rule : Rule) : String :=
  if rule.shareable then pathPush st.buildDir "objects"
  else pathPush (pathPush (pathPush st.buildDir "objects") builder) appName

/-- where the object of `srcpath` goes: shareable rules share objects between apps and builders (the
    name then carries the rule and build-deps hash) -/
def objectPath (st : Settings) (builder : Name) (appName : Name) (rule : Rule) (nr : NinjaRule)
    (depsHash : Option String) (out : String) (srcpath : String) : String :=
  pathPush (objectDir st builder appName rule) (pathWithExtension srcpath (objectExt rule nr depsHash out))

/-- the extra statement of a source: a phony statement making it depend on the module's own build-dep
    files, or else an alias to the tag file of the download it lives in -/
def sourceDepStmts (localDeps : Option (List String)) (srcTagfile : Option String) (srcpath : String) : List String :=
  match localDeps with
  | some l => [({ rule := "phony", outs := [srcpath], deps := some (pathSort l) } : NinjaBuild).render]
  | none =>
    match srcTagfile with
    | some tag => [ninjaAlias tag srcpath]
    | none => []

/-- the rule of an (expanded) source path: the global rule table and the module's converted rules -/
def lookupCompileRule (rules : List (String × Rule)) (mrules : List (String × NinjaRule)) (ext : String) :
    Option (Rule × NinjaRule) :=
  match rulesGet rules ext with
  | none => none
  | some rule =>
    match (mrules.find? (·.1 == ext)).map (·.2) with
    | none => none
    | some nr => some (rule, nr)

def expandSrcPath (ev : EvalExpr) (flat : Flat) (srcdir : String) (s : String) : Except GErr String :=
  unwrapX "generate.rs:srcpath" (expandEvalS ev flat .empty (pathPush srcdir s))

/-- the result for one source, its object path known: the compile statement, then the extra statement -/
def compileOut (nr : NinjaRule) (combined : Option (List String)) (localDeps : Option (List String))
    (srcTagfile : Option String) (srcpath object : String) : String × List String :=
  (object, (buildFromRule nr (some [srcpath]) [object] combined).render :: sourceDepStmts localDeps srcTagfile srcpath)

/-- (object, statements) of an expanded source path -/
def compileStmts (st : Settings) (builder appName : Name) (rules : List (String × Rule))
    (mrules : List (String × NinjaRule)) (combined : Option (List String)) (localDeps : Option (List String))
    (srcTagfile : Option String) (srcpath : String) : Except GErr (String × List String) :=
  match pathExtension srcpath with
  | none => .error (.error "generate.rs:no rule for expanded source")
  | some ext =>
    match lookupCompileRule rules mrules ext with
    | none => .error (.error "generate.rs:no rule for expanded source")
    | some rn =>
      match rn.1.out with
      | none => .error (.error "generate.rs:rule has no out")
      | some out =>
        .ok (compileOut rn.2 combined localDeps srcTagfile srcpath
              (objectPath st builder appName rn.1 rn.2 (depsHashOf combined) out srcpath))

/-- one source: its object and the statements it contributes (the compile statement, then the phony
    statement for local build deps or the tag-file alias) -/
def compileSource (ev : EvalExpr) (st : Settings) (builder appName : Name) (rules : List (String × Rule))
    (mrules : List (String × NinjaRule)) (flat : Flat) (srcdir : String) (combined : Option (List String))
    (localDeps : Option (List String)) (srcTagfile : Option String) (s : String) :
    Except GErr (String × List String) :=
  match expandSrcPath ev flat srcdir s with
  | .error e => .error e
  | .ok srcpath => compileStmts st builder appName rules mrules combined localDeps srcTagfile srcpath

/-- second loop over the sources: (entries, objects) -/
def compileSourcesLoop (ev : EvalExpr) (st : Settings) (builder appName : Name) (rules : List (String × Rule))
    (mrules : List (String × NinjaRule)) (flat : Flat) (srcdir : String) (combined : Option (List String))
    (localDeps : Option (List String)) (srcTagfile : Option String) :
    List String → List String → List String → Except GErr (List String × List String)
  | [], entries, objects => .ok (entries, objects)
  | s :: ss, entries, objects =>
    match compileSource ev st builder appName rules mrules flat srcdir combined localDeps srcTagfile s with
    | .error e => .error e
    | .ok os =>
      compileSourcesLoop ev st builder appName rules mrules flat srcdir combined localDeps srcTagfile ss
        (addEntries entries os.2) (objects ++ [os.1])

/-- a module without a `build:` section -/
def defaultBuildStep (ev : EvalExpr) (st : Settings) (builder appName : Name) (rules : List (String × Rule))
    (flat : Flat) (srcdir : String) (sources : List String) (combined : Option (List String))
    (localDeps : Option (List String)) (srcTagfile : Option String) (ls : LoopState) : Except GErr LoopState :=
  match moduleRulesLoop ev rules flat sources ls.entries [] with
  | .error e => .error e
  | .ok em =>
    match compileSourcesLoop ev st builder appName rules em.2 flat srcdir combined localDeps srcTagfile
            sources em.1 ls.objects with
    | .error e => .error e
    | .ok eo => .ok { ls with entries := eo.1, objects := eo.2 }

def buildStep (ev : EvalExpr) (st : Settings) (builder appName : Name) (rules : List (String × Rule))
    (flat : Flat) (m : Module) (srcdir : String) (sources : List String) (combined : Option (List String))
    (srcTagfile : Option String) (ls : LoopState) : Except GErr LoopState :=
  match m.build with
  | some cb => customBuildStep ev flat m srcdir sources combined cb ls
  | none => defaultBuildStep ev st builder appName rules flat srcdir sources combined m.buildDepFiles srcTagfile ls

/-! #### the module loop -/

/-- a module with a source directory, its flattened env known: downloads, build deps, statements -/
def moduleStmts (ev : EvalExpr) (st : Settings) (builder : Name) (app : Module) (r : Resolved)
    (rules : List (String × Rule)) (globals : List Name) (m : Module) (bdeps : Option (List Name))
    (srcdir : String) (flat : Flat) (ls : LoopState) : Except GErr LoopState :=
  match downloadStep ev m srcdir rules flat ls with
  | .error e => .error e
  | .ok lt =>
    -- the imported files are looked up BEFORE the module's own files are registered
    match importedOf lt.1.files (effBuildDeps globals m bdeps) with
    | .error e => .error e
    | .ok imported =>
      buildStep ev st builder app.name rules flat m srcdir (effSources r m)
        (combinedDeps imported m.buildDepFiles) lt.2 (registerLocalDeps m lt.1)

/-- the body of `for (module, module_env, module_build_deps) in modules_in_build_order` -/
def moduleStep (ev : EvalExpr) (st : Settings) (builder : Name) (app : Module) (r : Resolved)
    (rules : List (String × Rule)) (opts : Option VarOpts) (globals : List Name)
    (m : Module) (menv : Env) (bdeps : Option (List Name)) (ls : LoopState) :
    Except GErr (LoopState × Option (Name × Flat)) :=
  match m.srcdir with
  | none => .ok (ls, none)                          -- a context module
  | some srcdir =>
    match moduleFlat opts menv with
    | .error e => .error e
    | .ok flat =>
      match moduleStmts ev st builder app r rules globals m bdeps srcdir flat ls with
      | .error e => .error e
      | .ok ls' => .ok (ls', some (m.name, flat))

abbrev ModEnv := Module × Env × Option (List Name)   -- module, its env, its build-dep modules

def ModEnv.deps (me : ModEnv) : Module × Option (List Name) := (me.1, me.2.2)

/-- `build_env` of every selected module, in selection order -/
def moduleEnvs (r : Resolved) (genv : Env) : List Module → Except GErr (List ModEnv)
  | [] => .ok []
  | m :: ms =>
    match buildEnv r m genv with
    | .error e => .error e
    | .ok p =>
      match moduleEnvs r genv ms with
      | .error e => .error e
      | .ok rest => .ok ((m, p.1, p.2) :: rest)

def appendFlat (mflats : List (Name × Flat)) : Option (Name × Flat) → List (Name × Flat)
  | some x => mflats ++ [x]
  | none => mflats

/-- the loop over the build order -/
def modulesLoop (ev : EvalExpr) (st : Settings) (builder : Name) (app : Module) (r : Resolved)
    (rules : List (String × Rule)) (opts : Option VarOpts) (globals : List Name) (menvs : List ModEnv) :
    List Name → LoopState → List (Name × Flat) → Except GErr (LoopState × List (Name × Flat))
  | [], ls, mflats => .ok (ls, mflats)
  | n :: ns, ls, mflats =>
    match menvs.find? (·.1.name == n) with
    | none => .error (.panic "generate.rs:modules.get(dep_name)")
    | some me =>
      match moduleStep ev st builder app r rules opts globals me.1 me.2.1 me.2.2 ls with
      | .error e => .error e
      | .ok lf => modulesLoop ev st builder app r rules opts globals menvs ns lf.1 (appendFlat mflats lf.2)

/-! #### link, post-link, result -/

def FileTable.getD (t : FileTable) (n : Name) : List String := (t.get? n).getD []

def nonEmpty? (l : List String) : Option (List String) := if l.isEmpty then none else some l

/-- the files of the global build deps, for the link step -/
def globalDepFiles (globals : List Name) (files : FileTable) : Option (List String) :=
  nonEmpty? (dedup (globals.flatMap files.getD))

/-- the LINK rule and the link statement; result: the entries -/
def linkStep (ev : EvalExpr) (rules : List (String × Rule)) (gflat : Flat) (globals : List Name)
    (outfile : String) (ls : LoopState) : Except GErr (List String) :=
  match rulesByName rules "LINK" with
  | none => .error (.error "missing LINK rule")
  | some lr =>
    match ruleToNinja ev lr gflat with
    | .error e => .error e
    | .ok linkRule =>
      .ok (addEntries ls.entries
        [linkRule.render,
         (buildFromRule linkRule (some ls.objects) [outfile] (globalDepFiles globals ls.files)).render])

/-- the optional POST_LINK rule; result: (entries, final output file) -/
def postLinkStep (ev : EvalExpr) (rules : List (String × Rule)) (gflat : Flat) (outfile : String)
    (entries : List String) : Except GErr (List String × String) :=
  match rulesByName rules "POST_LINK" with
  | none => .ok (entries, outfile)
  | some pr =>
    match pr.out with
    | none => .error (.error "POST_LINK rule has no out")
    | some ext =>
      match ruleToNinja ev pr gflat with
      | .error e => .error e
      | .ok pl =>
        .ok (addEntries entries
              [pl.render, (buildFromRule pl (some [outfile]) [pathWithExtension outfile ext] none).render],
             pathWithExtension outfile ext)

def mkBuildInfo (builder : Name) (app : Module) (r : Resolved) (out : String) (gflat : Flat)
    (mflats : List (Name × Flat)) (tasks : List (String × TaskAvail)) (entries : List String) : BuildInfo :=
  { builder := builder, app := app.name, out := out, modules := r.modules.map (·.name),
    globalFlat := gflat, moduleFlat := mflats, tasks := tasks, entries := entries }

def builderVarOpts (b : Bag) (builder : Name) : Option VarOpts := (b.ctx? builder).bind (·.varOptions)

def globalFlat (opts : Option VarOpts) (genv : Env) : Except GErr Flat :=
  match genv.flattenWithOptsOption opts with
  | .ok f => .ok f
  | .error _ => .error (.error "global env: var_options")

def globalBuildDeps (r : Resolved) : List Name := (r.modules.filter (·.isGlobalBuildDep)).map (·.name)

/-- link, post-link and tasks, then the result -/
def finishBuild (ev : EvalExpr) (b : Bag) (builder : Name) (app : Module) (r : Resolved)
    (rules : List (String × Rule)) (gflat : Flat) (outfile : String) (globals : List Name)
    (ls : LoopState) (mflats : List (Name × Flat)) : Except GErr BuildInfo :=
  match linkStep ev rules gflat globals outfile ls with
  | .error e => .error e
  | .ok entries1 =>
    match postLinkStep ev rules gflat outfile entries1 with
    | .error e => .error e
    | .ok eo =>
      match collectTasks ev b builder (gflat.insert "out" eo.2) r with
      | .error e => .error e
      | .ok tasks => .ok (mkBuildInfo builder app r eo.2 gflat mflats tasks eo.1)

/-- everything after the module envs are known: build order, module loop, link -/
def configureOrdered (ev : EvalExpr) (st : Settings) (b : Bag) (builder : Name) (app : Module) (r : Resolved)
    (rules : List (String × Rule)) (opts : Option VarOpts) (gflat : Flat) (outfile : String)
    (menvs : List ModEnv) : Except GErr Outcome :=
  match buildOrder (menvs.map ModEnv.deps) with
  | none => .ok (.noBuild .depCycle)
  | some order =>
    match modulesLoop ev st builder app r rules opts (globalBuildDeps r) menvs order {} [] with
    | .error e => .error e
    | .ok lm =>
      match finishBuild ev b builder app r rules gflat outfile (globalBuildDeps r) lm.1 lm.2 with
      | .error e => .error e
      | .ok i => .ok (.build i)

/-- everything after the global env is flattened -/
def configureWithEnv (ev : EvalExpr) (st : Settings) (b : Bag) (builder : Name) (app : Module) (r : Resolved)
    (genv : Env) (gflat : Flat) : Except GErr Outcome :=
  match unwrapX "generate.rs:outfile" (expandS gflat .empty "${outfile}") with
  | .error e => .error e
  | .ok outfile =>
    match moduleEnvs r genv r.modules with
    | .error e => .error e
    | .ok menvs =>
      configureOrdered ev st b builder app r (b.collectRules builder) (builderVarOpts b builder) gflat outfile menvs

/-- for a given selection -/
def configureSelection (ev : EvalExpr) (st : Settings) (b : Bag) (builder : Name) (app : Module) (cli : Cli)
    (r : Resolved) : Except GErr Outcome :=
  match globalFlat (builderVarOpts b builder) (globalEnv st b builder app r cli) with
  | .error e => .error e
  | .ok gflat => configureWithEnv ev st b builder app r (globalEnv st b builder app r cli) gflat

/-- everything after successful resolution -/
def configureResolved (ev : EvalExpr) (st : Settings) (b : Bag) (builder : Name) (app : Module) (cli : Cli)
    (rs : RState) : Except GErr Outcome :=
  configureSelection ev st b builder app cli (resolvedOf b builder (appClone app builder cli) rs)

def configureBuild (ev : EvalExpr) (st : Settings) (b : Bag) (builder : Name) (app : Module) (cli : Cli) :
    Except GErr Outcome :=
  if !(b.tree.isAllowed builder app.blocklist app.allowlist).ok then .ok (.noBuild .blocked)
  else if !(b.chain builder).contains app.contextName then .ok (.noBuild .notAncestor)
  else
    match resolveTop b builder app cli with
    | .error _ => .ok (.noBuild .unresolved)
    | .ok rs => configureResolved ev st b builder app cli rs

end Laze
