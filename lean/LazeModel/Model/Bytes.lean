/-! Byte strings and the `str` primitives the Rust code uses (`find`, `replace`, slicing).
    Strings are UTF-8 byte lists because `expand.rs`/`expr.rs` compute *byte* offsets. -/
namespace Laze

abbrev Bytes := List UInt8

deriving instance DecidableEq for Except

def isCont (b : UInt8) : Bool := b ≥ 0x80 && b < 0xC0

def isPrefix : Bytes → Bytes → Bool
  | [], _ => true
  | _ :: _, [] => false
  | a :: as, b :: bs => a == b && isPrefix as bs

/-- `str::find(pat)`: byte index of the first occurrence -/
def findSub (pat : Bytes) : Bytes → Option Nat
  | [] => if pat.isEmpty then some 0 else none
  | b :: tl => if isPrefix pat (b :: tl) then some 0 else (findSub pat tl).map (· + 1)

def dollarBrace : Bytes := [36, 123]        -- "${"
def escDollarBrace : Bytes := [92, 36, 123] -- "\${"
def closeBrace : Bytes := [125]             -- "}"
def dollarParen : Bytes := [36, 40]         -- "$("
def backslash : UInt8 := 92
def dollar : UInt8 := 36
def lpar : UInt8 := 40
def rpar : UInt8 := 41

/-- `str::replace(pat, to)` for a non-empty pattern: non-overlapping matches, left to right.
    `skip` counts bytes of a match still to be dropped (keeps the recursion structural). -/
def replaceAux (pat to : Bytes) : Nat → Bytes → Bytes
  | _, [] => []
  | skip+1, _ :: tl => replaceAux pat to skip tl
  | 0, b :: tl =>
    if isPrefix pat (b :: tl) then to ++ replaceAux pat to (pat.length - 1) tl
    else b :: replaceAux pat to 0 tl

def replaceAll (pat to : Bytes) (f : Bytes) : Bytes := replaceAux pat to 0 f

/-- Rust `str::is_char_boundary` -/
def isBoundary (f : Bytes) (i : Nat) : Bool :=
  i == 0 || i == f.length || (i < f.length && !isCont (f.getD i 0))

def toB (s : String) : Bytes := s.toUTF8.toList
def ofB (b : Bytes) : String := (String.fromUTF8? (ByteArray.mk b.toArray)).getD "<invalid-utf8>"

end Laze
