import LazeModel.Model.Ctx
/-! Pure model of laze's dependency resolver (`src/build.rs`, `Resolver::resolve_module_deep`,
    `resolve_module_list`). Open recursion: helpers take the recursive call as `rec`; the knot is
    tied on a fuel argument in `resolveDeep`. An `.error` result means "the caller keeps ITS state"
    — this is what the `state_push`/`state_pop` discipline of the Rust code implements. -/
namespace Laze

inductive Dep where
  | hard (n : Name)
  | soft (n : Name)
  | ifHard (c n : Name)
  | ifSoft (c n : Name)
  deriving Repr, DecidableEq, BEq

def Dep.name : Dep → Name
  | .hard n | .soft n | .ifHard _ n | .ifSoft _ n => n

/-- what the resolver looks at in a module -/
structure Mod where
  name : Name
  selects : List Dep
  conflicts : List Name
  provides : List Name
  deriving Repr

/-- what the resolver can look up for one build -/
structure World where
  lookup : Name → Option Mod        -- `build_context.resolve_module`
  providers : Name → List Name      -- `build_context.provided`

structure RState where
  sel : List Name                      -- module_list (== module_set), newest last
  pending : List (Name × Dep)          -- if_then_deps (cond, Hard/Soft dep), insertion order
  disabled : List (Name × Option Name) -- disabled_modules: (name, by); by = none for context/cli
  providedBy : List (Name × Name)      -- (feature, provider), insertion order
  deriving Repr

def RState.isSel (s : RState) (n : Name) : Bool := s.sel.contains n
def RState.isDisabled (s : RState) (n : Name) : Bool := s.disabled.any (·.1 == n)
def RState.isProvided (s : RState) (n : Name) : Bool := s.providedBy.any (·.1 == n)

inductive RErr where
  | disabled | conflict | conflictProvided | providesDisabled | notFound | dep | fuel
  deriving Repr, DecidableEq

/-- the four rejection tests of `resolve_module_deep`, then registration of the module -/
def enter (m : Mod) (s : RState) : Except RErr RState :=
  if s.isDisabled m.name then .error .disabled
  else if m.conflicts.any (fun c => s.isSel c || s.isProvided c) then
    .error .conflict
  else if m.provides.any (fun p => s.isDisabled p) then .error .providesDisabled
  else .ok { s with
    sel := s.sel ++ [m.name]
    disabled := s.disabled ++ m.conflicts.map (fun c => (c, some m.name))
    providedBy := s.providedBy ++ m.provides.map (fun p => (p, m.name)) }

def lateDeps (s : RState) (n : Name) : List Dep :=
  (s.pending.filter (·.1 == n)).map (·.2)

abbrev RRec := Mod → RState → Except RErr RState

/-- `resolve_module_name_deep` -/
def resolveNameW (w : World) (rec : RRec) (n : Name) (s : RState) : Except RErr RState :=
  match w.lookup n with
  | none => .error .notFound
  | some m => rec m s

/-- `resolve_module_list`: returns (count, state) -/
def resolveListW (w : World) (rec : RRec) : List Name → Name → Nat → RState → Nat × RState
  | [], _, cnt, s => (cnt, s)
  | p :: ps, feat, cnt, s =>
    if s.isSel p then resolveListW w rec ps feat (cnt+1) s
    else if s.isDisabled feat then
      (if cnt > 0 then (cnt, s) else resolveListW w rec ps feat cnt s)
    else match resolveNameW w rec p s with
      | .ok s' => resolveListW w rec ps feat (cnt+1) s'
      | .error _ => resolveListW w rec ps feat cnt s

/-- one dependency name: providers first, then the module of that exact name -/
def resolveOneW (w : World) (rec : RRec) (n : Name) (optional : Bool) (s : RState) : Except RErr RState :=
  match resolveListW w rec (w.providers n) n 0 s with
  | (cnt, s1) =>
    if cnt > 0 && s1.isDisabled n then .ok s1
    else match resolveNameW w rec n s1 with
      | .ok s2 => .ok s2
      | .error _ => if optional || cnt > 0 then .ok s1 else .error .dep

/-- the loop over `module.selects.chain(late_if_then_deps)` -/
def resolveDepsW (w : World) (rec : RRec) : List Dep → RState → Except RErr RState
  | [], s => .ok s
  | .hard n :: ds, s => match resolveOneW w rec n false s with
    | .ok s' => resolveDepsW w rec ds s' | .error e => .error e
  | .soft n :: ds, s => match resolveOneW w rec n true s with
    | .ok s' => resolveDepsW w rec ds s' | .error e => .error e
  | .ifHard c n :: ds, s =>
    if s.isSel c then match resolveOneW w rec n false s with
      | .ok s' => resolveDepsW w rec ds s' | .error e => .error e
    else resolveDepsW w rec ds { s with pending := s.pending ++ [(c, .hard n)] }
  | .ifSoft c n :: ds, s =>
    if s.isSel c then match resolveOneW w rec n true s with
      | .ok s' => resolveDepsW w rec ds s' | .error e => .error e
    else resolveDepsW w rec ds { s with pending := s.pending ++ [(c, .soft n)] }

def resolveDeepStep (w : World) (rec : RRec) (m : Mod) (s : RState) : Except RErr RState :=
  if s.isSel m.name then .ok s else
  match enter m s with
  | .error e => .error e
  | .ok s1 => resolveDepsW w rec (m.selects ++ lateDeps s1 m.name) s1

def resolveDeep (w : World) : Nat → RRec
  | 0 => fun _ _ => .error .fuel
  | fuel+1 => resolveDeepStep w (resolveDeep w fuel)

end Laze
