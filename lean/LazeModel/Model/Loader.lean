import LazeModel.Model.Gen
/-! `src/data.rs`: from the YAML documents (as typed trees — what serde hands to `YamlFile`) to the
    loaded `Bag`. serde_yaml itself is not modelled. -/
namespace Laze

/-- a dependency/source list entry: a string or a map `cond ↦ [names]` (document order) -/
inductive YEntry where
  | str (s : String)
  | map (m : List (String × List String))
  deriving Repr

structure YContext where
  name : String
  parent : Option String := none
  env : Option Env := none
  selects : Option (List String) := none
  disables : Option (List String) := none
  provides : Option (List String) := none
  providesUnique : Option (List String) := none
  rules : Option (List Rule) := none
  varOptions : Option VarOpts := none
  tasks : Option (List (String × Task)) := none
  isBuilder : Bool := false
  deriving Repr

structure YModule where
  name : Option String := none
  context : Option (List String) := none    -- `Single s` = `[s]`
  contextIsList : Bool := false
  depends : Option (List YEntry) := none
  selects : Option (List YEntry) := none
  uses : Option (List String) := none
  provides : Option (List String) := none
  providesUnique : Option (List String) := none
  conflicts : Option (List String) := none
  notifyAll : Bool := false
  sources : Option (List YEntry) := none
  tasks : Option (List (String × Task)) := none
  build : Option CustomBuild := none
  envLocal : Option Env := none
  envExport : Option Env := none
  envGlobal : Option Env := none
  blocklist : Option (List String) := none
  allowlist : Option (List String) := none
  download : Option Download := none
  srcdir : Option String := none
  isBuildDep : Bool := false
  isGlobalBuildDep : Bool := false
  deriving Repr

structure YDoc where
  contexts : Option (List YContext) := none
  builders : Option (List YContext) := none
  modules : Option (Option (List YModule)) := none     -- `some none`: the key is present with value null
  apps : Option (Option (List YModule)) := none
  includes : Option (List String) := none
  subdirs : Option (List String) := none
  defaults : Option (List (String × YModule)) := none
  deriving Repr

abbrev Files := List (String × List YDoc)     -- path ↦ documents

inductive LErr where
  | error (kind : String)
  | panic (site : String)
  | hang (why : String)         -- the implementation does not terminate
  deriving Repr, DecidableEq

/-! ### file work-list -/

structure FileInclude where
  filename : String
  includedBy : Option Nat
  deriving Repr, DecidableEq

/-- identity of an include is its file name: a lazefile is loaded once, whoever lists it -/
instance : BEq FileInclude := ⟨fun a b => pathComponents a.filename == pathComponents b.filename⟩

structure LDoc where
  doc : YDoc
  filename : String
  idx : Nat
  includedBy : Option Nat
  deriving Repr

def pathJoin (a b : String) : String := pathPush a b

/-- one document of a file that was just read -/
def mkLDoc (inc : FileInclude) (start : Nat) (dn : YDoc × Nat) : LDoc :=
  { doc := dn.1, filename := inc.filename, idx := start + dn.2, includedBy := inc.includedBy }

/-- `IndexSet::insert` on the work-list -/
def addInclude (incs : List FileInclude) (fi : FileInclude) : List FileInclude :=
  if incs.contains fi then incs else incs ++ [fi]

def subdirInclude (rel : String) (idx : Nat) (sd : String) : FileInclude :=
  ⟨pathJoin (pathJoin rel sd) "laze.yml", some idx⟩

def fileInclude (rel : String) (idx : Nat) (f : String) : FileInclude := ⟨pathJoin rel f, some idx⟩

/-- the files a document asks for: its `subdirs` first, then its `includes` -/
def docIncludes (rel : String) (incs : List FileInclude) (nd : LDoc) : List FileInclude :=
  ((nd.doc.includes.getD []).map (fileInclude rel nd.idx)).foldl addInclude
    (((nd.doc.subdirs.getD []).map (subdirInclude rel nd.idx)).foldl addInclude incs)

/-- the `while filenames_pos < filenames.len()` loop; `fuel` bounds the number of files read -/
def loadFiles (fs : Files) : Nat → Nat → List FileInclude → List LDoc → Except LErr (List LDoc × List FileInclude)
  | 0, pos, incs, docs => if pos < incs.length then .error (.hang "include work-list does not terminate") else .ok (docs, incs)
  | fuel+1, pos, incs, docs =>
    match incs[pos]? with
    | none => .ok (docs, incs)
    | some inc =>
      match fs.find? (fun fd => pathComponents fd.1 == pathComponents inc.filename) with
      | none => .error (.error "cannot read file")
      | some fd =>
        loadFiles fs fuel (pos + 1)
          ((fd.2.zipIdx.map (mkLDoc inc docs.length)).foldl (docIncludes (pathParent inc.filename)) incs)
          (docs ++ fd.2.zipIdx.map (mkLDoc inc docs.length))

/-! ### contexts -/

/-- `dependency_from_string` (an empty name makes the implementation index out of bounds) -/
def depFromString (s : String) : Except LErr Dep :=
  if s.isEmpty then .error (.error "data.rs:empty dependency name")
  else if s.startsWith "?" then .ok (.soft (s.drop 1).toString) else .ok (.hard s)

def depFromStringIf (s : String) (other : String) : Except LErr Dep :=
  if s.isEmpty then .error (.error "data.rs:empty dependency name")
  else if s.startsWith "?" then .ok (.ifSoft other (s.drop 1).toString) else .ok (.ifHard other s)

def relpathOf (filename : String) : String :=
  if pathParent filename == "" then "." else pathParent filename

def earlyX {α} (x : Except XErr α) : Except LErr α :=
  match x with
  | .ok v => .ok v
  | .error e => .error (.error ("early expansion:" ++ xerrKind e))

/-- early expansion of one string of a task; errors are reported -/
def expandTaskStr (flat : Flat) (s : String) : Except LErr String :=
  match expandKeepS flat .ignore s with
  | .ok v => .ok v
  | .error e => .error (.error ("task:" ++ xerrKind e))

def expandTaskWorkdir (flat : Flat) : Option String → Except LErr (Option String)
  | some w => (expandTaskStr flat w).map some
  | none => .ok none

/-- `Task::with_env` (early: no evaluation, unknown variables kept); errors are reported -/
def taskWithEnv (flat : Flat) (t : Task) : Except LErr Task := do
  let cmd ← t.cmd.mapM (expandTaskStr flat)
  let wd ← expandTaskWorkdir flat t.workdir
  return { t with cmd := cmd, workdir := wd }

def convertTask (flat : Flat) (nt : String × Task) : Except LErr (String × Task) :=
  (taskWithEnv flat nt.2).map (fun t => (nt.1, t))

def convertTasks (tasks : List (String × Task)) (early : Env) : Except LErr (List (String × Task)) :=
  tasks.mapM (convertTask early.flatten)

/-- the variables known when a lazefile is read -/
def contextEarlyEnv (filename : String) : Env := [("relpath", .single (relpathOf filename)), ("root", .single ".")]

def convertOptTasks (early : Env) : Option (List (String × Task)) → Except LErr (Option (List (String × Task)))
  | some t => (convertTasks t early).map some
  | none => .ok none

def expandOptEnv (early : Env) : Option Env → Except LErr (Option Env)
  | some e => (earlyX (e.expandEarly early)).map some
  | none => .ok none

/-- concatenation of two optional lists (`none` only when both are absent) -/
def optConcat : Option (List String) → Option (List String) → Option (List String)
  | some p, some u => some (p ++ u)
  | some p, none => some p
  | none, some u => some u
  | none, none => none

def contextParentName (y : YContext) : String := y.parent.getD "default"

def mkContext (y : YContext) (isBuilder : Bool) (filename : String) (env : Option Env)
    (tasks : Option (List (String × Task))) : Context :=
  { name := y.name, parent := if y.name == "default" then none else some (contextParentName y),
    rules := y.rules, env := env, disable := y.disables, varOptions := y.varOptions, tasks := tasks,
    envEarly := contextEarlyEnv filename, isBuilder := isBuilder, definedIn := filename }

/-- the `context::<name>` module -/
def mkContextModule (y : YContext) (filename : String) (selects : List Dep) : Module :=
  { name := "context::" ++ y.name, contextName := y.name,
    selects := selects ++ (if y.name == "default" then [] else [.hard ("context::" ++ contextParentName y)]),
    provides := optConcat y.provides y.providesUnique, conflicts := optConcat y.disables y.providesUnique,
    definedIn := filename, relpath := relpathOf filename }

/-- `convert_context`: the context and its `context::<name>` module -/
def convertContext (y : YContext) (isBuilder : Bool) (filename : String) : Except LErr (Context × Module) := do
  let tasks ← convertOptTasks (contextEarlyEnv filename) y.tasks
  let env ← expandOptEnv (contextEarlyEnv filename) y.env
  let selects ← (y.selects.getD []).mapM depFromString
  return (mkContext y isBuilder filename env tasks, mkContextModule y filename selects)

/-- number of parents; `none` on a parent cycle (the implementation recurses forever) -/
def countParents (cs : List Context) : Nat → Name → Option Nat
  | 0, _ => none
  | fuel+1, n =>
    match cs.find? (·.name == n) with
    | none => some 0
    | some c => match c.parent with
      | none => some 0
      | some p => (countParents cs fuel p).map (· + 1)

def insertByCount (x : Name × Nat) : List (Name × Nat) → List (Name × Nat)
  | [] => [x]
  | y :: ys => if y.2 ≤ x.2 then y :: insertByCount x ys else x :: y :: ys

def updateCtx (cs : List Context) (n : Name) (f : Context → Context) : List Context :=
  cs.map (fun c => if c.name == n then f c else c)

def findCtx (cs : List Context) (n : Name) : Option Context := cs.find? (·.name == n)

/-- the implicit `default` context -/
def defaultContext : Context :=
  { name := "default", parent := none, modules := [{ name := "context::default", contextName := "default" }] }

def withDefaultContext (cs0 : List Context) : List Context :=
  if cs0.any (·.name == "default") then cs0 else cs0 ++ [defaultContext]

def parentKnown (cs : List Context) (c : Context) : Bool :=
  match c.parent with
  | some p => cs.any (·.name == p)
  | none => true

/-- `(name, number of parents)` for every context, in bag order -/
def parentCounts (cs : List Context) : List Context → Except LErr (List (Name × Nat))
  | [] => .ok []
  | c :: rest =>
    match countParents cs (cs.length + 1) c.name with
    | none => .error (.error "context_bag.rs:parent cycle")
    | some k =>
      match parentCounts cs rest with
      | .error e => .error e
      | .ok l => .ok ((c.name, k) :: l)

/-- stable sort by parent count -/
def sortByCount (counts : List (Name × Nat)) : List (Name × Nat) :=
  counts.foldl (fun acc x => insertByCount x acc) []

/-- the parent context of `c`, if it is in the bag -/
def parentCtx (cs : List Context) (c : Context) : Option Context := c.parent.bind (findCtx cs)

/-- parent env first, own env merged on top -/
def envOnParent (penv : Env) (c : Context) : Context :=
  { c with env := some (match c.env with | some e => penv.merge e | none => penv) }

/-- one step of the env pass of `finalize` (roots are skipped) -/
def mergeParentEnv (cs : List Context) (nk : Name × Nat) : List Context :=
  if nk.2 == 0 then cs else
  match findCtx cs nk.1 with
  | none => cs
  | some c =>
    match parentCtx cs c with
    | none => cs
    | some par =>
      match par.env with
      | some penv => updateCtx cs nk.1 (envOnParent penv)
      | none => cs

def setVarOptions (vo : Option VarOpts) (c : Context) : Context := { c with varOptions := vo }

/-- one step of the var_options pass: own map if present, else the parent's effective map -/
def inheritVarOptions (cs : List Context) (nk : Name × Nat) : List Context :=
  if nk.2 == 0 then cs else
  match findCtx cs nk.1 with
  | none => cs
  | some c =>
    match parentCtx cs c with
    | none => cs
    | some par => if c.varOptions.isNone then updateCtx cs nk.1 (setVarOptions par.varOptions) else cs

/-- both passes, parents before children -/
def inheritAll (cs : List Context) (sorted : List (Name × Nat)) : List Context :=
  sorted.foldl inheritVarOptions (sorted.foldl mergeParentEnv cs)

/-- `finalize` on a bag that contains `default` -/
def finalizeBag (cs : List Context) : Except LErr (List Context × List (Name × Nat)) :=
  if !(cs.all (parentKnown cs)) then .error (.error "unknown parent") else
  match parentCounts cs cs with
  | .error e => .error e
  | .ok counts => .ok (inheritAll cs (sortByCount counts), sortByCount counts)

/-- `ContextBag::finalize` -/
def finalize (cs0 : List Context) : Except LErr (List Context × List (Name × Nat)) :=
  finalizeBag (withDefaultContext cs0)

/-- `ContextBag::add_module` (the `provided` tables are computed by `Bag.provided`) -/
def addModule (cs : List Context) (m : Module) : Except LErr (List Context) :=
  match cs.find? (·.name == m.contextName) with
  | none => .error (.error "undefined context")
  | some c =>
    if c.modules.any (·.name == m.name) then .error (.error "module name already used")
    else .ok (updateCtx cs m.contextName (fun c => { c with modules := c.modules ++ [m] }))

/-! ### modules -/

/-- `process_removes` -/
def processRemoves (l : List Dep) : List Dep :=
  let removals := (l.filter (·.name.startsWith "-")).map (fun d => (d.name.drop 1).toString)
  l.filter (fun d => !(d.name.startsWith "-" || removals.contains d.name))

/-- a conditional dependency `cond: name` -/
def depIf (cond : String) (s : String) : Except LErr Dep := depFromStringIf s cond

/-- the dependencies of a map entry `cond ↦ [names]`, in document order -/
def mapEntryDeps : List (String × List String) → Except LErr (List Dep)
  | [] => .ok []
  | (k, v) :: rest =>
    match v.mapM (depIf k) with
    | .error e => .error e
    | .ok a =>
      match mapEntryDeps rest with
      | .error e => .error e
      | .ok b => .ok (a ++ b)

def entryDeps : YEntry → Except LErr (List Dep)
  | .str s => (depFromString s).map (fun d => [d])
  | .map m => mapEntryDeps m

def entriesToDeps : List YEntry → Except LErr (List Dep)
  | [] => .ok []
  | e :: rest =>
    match entryDeps e with
    | .error x => .error x
    | .ok a =>
      match entriesToDeps rest with
      | .error x => .error x
      | .ok b => .ok (a ++ b)

def appendOpt (a : Option (List String)) (b : List String) : Option (List String) := some (a.getD [] ++ b)

def mergeOptional (acc : List (String × List String)) (k : String) (v : List String) : List (String × List String) :=
  if acc.any (·.1 == k) then acc.map (fun e => if e.1 == k then (k, e.2 ++ v) else e) else acc ++ [(k, v)]

/-! #### `init_module` + `convert_module`, step by step -/

/-- the module the conversion starts from: a copy of the defaults, or an empty module -/
def moduleBase (name : String) (context : Option String) : Option Module → Module
  | some d => { d with name := name, contextName := context.getD d.contextName }
  | none => { name := name, contextName := context.getD "default" }

def moduleNameOf (y : YModule) (filename : String) : String := y.name.getD (pathParent filename)

def initModule (y : YModule) (context : Option String) (isBinary : Bool) (filename : String)
    (defaults : Option Module) : Module :=
  { moduleBase (moduleNameOf y filename) context defaults with
    isBinary := isBinary, definedIn := filename, relpath := relpathOf filename }

/-- `selects:`, `uses:` and `depends:` (a `depends` entry is selected and imported) -/
def withDeps (selA uses deps : List Dep) (m : Module) : Module :=
  { m with selects := m.selects ++ selA ++ deps, imports := m.imports ++ uses ++ deps }

def withConflicts (y : YModule) (m : Module) : Module :=
  match y.conflicts with
  | some c => { m with conflicts := appendOpt m.conflicts c }
  | none => m

def withProvides (y : YModule) (m : Module) : Module :=
  match y.provides with
  | some p => { m with provides := appendOpt m.provides p }
  | none => m

def withProvidesUnique (y : YModule) (m : Module) : Module :=
  match y.providesUnique with
  | some u => { m with conflicts := appendOpt m.conflicts u, provides := appendOpt m.provides u }
  | none => m

def withNotifyAll (y : YModule) (m : Module) : Module := if y.notifyAll then { m with notifyAll := true } else m

def withRemoves (m : Module) : Module :=
  { m with selects := processRemoves m.selects, imports := processRemoves m.imports }

def mergeOptEnv (base : Env) : Option Env → Env
  | some e => base.merge e
  | none => base

def withEnvs (y : YModule) (m : Module) : Module :=
  { m with envLocal := mergeOptEnv m.envLocal y.envLocal,
           envExport := mergeOptEnv m.envExport y.envExport,
           envGlobal := mergeOptEnv m.envGlobal y.envGlobal }

def plainSource : YEntry → Option String
  | .str s => some s
  | .map _ => none

def mergeOptionalPair (acc : List (String × List String)) (kv : String × List String) : List (String × List String) :=
  mergeOptional acc kv.1 kv.2

def mergeOptionalEntry (acc : List (String × List String)) : YEntry → List (String × List String)
  | .map mp => mp.foldl mergeOptionalPair acc
  | .str _ => acc

/-- the optional sources of a `sources:` list, grouped by guard -/
def optionalSources (l : List YEntry) : List (String × List String) := l.foldl mergeOptionalEntry []

def withOptionalSources (opt : List (String × List String)) (m : Module) : Module :=
  if opt.isEmpty then m
  else { m with sourcesOptional := some (opt.foldl mergeOptionalPair (m.sourcesOptional.getD [])) }

def withSources (y : YModule) (m : Module) : Module :=
  match y.sources with
  | none => m
  | some l => withOptionalSources (optionalSources l) { m with sources := m.sources ++ l.filterMap plainSource }

/-- the defaults' list extended by the module's, or the module's alone -/
def extendList (d y : Option (List String)) : Option (List String) :=
  match d with
  | some d => some (d ++ y.getD [])
  | none => y

def withLists (y : YModule) (m : Module) : Module :=
  { m with blocklist := extendList m.blocklist y.blocklist, allowlist := extendList m.allowlist y.allowlist }

def setInsert (l : List String) (x : String) : List String := if l.contains x then l else l ++ [x]

/-- `download:` makes the module a build dependency that exports its tag file -/
def withDownload (y : YModule) (buildDir relpath : String) (m : Module) : Module :=
  match y.download with
  | some d =>
    { m with download := y.download, isBuildDep := true,
             -- the tag file lies in the module's source directory: an explicit `srcdir:` moves it along (fix 137176e; before, the
             -- default download directory's tag file was exported while the download statement wrote into `srcdir`)
             buildDepFiles := some (setInsert (m.buildDepFiles.getD [])
               (d.tagfile (y.srcdir.getD (d.srcdir buildDir relpath m.name)))) }
  | none => { m with download := none }

/-- the source directory unless `srcdir:` is given: the download directory, or the lazefile's -/
def defaultSrcdir (y : YModule) (buildDir relpath : String) (name : String) : String :=
  match y.download with
  | some d => d.srcdir buildDir relpath name
  | none => if relpath != "." then relpath else ""

def withBuildFlags (y : YModule) (m : Module) : Module :=
  { m with build := y.build, isGlobalBuildDep := y.isGlobalBuildDep,
           isBuildDep := if y.download.isNone then y.isBuildDep else m.isBuildDep }

def withSrcdir (y : YModule) (buildDir relpath : String) (m : Module) : Module :=
  { m with srcdir := some (y.srcdir.getD (defaultSrcdir y buildDir relpath m.name)) }

def withEarlyEnv (relpath : String) (m : Module) : Module :=
  { m with envEarly := ((m.envEarly.insert "relpath" (.single relpath)).insert "root" (.single ".")).insert
                         "srcdir" (.single (m.srcdir.getD "")) }

/-- everything of `convert_module` that cannot fail, given the converted dependency lists -/
def convertStatic (y : YModule) (context : Option String) (isBinary : Bool) (filename : String)
    (defaults : Option Module) (buildDir : String) (selA uses deps : List Dep) : Module :=
  withEarlyEnv (relpathOf filename)
    (withSrcdir y buildDir (relpathOf filename)
      (withBuildFlags y
        (withDownload y buildDir (relpathOf filename)
          (withLists y
            (withSources y
              (withEnvs y
                (withRemoves
                  (withNotifyAll y
                    (withProvidesUnique y
                      (withProvides y
                        (withConflicts y
                          (withDeps selA uses deps
                            (initModule y context isBinary filename defaults)))))))))))))

/-- the early expansion of the three envs (the local env sees the early env) -/
def expandModuleEnvs (m : Module) : Except LErr Module := do
  let loc ← earlyX ((m.envLocal.merge m.envEarly).expandEarly m.envEarly)
  let exp ← earlyX (m.envExport.expandEarly m.envEarly)
  let glob ← earlyX (m.envGlobal.expandEarly m.envEarly)
  return { m with envLocal := loc, envExport := exp, envGlobal := glob }

def taskMarker (nt : String × Task) : String := "::task::" ++ nt.1

/-- `tasks:`: the converted tasks; every task is provided (uniquely) under `::task::<name>` -/
def withTasks (y : YModule) (m : Module) : Except LErr Module :=
  match y.tasks with
  | none => .ok m
  | some tasks =>
    match convertTasks tasks m.envEarly with
    | .error e => .error e
    | .ok ts =>
      .ok { m with tasks := ts, provides := appendOpt m.provides (tasks.map taskMarker),
                   conflicts := appendOpt m.conflicts (tasks.map taskMarker) }

def withAppdir (isBinary : Bool) (m : Module) : Module :=
  if isBinary then { m with envGlobal := m.envGlobal.insert "appdir" (.single m.relpath) } else m

/-- `init_module` + `convert_module` -/
def convertModule (y : YModule) (context : Option String) (isBinary : Bool) (filename : String)
    (defaults : Option Module) (buildDir : String) : Except LErr Module := do
  let selA ← entriesToDeps (y.selects.getD [])
  let uses ← (y.uses.getD []).mapM depFromString
  let deps ← entriesToDeps (y.depends.getD [])
  let m ← expandModuleEnvs (convertStatic y context isBinary filename defaults buildDir selA uses deps)
  let m ← withTasks y m
  return withAppdir isBinary m

/-- the defaults inherited from the including document -/
def inheritedDefaults (d : LDoc) (map : List (Nat × Module)) : Option Module :=
  d.includedBy.bind (fun i => (map.find? (·.1 == i)).map (·.2))

/-- `.unwrap()` on the conversion of a defaults section: a reported error becomes a panic -/
def remapDefaultsErr : LErr → LErr
  | .error k => .error ("data.rs:get_defaults:" ++ k)
  | e => e

def convertDefaults (d : LDoc) (sub : Option Module) (isBinary : Bool) (buildDir : String) (y : YModule) :
    Except LErr (Option Module) :=
  if y.contextIsList then .error (.error "data.rs:module defaults with context list") else
  match convertModule y (y.context.bind (·.head?)) isBinary d.filename sub buildDir with
  | .ok m => .ok (some m)
  | .error e => .error (remapDefaultsErr e)

/-- `get_defaults` -/
def getDefaults (d : LDoc) (map : List (Nat × Module)) (key : String) (isBinary : Bool) (buildDir : String) :
    Except LErr (Option Module) :=
  match (d.doc.defaults.getD []).find? (·.1 == key) with
  | some ky => convertDefaults d (inheritedDefaults d map) isBinary buildDir ky.2
  | none => .ok (inheritedDefaults d map)

def YModule.contexts (y : YModule) : List (Option String) :=
  match y.context with
  | some l => l.map some
  | none => [none]

/-! ### `data::load` -/

/-- one `contexts:`/`builders:` entry: (contexts so far, their `context::` modules) -/
def addContext (filename : String) (isB : Bool) (acc : List Context × List Module) (y : YContext) :
    Except LErr (List Context × List Module) :=
  if acc.1.any (·.name == y.name) then .error (.error "context name already defined") else
  match convertContext y (isB || y.isBuilder) filename with
  | .error e => .error e
  | .ok cm => .ok (acc.1 ++ [cm.1], acc.2 ++ [cm.2])

def addContexts (filename : String) (isB : Bool) :
    List YContext → List Context × List Module → Except LErr (List Context × List Module)
  | [], acc => .ok acc
  | y :: ys, acc =>
    match addContext filename isB acc y with
    | .error e => .error e
    | .ok acc' => addContexts filename isB ys acc'

/-- the `contexts:` of a document, then its `builders:` -/
def convertContextsOfDoc (d : LDoc) (acc : List Context × List Module) : Except LErr (List Context × List Module) :=
  match addContexts d.filename false (d.doc.contexts.getD []) acc with
  | .error e => .error e
  | .ok acc' => addContexts d.filename true (d.doc.builders.getD []) acc'

def convertContextsOfDocs : List LDoc → List Context × List Module → Except LErr (List Context × List Module)
  | [], acc => .ok acc
  | d :: ds, acc =>
    match convertContextsOfDoc d acc with
    | .error e => .error e
    | .ok acc' => convertContextsOfDocs ds acc'

/-- `add_module` for a list of modules -/
def addModules : List Module → List Context → Except LErr (List Context)
  | [], cs => .ok cs
  | m :: ms, cs =>
    match addModule cs m with
    | .error e => .error e
    | .ok cs' => addModules ms cs'

/-- convert one module for one of its contexts and add it to the bag -/
def addConverted (buildDir : String) (d : LDoc) (isB : Bool) (defaults : Option Module) (y : YModule)
    (c : Option String) (cs : List Context) : Except LErr (List Context) :=
  match convertModule y c isB d.filename defaults buildDir with
  | .error e => .error e
  | .ok m => addModule cs m

/-- a module with a context list is converted once per context -/
def addModuleContexts (buildDir : String) (d : LDoc) (isB : Bool) (defaults : Option Module) (y : YModule) :
    List (Option String) → List Context → Except LErr (List Context)
  | [], cs => .ok cs
  | c :: rest, cs =>
    match addConverted buildDir d isB defaults y c cs with
    | .error e => .error e
    | .ok cs' => addModuleContexts buildDir d isB defaults y rest cs'

def addYModules (buildDir : String) (d : LDoc) (isB : Bool) (defaults : Option Module) :
    List YModule → List Context → Except LErr (List Context)
  | [], cs => .ok cs
  | y :: ys, cs =>
    match addModuleContexts buildDir d isB defaults y y.contexts cs with
    | .error e => .error e
    | .ok cs' => addYModules buildDir d isB defaults ys cs'

/-- a `modules:`/`apps:` section; `apps:` with a null value defines one default app -/
def addModuleSection (buildDir : String) (d : LDoc) (isB : Bool) (defaults : Option Module) :
    Option (Option (List YModule)) → List Context → Except LErr (List Context)
  | none, cs => .ok cs
  | some (some ms), cs => addYModules buildDir d isB defaults ms cs
  | some none, cs => if isB then addConverted buildDir d true defaults {} none cs else .ok cs

/-- the `modules:` of a document, then its `apps:` -/
def addModulesOfDoc (buildDir : String) (d : LDoc) (md ad : Option Module) (cs : List Context) :
    Except LErr (List Context) :=
  match addModuleSection buildDir d false md d.doc.modules cs with
  | .error e => .error e
  | .ok cs' => addModuleSection buildDir d true ad d.doc.apps cs'

/-- a document with `subdirs:` records its effective defaults for the documents it includes -/
def recordDefaults (d : LDoc) (defs : List (Nat × Module)) (eff : Option Module) : List (Nat × Module) :=
  if d.doc.subdirs.isSome then
    match eff with
    | some m => (d.idx, m) :: defs.filter (·.1 != d.idx)
    | none => defs
  else defs

/-- the state of the module pass: the bag, the module-defaults map, the app-defaults map -/
structure LoadState where
  cs : List Context
  mdefs : List (Nat × Module) := []
  adefs : List (Nat × Module) := []

def loadDocStep (buildDir : String) (d : LDoc) (s : LoadState) : Except LErr LoadState :=
  match getDefaults d s.mdefs "module" false buildDir with
  | .error e => .error e
  | .ok md =>
    match getDefaults d s.adefs "app" true buildDir with
    | .error e => .error e
    | .ok ad =>
      match addModulesOfDoc buildDir d md ad s.cs with
      | .error e => .error e
      | .ok cs' => .ok { cs := cs', mdefs := recordDefaults d s.mdefs md, adefs := recordDefaults d s.adefs ad }

def loadModulesLoop (buildDir : String) : List LDoc → LoadState → Except LErr LoadState
  | [], s => .ok s
  | d :: ds, s =>
    match loadDocStep buildDir d s with
    | .error e => .error e
    | .ok s' => loadModulesLoop buildDir ds s'

/-- from the documents to the bag: contexts, `finalize`, context modules, modules -/
def loadDocs (buildDir : String) (docs : List LDoc) : Except LErr (List Context) := do
  let cc ← convertContextsOfDocs docs ([], [])
  let fin ← finalize cc.1
  let cs ← addModules cc.2 fin.1
  let s ← loadModulesLoop buildDir docs { cs := cs }
  return s.cs

/-- `data::load`: the loaded bag and the list of files whose state is recorded -/
def load (fs : Files) (projectFile : String) (buildDir : String) : Except LErr (Bag × List String) := do
  let di ← loadFiles fs (4 * fs.length + 8) 0 [⟨projectFile, none⟩] []
  let cs ← loadDocs buildDir di.1
  return ({ contexts := cs }, di.2.map (·.filename))

end Laze
