import LazeModel.Model.Gen
/-! `src/data.rs`: from the YAML documents (as typed trees — what serde hands to `YamlFile`) to the
    loaded `Bag`. serde_yaml itself is not modelled. -/
namespace Laze

/-- a dependency/source list entry: a string or a map `cond ↦ [names]` (document order) -/
inductive YEntry where
  | str (s : String)
  | map (m : List (String × List String))
  deriving Repr

structure YContext where
  name : String
  parent : Option String := none
  env : Option Env := none
  selects : Option (List String) := none
  disables : Option (List String) := none
  provides : Option (List String) := none
  providesUnique : Option (List String) := none
  rules : Option (List Rule) := none
  varOptions : Option VarOpts := none
  tasks : Option (List (String × Task)) := none
  isBuilder : Bool := false
  deriving Repr

structure YModule where
  name : Option String := none
  context : Option (List String) := none    -- `Single s` = `[s]`
  contextIsList : Bool := false
  depends : Option (List YEntry) := none
  selects : Option (List YEntry) := none
  uses : Option (List String) := none
  provides : Option (List String) := none
  providesUnique : Option (List String) := none
  conflicts : Option (List String) := none
  notifyAll : Bool := false
  sources : Option (List YEntry) := none
  tasks : Option (List (String × Task)) := none
  build : Option CustomBuild := none
  envLocal : Option Env := none
  envExport : Option Env := none
  envGlobal : Option Env := none
  blocklist : Option (List String) := none
  allowlist : Option (List String) := none
  download : Option Download := none
  srcdir : Option String := none
  isBuildDep : Bool := false
  isGlobalBuildDep : Bool := false
  deriving Repr

structure YDoc where
  contexts : Option (List YContext) := none
  builders : Option (List YContext) := none
  modules : Option (Option (List YModule)) := none     -- `some none`: the key is present with value null
  apps : Option (Option (List YModule)) := none
  includes : Option (List String) := none
  subdirs : Option (List String) := none
  defaults : Option (List (String × YModule)) := none
  deriving Repr

abbrev Files := List (String × List YDoc)     -- path ↦ documents

inductive LErr where
  | error (kind : String)
  | panic (site : String)
  | hang (why : String)         -- the implementation does not terminate
  deriving Repr, DecidableEq

/-! ### file work-list -/

structure FileInclude where
  filename : String
  includedBy : Option Nat
  deriving Repr, BEq, DecidableEq

structure LDoc where
  doc : YDoc
  filename : String
  idx : Nat
  includedBy : Option Nat
  deriving Repr

def pathJoin (a b : String) : String := pathPush a b

/-- the `while filenames_pos < filenames.len()` loop; `fuel` bounds the number of files read -/
def loadFiles (fs : Files) : Nat → Nat → List FileInclude → List LDoc → Except LErr (List LDoc × List FileInclude)
  | 0, pos, incs, docs => if pos < incs.length then .error (.hang "include work-list does not terminate") else .ok (docs, incs)
  | fuel+1, pos, incs, docs =>
    match incs[pos]? with
    | none => .ok (docs, incs)
    | some inc =>
      match fs.find? (·.1 == inc.filename) with
      | none => .error (.error "cannot read file")
      | some (_, ydocs) =>
        let start := docs.length
        let new := ydocs.zipIdx.map (fun (d, n) => ({ doc := d, filename := inc.filename, idx := start + n, includedBy := inc.includedBy } : LDoc))
        let rel := pathParent inc.filename
        let incs := new.foldl (fun incs nd =>
          let incs := (nd.doc.subdirs.getD []).foldl (fun incs sd =>
            let fi : FileInclude := ⟨pathJoin (pathJoin rel sd) "laze.yml", some nd.idx⟩
            if incs.contains fi then incs else incs ++ [fi]) incs
          (nd.doc.includes.getD []).foldl (fun incs f =>
            let fi : FileInclude := ⟨pathJoin rel f, some nd.idx⟩
            if incs.contains fi then incs else incs ++ [fi]) incs) incs
        loadFiles fs fuel (pos + 1) incs (docs ++ new)

/-! ### contexts -/

/-- `dependency_from_string` (an empty name makes the implementation index out of bounds) -/
def depFromString (s : String) : Except LErr Dep :=
  if s.isEmpty then .error (.panic "data.rs:dependency_from_string empty name")
  else if s.startsWith "?" then .ok (.soft (s.drop 1).toString) else .ok (.hard s)

def depFromStringIf (s : String) (other : String) : Except LErr Dep :=
  if s.isEmpty then .error (.panic "data.rs:dependency_from_string_if empty name")
  else if s.startsWith "?" then .ok (.ifSoft other (s.drop 1).toString) else .ok (.ifHard other s)

def relpathOf (filename : String) : String :=
  let p := pathParent filename
  if p == "" then "." else p

def earlyX {α} (x : Except XErr α) : Except LErr α :=
  match x with
  | .ok v => .ok v
  | .error e => .error (.panic ("early expansion:" ++ xerrKind e))

/-- `Task::with_env` (early: no evaluation, unknown variables kept); errors are reported -/
def taskWithEnv (flat : Flat) (t : Task) : Except LErr Task := do
  let ex := fun (s : String) => match expandS flat .ignore s with
    | .ok v => (.ok v : Except LErr String)
    | .error e => .error (.error ("task:" ++ xerrKind e))
  let cmd ← t.cmd.mapM ex
  let wd ← match t.workdir with | some w => (ex w).map some | none => pure none
  return { t with cmd := cmd, workdir := wd }

def convertTasks (tasks : List (String × Task)) (early : Env) : Except LErr (List (String × Task)) :=
  tasks.mapM (fun (n, t) => (taskWithEnv early.flatten t).map (fun t => (n, t)))

/-- `convert_context`: the context and its `context::<name>` module -/
def convertContext (y : YContext) (isBuilder : Bool) (filename : String) : Except LErr (Context × Module) := do
  let isDefault := y.name == "default"
  let parentName := y.parent.getD "default"
  let early : Env := [("relpath", .single (relpathOf filename)), ("root", .single ".")]
  let tasks ← match y.tasks with
    | some t => (convertTasks t early).map some
    | none => pure none
  let env ← match y.env with
    | some e => (earlyX (e.expandEarly early)).map some
    | none => pure none
  let ctx : Context :=
    { name := y.name, parent := if isDefault then none else some parentName,
      rules := y.rules, env := env, disable := y.disables, varOptions := y.varOptions, tasks := tasks,
      envEarly := early, isBuilder := isBuilder, definedIn := filename }
  let selects ← (y.selects.getD []).mapM depFromString
  let provides := match y.provides, y.providesUnique with
    | some p, some u => some (p ++ u) | some p, none => some p | none, some u => some u | none, none => none
  let conflicts := match y.disables, y.providesUnique with
    | some d, some u => some (d ++ u) | some d, none => some d | none, some u => some u | none, none => none
  let m : Module :=
    { name := "context::" ++ y.name, contextName := y.name,
      selects := selects ++ (if isDefault then [] else [.hard ("context::" ++ parentName)]),
      provides := provides, conflicts := conflicts, definedIn := filename, relpath := relpathOf filename }
  return (ctx, m)

/-- number of parents; `none` on a parent cycle (the implementation recurses forever) -/
def countParents (cs : List Context) : Nat → Name → Option Nat
  | 0, _ => none
  | fuel+1, n =>
    match cs.find? (·.name == n) with
    | none => some 0
    | some c => match c.parent with
      | none => some 0
      | some p => (countParents cs fuel p).map (· + 1)

def insertByCount (x : Name × Nat) : List (Name × Nat) → List (Name × Nat)
  | [] => [x]
  | y :: ys => if y.2 ≤ x.2 then y :: insertByCount x ys else x :: y :: ys

def updateCtx (cs : List Context) (n : Name) (f : Context → Context) : List Context :=
  cs.map (fun c => if c.name == n then f c else c)

/-- `ContextBag::finalize` -/
def finalize (cs0 : List Context) : Except LErr (List Context × List (Name × Nat)) := do
  let cs := if cs0.any (·.name == "default") then cs0
    else cs0 ++ [{ name := "default", parent := none,
                   modules := [{ name := "context::default", contextName := "default" }] }]
  for c in cs do
    match c.parent with
    | some p => if !(cs.any (·.name == p)) then throw (.error "unknown parent")
    | none => pure ()
  let mut counts : List (Name × Nat) := []
  for c in cs do
    match countParents cs (cs.length + 1) c.name with
    | none => throw (.panic "context.rs:count_parents parent cycle (stack overflow)")
    | some k => counts := counts ++ [(c.name, k)]
  let sorted := counts.foldl (fun acc x => insertByCount x acc) []
  -- env: parent env first, own env merged on top
  let mut cs := cs
  for (n, k) in sorted do
    if k == 0 then continue
    match cs.find? (·.name == n) with
    | none => pure ()
    | some c =>
      match c.parent.bind (fun p => cs.find? (·.name == p)) with
      | none => pure ()
      | some par =>
        match par.env with
        | some penv => cs := updateCtx cs n (fun c => { c with env := some (match c.env with | some e => penv.merge e | none => penv) })
        | none => pure ()
  -- var_options: own map if present, else the parent's effective map
  for (n, k) in sorted do
    if k == 0 then continue
    match cs.find? (·.name == n) with
    | none => pure ()
    | some c =>
      match c.parent.bind (fun p => cs.find? (·.name == p)) with
      | none => pure ()
      | some par =>
        if c.varOptions.isNone then cs := updateCtx cs n (fun c => { c with varOptions := par.varOptions })
  return (cs, sorted)

/-- `ContextBag::add_module` (the `provided` tables are computed by `Bag.provided`) -/
def addModule (cs : List Context) (m : Module) : Except LErr (List Context) :=
  match cs.find? (·.name == m.contextName) with
  | none => .error (.error "undefined context")
  | some c =>
    if c.modules.any (·.name == m.name) then .error (.error "module name already used")
    else .ok (updateCtx cs m.contextName (fun c => { c with modules := c.modules ++ [m] }))

/-! ### modules -/

/-- `process_removes` -/
def processRemoves (l : List Dep) : List Dep :=
  let removals := (l.filter (·.name.startsWith "-")).map (fun d => (d.name.drop 1).toString)
  l.filter (fun d => !(d.name.startsWith "-" || removals.contains d.name))

def entriesToDeps (l : List YEntry) : Except LErr (List Dep) := do
  let mut out : List Dep := []
  for e in l do
    match e with
    | .str s => out := out ++ [← depFromString s]
    | .map m =>
      for (k, v) in m do
        for d in v do
          out := out ++ [← depFromStringIf d k]
  return out

def appendOpt (a : Option (List String)) (b : List String) : Option (List String) := some (a.getD [] ++ b)

def mergeOptional (acc : List (String × List String)) (k : String) (v : List String) : List (String × List String) :=
  if acc.any (·.1 == k) then acc.map (fun e => if e.1 == k then (k, e.2 ++ v) else e) else acc ++ [(k, v)]

/-- `init_module` + `convert_module` -/
def convertModule (y : YModule) (context : Option String) (isBinary : Bool) (filename : String)
    (defaults : Option Module) (buildDir : String) : Except LErr Module := do
  let relpath := relpathOf filename
  let name := y.name.getD (pathParent filename)
  let m0 : Module := match defaults with
    | some d => { d with name := name, contextName := context.getD d.contextName }
    | none => { name := name, contextName := context.getD "default" }
  let m := { m0 with isBinary := isBinary, definedIn := filename, relpath := relpath }
  let selA ← entriesToDeps (y.selects.getD [])
  let uses ← (y.uses.getD []).mapM depFromString
  let deps ← entriesToDeps (y.depends.getD [])
  let m := { m with selects := m.selects ++ selA ++ deps, imports := m.imports ++ uses ++ deps }
  let m := match y.conflicts with | some c => { m with conflicts := appendOpt m.conflicts c } | none => m
  let m := match y.provides with | some p => { m with provides := appendOpt m.provides p } | none => m
  let m := match y.providesUnique with
    | some u => { m with conflicts := appendOpt m.conflicts u, provides := appendOpt m.provides u }
    | none => m
  let m := if y.notifyAll then { m with notifyAll := true } else m
  let m := { m with selects := processRemoves m.selects, imports := processRemoves m.imports }
  let m := { m with envLocal := match y.envLocal with | some e => m.envLocal.merge e | none => m.envLocal,
                    envExport := match y.envExport with | some e => m.envExport.merge e | none => m.envExport,
                    envGlobal := match y.envGlobal with | some e => m.envGlobal.merge e | none => m.envGlobal }
  -- sources
  let m := match y.sources with
    | none => m
    | some l =>
      let plain := l.filterMap (fun (e : YEntry) => match e with | YEntry.str s => some s | _ => none)
      let opt := l.foldl (fun acc (e : YEntry) => match e with
        | YEntry.map mp => mp.foldl (fun acc (k, v) => mergeOptional acc k v) acc
        | _ => acc) ([] : List (String × List String))
      let m := { m with sources := m.sources ++ plain }
      if opt.isEmpty then m
      else { m with sourcesOptional := some (opt.foldl (fun acc (k, v) => mergeOptional acc k v) (m.sourcesOptional.getD [])) }
  let m := { m with blocklist := match m.blocklist with
                      | some d => some (d ++ y.blocklist.getD [])
                      | none => y.blocklist,
                    allowlist := match m.allowlist with
                      | some d => some (d ++ y.allowlist.getD [])
                      | none => y.allowlist }
  let m := { m with download := y.download }
  let (m, srcdir) := match m.download with
    | some d =>
      let sd := d.srcdir buildDir relpath m.name
      let tag := d.tagfile sd
      let files := m.buildDepFiles.getD []
      ({ m with buildDepFiles := some (if files.contains tag then files else files ++ [tag]), isBuildDep := true }, sd)
    | none => (m, if relpath != "." then relpath else "")
  let m := { m with build := y.build, isGlobalBuildDep := y.isGlobalBuildDep }
  let m := if m.download.isNone then { m with isBuildDep := y.isBuildDep } else m
  let m := { m with srcdir := some (y.srcdir.getD srcdir) }
  let early := ((m.envEarly.insert "relpath" (.single relpath)).insert "root" (.single ".")).insert "srcdir" (.single (m.srcdir.getD ""))
  let m := { m with envEarly := early }
  let loc ← earlyX ((m.envLocal.merge early).expandEarly early)
  let exp ← earlyX (m.envExport.expandEarly early)
  let glob ← earlyX (m.envGlobal.expandEarly early)
  let m := { m with envLocal := loc, envExport := exp, envGlobal := glob }
  let m ← match y.tasks with
    | none => pure m
    | some tasks =>
      let ts ← convertTasks tasks early
      let markers := tasks.map (fun (n, _) => "::task::" ++ n)
      pure { m with tasks := ts, provides := appendOpt m.provides markers, conflicts := appendOpt m.conflicts markers }
  return if isBinary then { m with envGlobal := m.envGlobal.insert "appdir" (.single relpath) } else m

/-- `get_defaults` -/
def getDefaults (d : LDoc) (map : List (Nat × Module)) (key : String) (isBinary : Bool) (buildDir : String) :
    Except LErr (Option Module) := do
  let sub : Option Module := d.includedBy.bind (fun i => (map.find? (·.1 == i)).map (·.2))
  match (d.doc.defaults.getD []).find? (·.1 == key) with
  | some (_, y) =>
    if y.contextIsList then throw (.panic "data.rs:module defaults with context list")
    match convertModule y (y.context.bind (·.head?)) isBinary d.filename sub buildDir with
    | .ok m => return some m
    | .error (.error k) => throw (.panic ("data.rs:get_defaults unwrap:" ++ k))
    | .error e => throw e
  | none => return sub

def YModule.contexts (y : YModule) : List (Option String) :=
  match y.context with
  | some l => l.map some
  | none => [none]

/-- `data::load`: the loaded bag and the list of files whose state is recorded -/
def load (fs : Files) (projectFile : String) (buildDir : String) : Except LErr (Bag × List String) := do
  let (docs, incs) ← loadFiles fs (4 * fs.length + 8) 0 [⟨projectFile, none⟩] []
  -- contexts
  let mut cs : List Context := []
  let mut cmods : List Module := []
  for d in docs do
    for (list, isB) in [(d.doc.contexts, false), (d.doc.builders, true)] do
      for y in list.getD [] do
        if cs.any (·.name == y.name) then throw (.error "context name already defined")
        let (c, m) ← convertContext y (isB || y.isBuilder) d.filename
        cs := cs ++ [c]
        cmods := cmods ++ [m]
  let (cs', _) ← finalize cs
  cs := cs'
  for m in cmods do
    cs ← addModule cs m
  -- modules
  let mut mdefs : List (Nat × Module) := []
  let mut adefs : List (Nat × Module) := []
  for d in docs do
    let md ← getDefaults d mdefs "module" false buildDir
    let ad ← getDefaults d adefs "app" true buildDir
    if d.doc.subdirs.isSome then
      match md with | some m => mdefs := (d.idx, m) :: mdefs.filter (·.1 != d.idx) | none => pure ()
      match ad with | some m => adefs := (d.idx, m) :: adefs.filter (·.1 != d.idx) | none => pure ()
    for (list, isB) in [(d.doc.modules, false), (d.doc.apps, true)] do
      match list with
      | none => pure ()
      | some (some ms) =>
        for y in ms do
          for c in y.contexts do
            cs ← addModule cs (← convertModule y c isB d.filename (if isB then ad else md) buildDir)
      | some none =>
        if isB then
          cs ← addModule cs (← convertModule {} none true d.filename ad buildDir)
  return ({ contexts := cs }, incs.map (·.filename))

end Laze
