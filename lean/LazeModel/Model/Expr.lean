import LazeModel.Model.Expand
/-! Byte-level model of `nested_env::expr::eval` (`src/nested_env/expr.rs`).
    The `evalexpr` crate is a parameter `ev`. -/
namespace Laze

abbrev EvalExpr := Bytes → Except XErr Bytes
abbrev ERec := Bytes → Bool → Except XErr Bytes

structure ESt where
  result : Bytes := []
  start : Nat := 0
  level : Nat := 0
  changed : Bool := false

/-- the `for (i, character) in input.char_indices()` loop, byte by byte (bytes of a multi-byte
    character never equal `$`, `(`, `)` and are pushed one by one at level 0) -/
def evalLoop (rec : ERec) (f : Bytes) : List UInt8 → Nat → ESt → Except XErr ESt
  | [], _, st => .ok st
  | ch :: rest, i, st =>
    let isStart : Bool :=
      ch == dollar && decide (i + 1 < f.length) && f.getD (i + 1) 0 == lpar
        && (i == 0 || f.getD (i - 1) 0 != dollar)
    if isStart then evalLoop rec f rest (i + 1) (if st.level == 0 then { st with start := i + 1 } else st)
    else if ch == lpar && st.start > 0 then evalLoop rec f rest (i + 1) { st with level := st.level + 1 }
    else if ch == rpar && st.level > 0 && st.start > 0 then
      if st.level - 1 == 0 then
        match rec ((f.drop (st.start + 1)).take (i - (st.start + 1))) true with
        | .error e => .error e
        | .ok r => evalLoop rec f rest (i + 1) { result := st.result ++ r, start := 0, level := 0, changed := true }
      else evalLoop rec f rest (i + 1) { st with level := st.level - 1 }
    else if st.level == 0 then evalLoop rec f rest (i + 1) { st with result := st.result ++ [ch] }
    else evalLoop rec f rest (i + 1) st

def evalStep (ev : EvalExpr) (rec : ERec) (f : Bytes) (isEval : Bool) : Except XErr Bytes :=
  match evalLoop rec f f 0 {} with
  | .error e => .error e
  | .ok st =>
    if isEval then ev st.result
    else if st.changed then .ok st.result else .ok f

def evalRec (ev : EvalExpr) : Nat → ERec
  | 0 => fun _ _ => .error .fuel
  | n+1 => evalStep ev (evalRec ev n)

def eval (ev : EvalExpr) (f : Bytes) : Except XErr Bytes :=
  if (findSub dollarParen f).isSome then evalRec ev (f.length + 2) f false else .ok f

/-- `expand_eval` -/
def expandEval (ev : EvalExpr) (r : Vars) (pol : Policy) (f : Bytes) : Except XErr Bytes :=
  match expand r pol f with
  | .error e => .error e
  | .ok s => eval ev s

end Laze
