import LazeModel.Model.Loader
/-! `Generator::execute` (generate.rs 176-300): which (builder, app) pairs are configured, and the
    ninja file assembled from their statements. -/
namespace Laze

inductive Selector where
  | all
  | some (l : List String)
  deriving Repr, DecidableEq

def Selector.selects (s : Selector) (v : String) : Bool :=
  match s with | .all => true | .some l => l.contains v

def Selector.isSuperset : Selector → Selector → Bool
  | .all, _ => true
  | .some _, .all => false
  | .some a, .some b => b.all a.contains

inductive Mode where
  | global
  | «local» (dir : String)
  deriving Repr, DecidableEq

inductive Partition where
  | count (shard total : Nat)
  | hash (shard total : Nat)
  deriving Repr, DecidableEq

structure Args where
  builders : Selector := .all
  apps : Selector := .all
  mode : Mode := .global
  cli : Cli := {}
  partition : Option Partition := none
  deriving Repr

def Bag.builders (b : Bag) : List Context := b.contexts.filter (·.isBuilder)
def Bag.bins (b : Bag) : List Module := b.contexts.flatMap (fun c => c.modules.filter (·.isBinary))

/-- `builders_by_name` -/
def selectedBuilders (b : Bag) : Selector → Except GErr (List Context)
  | .all => .ok b.builders
  | .some names => (dedup names).mapM (fun n => match b.ctx? n with
      | some c => if c.isBuilder then .ok c else .error (.error "context is not a build context")
      | none => .error (.error "unknown builder"))

def selectedBins (b : Bag) (apps : Selector) (mode : Mode) : Except GErr (List Module) := do
  let bins := b.bins
  match apps with
  | .some l => if l.any (fun a => !(bins.any (·.name == a))) then throw (.error "unknown binaries specified")
  | .all => pure ()
  let bins := bins.filter (fun m => apps.selects m.name)
  match mode with
  | .global => return bins
  | .local dir =>
    -- a name that is (also) defined in the start directory is not missing there
    let outside := bins.filter (fun m => m.relpath != dir && !(bins.any (fun m' => m'.relpath == dir && m'.name == m.name)))
    match apps with
    | .some _ => if !outside.isEmpty then throw (.error "binaries not defined in the current directory")
    | .all => pure ()
    return bins.filter (fun m => m.relpath == dir)

/-- `CountPartitioner::task_matches` over the tuple list, with its running counter -/
def countPartition (shard total : Nat) : List α → Nat → List α
  | [], _ => []
  | x :: xs, curr =>
    let rest := countPartition shard total xs ((curr + 1) % total)
    if curr == shard - 1 then x :: rest else rest

def applyPartition (h : String → Nat) (p : Option Partition) (tuples : List (Context × Module)) : List (Context × Module) :=
  match p with
  | none => tuples
  | some (.count s t) => countPartition s t tuples 0
  | some (.hash s t) => tuples.filter (fun (b, m) => h (b.name ++ m.name) % t == s - 1)

def buildTuples (h : String → Nat) (b : Bag) (a : Args) : Except GErr (List (Context × Module)) := do
  let bs ← selectedBuilders b a.builders
  let bins ← selectedBins b a.apps a.mode
  return applyPartition h a.partition (bs.flatMap (fun c => bins.map (fun m => (c, m))))

structure GenResult where
  outcomes : List (Name × Name × Outcome)      -- every tuple, in order
  builds : List BuildInfo                      -- the configured ones, in order
  entries : List String                        -- combined, insertion-ordered set
  deriving Repr

def ninjaHeader (st : Settings) : String := "builddir = " ++ st.buildDir ++ "\nbuild ALWAYS: phony\n"

def GenResult.ninja (st : Settings) (r : GenResult) : String := ninjaHeader st ++ String.join r.entries

/-- every tuple is configured (the implementation does this on a thread pool); the run fails if any
    of them fails. Which failure is reported when several tuples fail is not determined by the
    implementation (parallel short-circuit), so the model returns all of them. -/
def configureAll (ev : EvalExpr) (st : Settings) (b : Bag) (cli : Cli) (tuples : List (Context × Module)) :
    List (Name × Name × Except GErr Outcome) :=
  tuples.map (fun (c, m) => (c.name, m.name, configureBuild ev st b c.name m cli))

def failuresOf (l : List (Name × Name × Except GErr Outcome)) : List GErr :=
  l.filterMap (fun (_, _, r) => match r with | .error e => some e | .ok _ => none)

inductive GenOutcome where
  | failed (errs : List GErr)       -- non-empty: the run fails with one of these
  | done (r : GenResult)

def generate (ev : EvalExpr) (h : String → Nat) (st : Settings) (b : Bag) (a : Args) : Except GErr GenOutcome := do
  let tuples ← buildTuples h b a
  let all := configureAll ev st b a.cli tuples
  match failuresOf all with
  | [] =>
    let outcomes := all.filterMap (fun (bn, an, r) => match r with | .ok o => some (bn, an, o) | .error _ => none)
    let builds := outcomes.filterMap (fun (_, _, o) => match o with | .build i => some i | _ => none)
    return .done { outcomes := outcomes, builds := builds,
                   entries := builds.foldl (fun es i => addEntries es i.entries) [] }
  | errs => return .failed errs

/-! ### the duplicate-output check (`check_duplicate_outputs`)

Identical statements were merged by the entry set. Two different statements naming one output (an `outfile` or custom-build `out`
that does not depend on builder/app, clashing download directories, one source listed by two modules under a non-shareable rule)
would make ninja refuse the file: laze reports them instead of writing it. The check reads the statement *text*, as the code does:
the words between `build ` and the first `:`. -/

/-- a symbolic hash token `\x01 … \x02` (Model/Ninja.lean) stands for a decimal number: the characters inside it are not
    text of the statement. `d` is the nesting depth of tokens. -/
def tokDepth (d : Nat) (c : Char) : Nat := if c == '\x01' then d + 1 else if c == '\x02' then d - 1 else d

def takeUntilColon : Nat → List Char → Option (List Char)
  | _, [] => none
  | d, c :: cs =>
    if d == 0 && c == ':' then some []
    else (takeUntilColon (tokDepth d c) cs).map (c :: ·)

/-- `str::split(' ')` with the empty pieces filtered out -/
def splitSpaces : Nat → List Char → List Char → List (List Char)
  | _, cur, [] => if cur.isEmpty then [] else [cur.reverse]
  | d, cur, c :: cs =>
    if d == 0 && c == ' ' then (if cur.isEmpty then splitSpaces 0 [] cs else cur.reverse :: splitSpaces 0 [] cs)
    else splitSpaces (tokDepth d c) (c :: cur) cs

/-- the outputs a statement text names (`strip_prefix("build ")`, `split_once(':')`, `split(' ')`); rule blocks name none -/
def entryOuts (e : String) : List String :=
  match e.toList with
  | 'b' :: 'u' :: 'i' :: 'l' :: 'd' :: ' ' :: rest =>
    match takeUntilColon 0 rest with
    | some outs => (splitSpaces 0 [] outs).map String.ofList
    | none => []
  | _ => []

/-- the first output that was already named by an earlier statement (or earlier in the same one) -/
def firstDup : List String → List String → Option String
  | _, [] => none
  | seen, x :: xs => if seen.contains x then some x else firstDup (x :: seen) xs

/-- the outputs a statement names, as ninja compares them: canonical paths (`objects/./x.o` and `objects/x.o` are one output; the code
    before the repair compared the texts, found by looking at `srcdir: .`) -/
def entryCanonOuts (e : String) : List String := (entryOuts e).map canonPath

def dupOutput (entries : List String) : Option String := firstDup [] (entries.flatMap entryCanonOuts)

/-- `Generator::execute` after configuring: the run fails when two statements name one output -/
def generateChecked (ev : EvalExpr) (h : String → Nat) (st : Settings) (b : Bag) (a : Args) : Except GErr GenOutcome :=
  match generate ev h st b a with
  | .error e => .error e
  | .ok (.failed errs) => .ok (.failed errs)
  | .ok (.done r) =>
    match dupOutput r.entries with
    | some _ => .error (.error "generate.rs:output produced by more than one build statement")
    | none => .ok (.done r)

end Laze
