import LazeModel.Model.Select
/-! `--info-export` (`insights.rs`, `generate.rs` `module_info`, `main.rs`): for every configured build, in the order the builds
    were configured, the output file and — for every module in BUILD order (`modules_in_build_order`) — the names its
    `selects` refer to. The file is `serde_json::to_writer_pretty` of nested `IndexMap`s: builder ↦ app ↦ info, with
    `IndexMap::insert` semantics (a repeated key keeps its first position and takes the last value). -/
namespace Laze

/-- `ModuleInfo { deps }` of one module -/
def moduleDeps (m : Module) : List Name := m.selects.map Dep.name

/-- `module_info`: one entry per module of the build order, keyed by module name -/
def moduleInfoOf (r : Resolved) (order : List Name) : List (Name × List Name) :=
  order.foldl (fun acc n => match r.module? n with
    | some m => insertKeyed acc n (moduleDeps m)
    | none => acc) []

/-- the build order `configure_build` computes for a resolved selection (as `configureWithEnv`/`configureOrdered` do) -/
def buildOrderOf (st : Settings) (b : Bag) (builder : Name) (app : Module) (cli : Cli) (r : Resolved) : Option (List Name) :=
  match moduleEnvs r (globalEnv st b builder app r cli) r.modules with
  | .error _ => none
  | .ok menvs => buildOrder (menvs.map ModEnv.deps)

structure Insight where
  builder : Name
  app : Name
  outfile : String
  modules : List (Name × List Name)
  deriving Repr, DecidableEq

/-- the record of a configured build with output file `out` and selection `r` -/
def insightOfResolved (st : Settings) (b : Bag) (cli : Cli) (c : Context) (m : Module) (out : String) (r : Resolved) :
    Option Insight :=
  (buildOrderOf st b c.name m cli r).map (fun order =>
    { builder := c.name, app := m.name, outfile := out, modules := moduleInfoOf r order })

/-- the insight record of one tuple: present iff the tuple is configured -/
def insightOfTuple (ev : EvalExpr) (st : Settings) (b : Bag) (cli : Cli) (c : Context) (m : Module) : Option Insight :=
  match configureBuild ev st b c.name m cli with
  | .ok (.build i) =>
    match resolveTop b c.name m cli with
    | .error _ => none
    | .ok rs => insightOfResolved st b cli c m i.out (resolvedOf b c.name (appClone m c.name cli) rs)
  | _ => none

/-- `Insights::from_builds`: `builds.entry(builder).or_default().insert(binary, info)` -/
def insertInsight (acc : List (Name × List (Name × Insight))) (i : Insight) : List (Name × List (Name × Insight)) :=
  match acc.find? (·.1 == i.builder) with
  | some (_, apps) => insertKeyed acc i.builder (insertKeyed apps i.app i)
  | none => acc ++ [(i.builder, [(i.app, i)])]

def insightsOf (l : List Insight) : List (Name × List (Name × Insight)) := l.foldl insertInsight []

/-- what `laze build --info-export` writes for a command line (the nested maps, in order) -/
def insights (ev : EvalExpr) (h : String → Nat) (st : Settings) (b : Bag) (a : Args) :
    Except GErr (List (Name × List (Name × Insight))) := do
  let tuples ← buildTuples h b a
  return insightsOf (tuples.filterMap (fun (c, m) => insightOfTuple ev st b a.cli c m))

end Laze
