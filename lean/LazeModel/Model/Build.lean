import LazeModel.Model.ModuleEnv
/-! `src/build.rs` `Build::new` / `resolve_selects` and `ContextBag::merge_provides`: the world the
    resolver sees for one (builder, app) pair, and the top-level resolution. -/
namespace Laze

/-! ### merged `provided` tables (`ContextBag::add_module` + `merge_provides`) -/

abbrev PTable := List (Name × List Name)

def PTable.get (t : PTable) (f : Name) : List Name := ((t.find? (·.1 == f)).map (·.2)).getD []

def PTable.add (t : PTable) (f : Name) (n : Name) : PTable :=
  if t.any (·.1 == f) then t.map (fun e => if e.1 == f then (f, if e.2.contains n then e.2 else e.2 ++ [n]) else e)
  else t ++ [(f, [n])]

/-- the providers registered by `add_module` for the modules of one context, in insertion order -/
def Context.ownProvided (c : Context) : PTable :=
  c.modules.foldl (fun t m => (m.provides.getD []).foldl (fun t p => PTable.add t p m.name) t) []

/-- `union_with_key`: the context's own providers first, then the parent's -/
def PTable.union (own parent : PTable) : PTable :=
  own.map (fun e => (e.1, dedup (e.2 ++ parent.get e.1))) ++ parent.filter (fun e => !(own.any (·.1 == e.1)))

/-- drop inherited providers that this context shadows with a module that does not provide the name -/
def Context.filterProvided (c : Context) (t : PTable) : PTable :=
  t.map (fun e => (e.1, e.2.filter (fun q => match c.module? q with
    | some m => (m.provides.getD []).contains e.1
    | none => true)))

/-- `merge_provides` along a chain `[c, parent, …, root]` -/
def providedUp : List Context → PTable
  | [] => []
  | [root] => root.ownProvided
  | c :: rest => c.filterProvided (c.ownProvided.union (providedUp rest))

def Bag.provided (b : Bag) (c : Name) : PTable := providedUp (b.chainCtx c)

/-! ### the build (`Build::new`) and the resolver's world -/

structure Cli where
  select : Option (List Dep) := none
  disable : Option (List Name) := none
  env : Option Env := none
  deriving Repr

/-- the app clone: `cli ++ app.selects ++ [Hard context::<builder>]` -/
def appClone (app : Module) (builder : Name) (cli : Cli) : Module :=
  { app with selects := (cli.select.getD []) ++ app.selects ++ [.hard ("context::" ++ builder)] }

def buildWorld (b : Bag) (builder : Name) (app' : Module) : World :=
  { lookup := fun n => if n == app'.name then some app'.toMod else (b.resolveModule builder n).map Module.toMod
    providers := fun f => (b.provided builder).get f }

def initialDisabled (b : Bag) (builder : Name) (cli : Cli) : List Name :=
  dedup (b.collectDisabled builder ++ cli.disable.getD [])

def allModuleNames (b : Bag) : Nat := (b.contexts.map (·.modules.length)).foldl (· + ·) 0

def resolveTop (b : Bag) (builder : Name) (app : Module) (cli : Cli) : Except RErr RState :=
  let app' := appClone app builder cli
  let s0 : RState := ⟨[], [], (initialDisabled b builder cli).map (fun d => (d, none)), []⟩
  resolveDeep (buildWorld b builder app') (allModuleNames b + 2) app'.toMod s0

/-- the selected modules as `Module`s (the app clone for the app's name) -/
def resolvedOf (b : Bag) (builder : Name) (app' : Module) (s : RState) : Resolved :=
  { modules := s.sel.filterMap (fun n => if n == app'.name then some app' else b.resolveModule builder n)
    providers := s.providedBy.foldl (fun t e => PTable.add t e.1 e.2) [] }

end Laze
