import LazeModel.Generated.Containers
import LazeModel.Model.Env
/-! C09 — generation is deterministic: (1) the reviewed table of unordered containers and the
    obligation that the inventory regenerated from /repo/src on every run is covered by it;
    (2) order-insensitivity theorems for the iterations the table classifies as `pointwise`
    are in C09_perm.lean. -/
namespace Laze.C09
open Laze

inductive Class where
  | lookupOnly     -- only membership / get / insert: iteration order cannot be observed
  | pointwise      -- iterated, but every key is treated independently of the others
  | unused
  deriving Repr, DecidableEq

/-- reviewed classification of every unordered container (file, enclosing item, flavour) -/
def reviewed : List ((String × String × String) × Class × String) := [
  (("build.rs", "fn new", "im_rc::HashMap"), Class.lookupOnly, "resolver sets/maps: contains/get/entry only; iterated only for trace text and to fill the providers IndexMap, which is read by get"),
  (("build.rs", "fn new", "im_rc::HashSet"), Class.lookupOnly, "resolver sets/maps: contains/get/entry only; iterated only for trace text and to fill the providers IndexMap, which is read by get"),
  (("build.rs", "struct ResolverState", "im_rc::HashMap"), Class.lookupOnly, "resolver sets/maps: contains/get/entry only; iterated only for trace text and to fill the providers IndexMap, which is read by get"),
  (("build.rs", "struct ResolverState", "im_rc::HashSet"), Class.lookupOnly, "resolver sets/maps: contains/get/entry only; iterated only for trace text and to fill the providers IndexMap, which is read by get"),
  (("data.rs", "fn convert_module", "std::collections::HashMap"), Class.lookupOnly, "defaults maps by document index: insert/get"),
  (("data.rs", "fn convert_tasks", "std::collections::HashMap"), Class.pointwise, "task tables: iterated to insert into an IndexMap (final table is pointwise determined; only BuildInfo.tasks order depends on it, which is not in the ninja/info files) and for ::task:: provides/conflicts (per-name tables)"),
  (("data.rs", "fn get_defaults", "std::collections::HashMap"), Class.lookupOnly, "defaults maps by document index: insert/get"),
  (("data.rs", "fn process_removes", "std::collections::HashSet"), Class.lookupOnly, "contains only"),
  (("data.rs", "struct YamlContext", "im::HashMap"), Class.pointwise, "var_options: get per variable; iteration only in the from: loop (result pointwise, error choice only) and when inheriting (collect into a map)"),
  (("data.rs", "struct YamlContext", "std::collections::HashMap"), Class.pointwise, "tasks: see convert_tasks"),
  (("data.rs", "struct YamlFile", "std::collections::HashMap"), Class.lookupOnly, "defaults: get by the keys module and app"),
  (("data.rs", "struct YamlModule", "std::collections::HashMap"), Class.pointwise, "tasks: see convert_tasks"),
  (("data.rs", "struct YamlRule", "std::collections::HashMap"), Class.unused, "options: never read"),
  (("download.rs", "fn handle_module", "im::HashMap"), Class.lookupOnly, "flattened env: get/contains_key (and collect into another map)"),
  (("download.rs", "fn patch", "im::HashMap"), Class.lookupOnly, "flattened env: get/contains_key (and collect into another map)"),
  (("download.rs", "fn render", "im::HashMap"), Class.lookupOnly, "flattened env: get/contains_key (and collect into another map)"),
  (("model/context.rs", "fn collect_tasks", "im::HashMap"), Class.lookupOnly, "flattened env: get/contains_key (and collect into another map)"),
  (("model/context.rs", "fn task_handle_required_vars", "im::HashMap"), Class.lookupOnly, "flattened env: get/contains_key (and collect into another map)"),
  (("model/context.rs", "struct Context", "im::HashMap"), Class.pointwise, "provided: per-feature IndexSets; merge_provides maps every entry independently"),
  (("model/context.rs", "struct Context", "std::collections::HashMap"), Class.pointwise, "tasks: see convert_tasks"),
  (("model/context_bag.rs", "fn add_module", "im::HashMap"), Class.pointwise, "provided: entry(name).insert"),
  (("model/context_bag.rs", "struct ContextBag", "std::collections::HashMap"), Class.lookupOnly, "context_map: name -> index"),
  (("model/module.rs", "fn get_imports_recursive", "std::collections::HashSet"), Class.lookupOnly, "seen set: contains/insert"),
  (("model/module.rs", "fn new", "std::collections::HashMap"), Class.pointwise, "tasks: see convert_tasks"),
  (("model/module.rs", "struct Module", "std::collections::HashMap"), Class.pointwise, "tasks: see convert_tasks"),
  (("model/rule.rs", "fn to_ninja", "im::HashMap"), Class.lookupOnly, "flattened env: get/contains_key (and collect into another map)"),
  (("model/rule.rs", "struct Rule", "std::collections::HashMap"), Class.unused, "options: never read"),
  (("model/shared.rs", "fn apply_env", "im::HashMap"), Class.lookupOnly, "flattened env: get/contains_key (and collect into another map)"),
  (("model/shared.rs", "fn expand", "im::HashMap"), Class.lookupOnly, "flattened env: get/contains_key (and collect into another map)"),
  (("model/task.rs", "fn _with_env", "im::HashMap"), Class.lookupOnly, "flattened env: get/contains_key (and collect into another map)"),
  (("model/task.rs", "fn expand_export", "im::HashMap"), Class.lookupOnly, "flattened env: get/contains_key (and collect into another map)"),
  (("model/task.rs", "fn with_env", "im::HashMap"), Class.lookupOnly, "flattened env: get/contains_key (and collect into another map)"),
  (("model/task.rs", "fn with_env_eval", "im::HashMap"), Class.lookupOnly, "flattened env: get/contains_key (and collect into another map)"),
  (("nested_env/expand.rs", "fn expand", "im::HashMap"), Class.lookupOnly, "flattened env: get/contains_key (and collect into another map)"),
  (("nested_env/expand.rs", "fn expand_eval", "im::HashMap"), Class.lookupOnly, "flattened env: get/contains_key (and collect into another map)"),
  (("nested_env/expand.rs", "fn expand_keep_escapes", "im::HashMap"), Class.lookupOnly, "flattened env: get/contains_key (and collect into another map)"),
  (("nested_env/expand.rs", "fn expand_recursive", "im::HashMap"), Class.lookupOnly, "flattened env: get/contains_key (and collect into another map)"),
  (("nested_env/mod.rs", "fn expand_envkey", "im::HashMap"), Class.lookupOnly, "flattened env: get/contains_key (and collect into another map)"),
  (("nested_env/mod.rs", "fn flatten", "im::HashMap"), Class.lookupOnly, "flattened env: get/contains_key (and collect into another map)"),
  (("nested_env/mod.rs", "fn flatten_with_opts", "im::HashMap"), Class.lookupOnly, "flattened env: get/contains_key (and collect into another map)"),
  (("nested_env/mod.rs", "fn flatten_with_opts_option", "im::HashMap"), Class.lookupOnly, "flattened env: get/contains_key (and collect into another map)"),
  (("nested_env/mod.rs", "fn new", "im::HashMap"), Class.pointwise, "Env: merge/flatten/expand treat every key independently (theorems merge_get, merge_perm)"),
  (("nested_env/mod.rs", "struct Env", "im::HashMap"), Class.pointwise, "Env: merge/flatten/expand treat every key independently (theorems merge_get, merge_perm)"),
  (("ninja/mod.rs", "fn expand", "im::HashMap"), Class.lookupOnly, "flattened env: get/contains_key (and collect into another map)")
]

/-- translator obligation: every unordered container found in the source today is in the reviewed
    table. A new HashMap/HashSet (or a reviewed ordered container turned unordered) breaks this. -/
theorem containers_reviewed :
    Generated.containers.all (fun c => reviewed.any (fun r => r.1 == c)) = true := by
  decide +kernel

/-- no container is classified order-sensitive (there is no such class); non-vacuity: the table is non-empty -/
theorem reviewed_nonempty : reviewed.length > 0 := by decide

end Laze.C09
