import LazeModel.Model.Gen
/-! Basic facts about `configureBuild`, as a demonstration of the loop-free style of
    `LazeModel/Model/Gen.lean`: every proof is a chain of `unfold` + `split`. -/
namespace Laze.GenBasic
open Laze

/-- `mkBuildInfo` is the only place where a `BuildInfo` is made -/
theorem finishBuild_modules {ev b builder app r rules gflat outfile globals ls mflats i}
    (h : finishBuild ev b builder app r rules gflat outfile globals ls mflats = .ok i) :
    i.modules = r.modules.map (·.name) := by
  unfold finishBuild at h
  split at h
  · cases h
  · split at h
    · cases h
    · split at h
      · cases h
      · cases h; rfl

theorem configureOrdered_modules {ev st b builder app r rules opts gflat outfile menvs i}
    (h : configureOrdered ev st b builder app r rules opts gflat outfile menvs = .ok (.build i)) :
    i.modules = r.modules.map (·.name) := by
  unfold configureOrdered at h
  split at h
  · cases h
  · split at h
    · cases h
    · split at h
      · cases h
      · rename_i hf
        cases h
        exact finishBuild_modules hf

theorem configureWithEnv_modules {ev st b builder app r genv gflat i}
    (h : configureWithEnv ev st b builder app r genv gflat = .ok (.build i)) :
    i.modules = r.modules.map (·.name) := by
  unfold configureWithEnv at h
  split at h
  · cases h
  · split at h
    · cases h
    · exact configureOrdered_modules h

theorem configureSelection_modules {ev st b builder app cli r i}
    (h : configureSelection ev st b builder app cli r = .ok (.build i)) :
    i.modules = r.modules.map (·.name) := by
  unfold configureSelection at h
  split at h
  · cases h
  · exact configureWithEnv_modules h

theorem configureResolved_modules {ev st b builder app cli rs i}
    (h : configureResolved ev st b builder app cli rs = .ok (.build i)) :
    i.modules = (resolvedOf b builder (appClone app builder cli) rs).modules.map (·.name) :=
  configureSelection_modules h

/-- a build only exists for a successful resolution, and its module list is the resolver's selection -/
theorem built_modules {ev st b builder app cli i}
    (h : configureBuild ev st b builder app cli = .ok (.build i)) :
    ∃ rs, resolveTop b builder app cli = .ok rs ∧
      i.modules = (resolvedOf b builder (appClone app builder cli) rs).modules.map (·.name) := by
  unfold configureBuild at h
  split at h
  · cases h
  · split at h
    · cases h
    · split at h
      · cases h
      · rename_i rs hrs
        exact ⟨rs, hrs, configureResolved_modules h⟩

theorem unresolved_not_built {ev st b builder app cli e}
    (h : resolveTop b builder app cli = .error e) :
    ∀ i, configureBuild ev st b builder app cli ≠ .ok (.build i) := by
  intro i hb
  obtain ⟨rs, hrs, _⟩ := built_modules hb
  rw [h] at hrs
  cases hrs

/-! ### two loop lemmas (the shape later theorems will need) -/

/-- the task loop over an appended list is the loop over the first part, then over the second -/
theorem insertTasks_append {ev flat r} (l₁ l₂ : List (String × Task)) (res : List (String × TaskAvail)) :
    insertTasks ev flat r (l₁ ++ l₂) res =
      (match insertTasks ev flat r l₁ res with
       | .error e => .error e
       | .ok res' => insertTasks ev flat r l₂ res') := by
  induction l₁ generalizing res with
  | nil => rfl
  | cons nt ts ih =>
    obtain ⟨name, t⟩ := nt
    simp only [List.cons_append, insertTasks]
    split
    · rfl
    · exact ih _

/-- (was `importedDepFiles_ok`: "the files are only available when every build dep has registered
    files" — no longer true since a dep without an entry in the file table is skipped, e.g.
    `importedDepFiles [] ["d"] [] = .ok []`.)  The loop can no longer fail. -/
theorem importedDepFiles_total (files : FileTable) (l : List Name) (acc : List String) :
    ∃ out, importedDepFiles files l acc = .ok out := by
  induction l generalizing acc with
  | nil => exact ⟨acc, rfl⟩
  | cons x xs ih =>
    unfold importedDepFiles
    split
    · exact ih _
    · exact ih _

example : importedDepFiles [] ["d"] [] = .ok [] := by decide

/-- a context module contributes no statements and no flattened env -/
theorem moduleStep_contextModule {ev st builder app r rules opts globals m menv bdeps ls}
    (h : m.srcdir = none) :
    moduleStep ev st builder app r rules opts globals m menv bdeps ls = .ok (ls, none) := by
  unfold moduleStep; rw [h]

end Laze.GenBasic
