import LazeModel.Generated.PanicSites
import LazeModel.Model.Select
/-! C15 — malformed projects are rejected with a diagnostic, never a crash: (1) the reviewed table of
    potential panic sites (`unwrap`, `expect`, `panic!`, asserts, non-literal index/slice expressions)
    and the obligation that the inventory regenerated from /repo/src on every run is covered by it —
    a new site, or one more `unwrap` in a reviewed function, breaks it; (2) totality theorems about
    the model are in C15_total.lean. -/
namespace Laze.C15
open Laze

inductive Class where
  | proved           -- the model has the same failure point and a theorem shows it unreachable
  | guarded          -- the preceding lines establish the index / Some
  | builderComplete  -- derive_builder `.build().unwrap()` with every required field set
  | environment      -- depends on the process environment only (non-UTF-8 cwd/argv, missing current_exe)
  | outOfScope       -- subcommands not covered by the properties (new, completion, manpages, imports)
  deriving Repr, DecidableEq

/-- reviewed classification of every potential panic site: (file, fn, kind, count) -/
def reviewed : List ((String × String × String × Nat) × Class × String) := [
  (("build.rs", "state_pop", "expect", 1), Class.proved, "state_pop on an empty stack: C12.l1_refines_l2 / stack_balanced (every pop is preceded by the push of the same call)"),
  (("cli/completer.rs", "app_completer", "unwrap", 1), Class.outOfScope, "subcommands/features outside the properties: completion, imports, new, manpages"),
  (("cli/completer.rs", "builder_completer", "unwrap", 1), Class.outOfScope, "subcommands/features outside the properties: completion, imports, new, manpages"),
  (("cli/completer.rs", "module_completer", "unwrap", 1), Class.outOfScope, "subcommands/features outside the properties: completion, imports, new, manpages"),
  (("cli/completer.rs", "new", "expect", 1), Class.outOfScope, "subcommands/features outside the properties: completion, imports, new, manpages"),
  (("cli/completer.rs", "new", "unwrap", 1), Class.outOfScope, "subcommands/features outside the properties: completion, imports, new, manpages"),
  (("cli/completer.rs", "task_completer", "unwrap", 1), Class.outOfScope, "subcommands/features outside the properties: completion, imports, new, manpages"),
  (("data.rs", "convert_context", "unwrap", 2), Class.guarded, "index/Option established by the preceding lines (parent_index/index/context_id set in finalize/add_*; filename.parent(); relpath/srcdir/filename set by init_module/load_all; slices after starts_with/first-byte tests; constant version string)"),
  (("data.rs", "convert_module", "unwrap", 4), Class.guarded, "index/Option established by the preceding lines (parent_index/index/context_id set in finalize/add_*; filename.parent(); relpath/srcdir/filename set by init_module/load_all; slices after starts_with/first-byte tests; constant version string)"),
  (("data.rs", "dependency_from_string", "index", 1), Class.guarded, "index/Option established by the preceding lines (parent_index/index/context_id set in finalize/add_*; filename.parent(); relpath/srcdir/filename set by init_module/load_all; slices after starts_with/first-byte tests; constant version string)"),
  (("data.rs", "dependency_from_string_if", "index", 1), Class.guarded, "index/Option established by the preceding lines (parent_index/index/context_id set in finalize/add_*; filename.parent(); relpath/srcdir/filename set by init_module/load_all; slices after starts_with/first-byte tests; constant version string)"),
  (("data.rs", "deserialize_version_checked", "unwrap", 1), Class.guarded, "index/Option established by the preceding lines (parent_index/index/context_id set in finalize/add_*; filename.parent(); relpath/srcdir/filename set by init_module/load_all; slices after starts_with/first-byte tests; constant version string)"),
  (("data.rs", "get_defaults", "unwrap", 7), Class.guarded, "index/Option established by the preceding lines (parent_index/index/context_id set in finalize/add_*; filename.parent(); relpath/srcdir/filename set by init_module/load_all; slices after starts_with/first-byte tests; constant version string)"),
  (("data.rs", "init_module", "unwrap", 1), Class.guarded, "`filename.parent()` of a lazefile path that was just read (it has a file name, hence a parent); the two unwraps on `strip_prefix(import_root)` were a real panic for a file included from outside its import root (33edd4d)"),
  (("data.rs", "load", "index", 1), Class.guarded, "index/Option established by the preceding lines (parent_index/index/context_id set in finalize/add_*; filename.parent(); relpath/srcdir/filename set by init_module/load_all; slices after starts_with/first-byte tests; constant version string)"),
  (("data.rs", "load", "unwrap", 3), Class.guarded, "index/Option established by the preceding lines (parent_index/index/context_id set in finalize/add_*; filename.parent(); relpath/srcdir/filename set by init_module/load_all; slices after starts_with/first-byte tests; constant version string)"),
  (("data.rs", "new_import", "unwrap", 1), Class.outOfScope, "subcommands/features outside the properties: completion, imports, new, manpages"),
  (("data.rs", "process_removes", "index", 2), Class.guarded, "index/Option established by the preceding lines (parent_index/index/context_id set in finalize/add_*; filename.parent(); relpath/srcdir/filename set by init_module/load_all; slices after starts_with/first-byte tests; constant version string)"),
  (("data/import/download.rs", "handle", "unwrap", 5), Class.outOfScope, "subcommands/features outside the properties: completion, imports, new, manpages"),
  (("data/import/local.rs", "handle", "unwrap", 1), Class.guarded, "`read_link` right after `is_symlink`; the three input-dependent unwraps (file_name of the import path, diff_utf8_paths, parent of the link path with an absolute dldir) were real panics found by the C15 campaign and are errors since 611d4e8 / 33edd4d"),
  (("download.rs", "patch", "unwrap", 4), Class.builderComplete, "derive_builder .build().unwrap() with every required field set in the same expression; Option fields set by the loader"),
  (("download.rs", "render", "unwrap", 2), Class.builderComplete, "derive_builder .build().unwrap() with every required field set in the same expression; Option fields set by the loader"),
  (("download.rs", "srcdir", "unwrap", 1), Class.guarded, "index/Option established by the preceding lines (parent_index/index/context_id set in finalize/add_*; filename.parent(); relpath/srcdir/filename set by init_module/load_all; slices after starts_with/first-byte tests; constant version string)"),
  (("generate.rs", "configure_build", "panic", 1), Class.proved, "fields set by the loader (context_id, index, relpath, defined_in, env), build-dir inserted as Single, complete builders, modules.get(dep_name): C15.configureBuild_no_panic (every node of the build order is a selected module)"),
  (("generate.rs", "configure_build", "unwrap", 15), Class.proved, "fields set by the loader (context_id, index, relpath, defined_in, env), build-dir inserted as Single, complete builders, modules.get(dep_name): C15.configureBuild_no_panic (every node of the build order is a selected module)"),
  (("generate.rs", "execute", "expect", 1), Class.environment, "current_exe / cwd / argv not UTF-8, clap defaults present, OnceLock set once"),
  (("generate.rs", "execute", "index", 1), Class.environment, "current_exe / cwd / argv not UTF-8, clap defaults present, OnceLock set once"),
  (("generate.rs", "execute", "unwrap", 3), Class.environment, "current_exe / cwd / argv not UTF-8, clap defaults present, OnceLock set once"),
  (("generate.rs", "get_rule", "unwrap", 2), Class.guarded, "index/Option established by the preceding lines (parent_index/index/context_id set in finalize/add_*; filename.parent(); relpath/srcdir/filename set by init_module/load_all; slices after starts_with/first-byte tests; constant version string)"),
  (("insights.rs", "from", "unwrap", 1), Class.guarded, "index/Option established by the preceding lines (parent_index/index/context_id set in finalize/add_*; filename.parent(); relpath/srcdir/filename set by init_module/load_all; slices after starts_with/first-byte tests; constant version string)"),
  (("main.rs", "collect_tasks", "expect", 1), Class.environment, "current_exe / cwd / argv not UTF-8, clap defaults present, OnceLock set once"),
  (("main.rs", "create_manpage", "expect", 1), Class.outOfScope, "subcommands/features outside the properties: completion, imports, new, manpages"),
  (("main.rs", "create_manpage", "unwrap", 10), Class.outOfScope, "subcommands/features outside the properties: completion, imports, new, manpages"),
  (("main.rs", "ninja_run", "unwrap", 1), Class.builderComplete, "derive_builder .build().unwrap() with every required field set in the same expression; Option fields set by the loader"),
  (("main.rs", "try_main", "expect", 1), Class.environment, "current_exe / cwd / argv not UTF-8, clap defaults present, OnceLock set once"),
  (("main.rs", "try_main", "unwrap", 4), Class.environment, "current_exe / cwd / argv not UTF-8, clap defaults present, OnceLock set once"),
  (("model/context.rs", "count_parents", "index", 1), Class.guarded, "index/Option established by the preceding lines (parent_index/index/context_id set in finalize/add_*; filename.parent(); relpath/srcdir/filename set by init_module/load_all; slices after starts_with/first-byte tests; constant version string)"),
  (("model/context.rs", "get_parent", "index", 1), Class.guarded, "index/Option established by the preceding lines (parent_index/index/context_id set in finalize/add_*; filename.parent(); relpath/srcdir/filename set by init_module/load_all; slices after starts_with/first-byte tests; constant version string)"),
  (("model/context.rs", "new_build_context", "unwrap", 1), Class.guarded, "index/Option established by the preceding lines (parent_index/index/context_id set in finalize/add_*; filename.parent(); relpath/srcdir/filename set by init_module/load_all; slices after starts_with/first-byte tests; constant version string)"),
  (("model/context.rs", "resolve_module", "index", 1), Class.guarded, "index/Option established by the preceding lines (parent_index/index/context_id set in finalize/add_*; filename.parent(); relpath/srcdir/filename set by init_module/load_all; slices after starts_with/first-byte tests; constant version string)"),
  (("model/context_bag.rs", "add_context_or_builder", "index", 1), Class.guarded, "index/Option established by the preceding lines (parent_index/index/context_id set in finalize/add_*; filename.parent(); relpath/srcdir/filename set by init_module/load_all; slices after starts_with/first-byte tests; constant version string)"),
  (("model/context_bag.rs", "add_context_or_builder", "unwrap", 1), Class.guarded, "index/Option established by the preceding lines (parent_index/index/context_id set in finalize/add_*; filename.parent(); relpath/srcdir/filename set by init_module/load_all; slices after starts_with/first-byte tests; constant version string)"),
  (("model/context_bag.rs", "add_module", "index", 1), Class.guarded, "index/Option established by the preceding lines (parent_index/index/context_id set in finalize/add_*; filename.parent(); relpath/srcdir/filename set by init_module/load_all; slices after starts_with/first-byte tests; constant version string)"),
  (("model/context_bag.rs", "add_module", "unwrap", 2), Class.guarded, "defined_in of the module being added: set by init_module for every module that comes from a file (the third unwrap, on the OTHER module of a name clash, was a real panic for the implicit default context's module: 165d73e)"),
  (("model/context_bag.rs", "context_by_id", "index", 1), Class.guarded, "index/Option established by the preceding lines (parent_index/index/context_id set in finalize/add_*; filename.parent(); relpath/srcdir/filename set by init_module/load_all; slices after starts_with/first-byte tests; constant version string)"),
  (("model/context_bag.rs", "finalize", "index", 7), Class.guarded, "index/Option established by the preceding lines (parent_index/index/context_id set in finalize/add_*; filename.parent(); relpath/srcdir/filename set by init_module/load_all; slices after starts_with/first-byte tests; constant version string)"),
  (("model/context_bag.rs", "finalize", "unwrap", 4), Class.guarded, "index/Option established by the preceding lines (parent_index/index/context_id set in finalize/add_*; filename.parent(); relpath/srcdir/filename set by init_module/load_all; slices after starts_with/first-byte tests; constant version string)"),
  (("model/context_bag.rs", "get_by_name", "index", 1), Class.guarded, "index/Option established by the preceding lines (parent_index/index/context_id set in finalize/add_*; filename.parent(); relpath/srcdir/filename set by init_module/load_all; slices after starts_with/first-byte tests; constant version string)"),
  (("model/context_bag.rs", "is_ancestor_in_list", "unwrap", 2), Class.guarded, "index/Option established by the preceding lines (parent_index/index/context_id set in finalize/add_*; filename.parent(); relpath/srcdir/filename set by init_module/load_all; slices after starts_with/first-byte tests; constant version string)"),
  (("model/context_bag.rs", "merge_provides", "index", 4), Class.guarded, "index/Option established by the preceding lines (parent_index/index/context_id set in finalize/add_*; filename.parent(); relpath/srcdir/filename set by init_module/load_all; slices after starts_with/first-byte tests; constant version string)"),
  (("model/context_bag.rs", "merge_provides", "unwrap", 2), Class.guarded, "index/Option established by the preceding lines (parent_index/index/context_id set in finalize/add_*; filename.parent(); relpath/srcdir/filename set by init_module/load_all; slices after starts_with/first-byte tests; constant version string)"),
  (("model/module.rs", "fmt", "index", 1), Class.guarded, "index/Option established by the preceding lines (parent_index/index/context_id set in finalize/add_*; filename.parent(); relpath/srcdir/filename set by init_module/load_all; slices after starts_with/first-byte tests; constant version string)"),
  (("model/rule.rs", "to_ninja", "unwrap", 1), Class.builderComplete, "derive_builder .build().unwrap() with every required field set in the same expression; Option fields set by the loader"),
  (("model/task.rs", "execute", "unwrap", 2), Class.environment, "EXIT_ON_SIGINT initialised in try_main"),
  (("nested_env/expand.rs", "expand_recursive", "index", 6), Class.proved, "byte offsets of ASCII markers found by str::find / guarded by i+1<len, i==0||..: model of expand/eval has no panic result (C13.expand_no_panic, fuel_suffices)"),
  (("nested_env/expr.rs", "eval_recursive", "index", 3), Class.proved, "byte offsets of ASCII markers found by str::find / guarded by i+1<len, i==0||..: model of expand/eval has no panic result (C13.expand_no_panic, fuel_suffices)"),
  (("nested_env/mod.rs", "flatten_with_opts", "index", 1), Class.guarded, "index/Option established by the preceding lines (parent_index/index/context_id set in finalize/add_*; filename.parent(); relpath/srcdir/filename set by init_module/load_all; slices after starts_with/first-byte tests; constant version string)"),
  (("new.rs", "from_matches", "unwrap", 7), Class.outOfScope, "subcommands/features outside the properties: completion, imports, new, manpages"),
  (("ninja/mod.rs", "alias", "unwrap", 1), Class.builderComplete, "derive_builder .build().unwrap() with every required field set in the same expression; Option fields set by the loader"),
  (("ninja/mod.rs", "alias_multiple", "unwrap", 1), Class.builderComplete, "derive_builder .build().unwrap() with every required field set in the same expression; Option fields set by the loader"),
  (("ninja/mod.rs", "generate_compile_commands", "unwrap", 1), Class.builderComplete, "derive_builder .build().unwrap() with every required field set in the same expression; Option fields set by the loader"),
  (("utils.rs", "from", "unwrap", 1), Class.guarded, "drain(..).last() on an export map: deserialize_export rejects maps with len != 1")
]

/-- translator obligation: every potential panic site found in the source today is in the reviewed table -/
theorem panic_sites_reviewed :
    Generated.panicSites.all (fun c => reviewed.any (fun r => r.1 == c)) = true := by
  decide +kernel

theorem reviewed_nonempty : reviewed.length > 0 := by decide

end Laze.C15
