import LazeModel.Model.Cache
/-! C08 — the build-file cache is sound.

    "After any sequence of runs, build-file edits, failed runs and interruptions, a run that is
    served from the cache leaves a ninja file that a run with the same arguments on the same tree
    with an empty build directory would produce. The cache is never accepted after a build file,
    the binary, the mode/start directory, --select, --disable, --define or --partition changed, and
    an unchanged project with an identical command line is served from it."

    * Part 1: the one-step invariant `Inv` of the transition system `Laze.Cache.next`.
    * Part 2/3: `Inv init`, histories, `inv_reachable`.
    * Part 4: `hit_sound`, `cache_safe`, `hit_fresh` (the file equals what a fresh run produces).
    * Part 5: `never_accepted_after_key_change`, `unknown_names_never_hit`, `never_accepted_after_edit`.
    * Part 6: `unchanged_is_served` (liveness of the cache, for command lines whose names are known),
      `complete_run_hit_eq_namesKnown`.
    * Part 7: evaluated examples (complete / edited / killed / failing runs).
    * Part 8: `nextOld` — the step order before the repair — violates `hit_sound`. -/
namespace Laze.C08
open Laze Laze.Cache

/-! ## Part 1 — the invariant and its preservation -/

def stampsMatch (st : Stamps) (t : Cache.Tree) : Prop := ∀ p ∈ st, t.stamp p.1 = p.2
def current (sn : Snap) (t : Cache.Tree) : Prop := ∀ p ∈ sn, t.ver p.1 = p.2
def below (st : Stamps) (t : Cache.Tree) : Prop := ∀ p ∈ st, p.2 < t.clock
def covered (sn : Snap) (st : Stamps) : Prop := ∀ p ∈ sn, ∃ q ∈ st, q.1 = p.1

theorem stampsMatchB_iff (st : Stamps) (t : Cache.Tree) : stampsMatchB st t = true ↔ stampsMatch st t := by
  simp [stampsMatchB, stampsMatch]

instance (st : Stamps) (t : Cache.Tree) : Decidable (stampsMatch st t) :=
  decidable_of_iff _ (stampsMatchB_iff st t)

/-- a (snapshot, stamps) pair that is safe to vouch for: if the stamps still match, the content is
    still what was parsed -/
structure Faithful (sn : Snap) (st : Stamps) (t : Cache.Tree) : Prop where
  below : below st t
  cov : covered sn st
  cur : stampsMatch st t → current sn t

def noRecord : CacheFile → Prop
  | .record .. => False
  | _ => True

def procInv (s : State) : Prop :=
  match s.proc with
  | .idle => True
  | .parsing _ _ sn => current sn s.tree
  | .statting _ sn todo st =>
      current sn s.tree ∧ stampsMatch st s.tree ∧ below st s.tree ∧ (∀ p ∈ sn, p.1 ∈ todo ∨ ∃ q ∈ st, q.1 = p.1)
  | .statted _ sn st => Faithful sn st s.tree
  | .removed _ sn st => Faithful sn st s.tree ∧ noRecord s.cache
  | .created _ sn st => Faithful sn st s.tree ∧ noRecord s.cache
  | .written _ sn st => Faithful sn st s.tree ∧ noRecord s.cache
  | .flushed k sn st => Faithful sn st s.tree ∧ noRecord s.cache ∧ s.ninja = .complete sn k

structure Inv (s : State) : Prop where
  treeBelow : ∀ f, s.tree.stamp f < s.tree.clock
  cacheOk : ∀ k st sn, s.cache = .record k st sn →
      Faithful sn st s.tree ∧ (stampsMatch st s.tree → s.ninja = .complete sn k)
  procOk : procInv s

theorem faithful_edit {sn : Snap} {st : Stamps} {t : Cache.Tree} (f : File)
    (_tb : ∀ g, t.stamp g < t.clock) (h : Faithful sn st t) : Faithful sn st (t.edit f) := by
  refine ⟨fun p hp => ?_, h.cov, fun hm => ?_⟩
  · have := h.below p hp; simp [Cache.Tree.edit]; omega
  · -- f cannot be a key of st, otherwise its stamp (= old clock) would equal a recorded stamp < clock
    have hf : ∀ q ∈ st, q.1 ≠ f := by
      intro q hq hqf
      have h1 := hm q hq
      have h2 := h.below q hq
      simp [Cache.Tree.edit, hqf] at h1
      omega
    have hm' : stampsMatch st t := by
      intro q hq
      have := hm q hq
      simp [Cache.Tree.edit, hf q hq] at this
      exact this
    intro p hp
    obtain ⟨q, hq, hqp⟩ := h.cov p hp
    have : p.1 ≠ f := by rw [← hqp]; exact hf q hq
    simp [Cache.Tree.edit, this]
    exact h.cur hm' p hp

theorem match_edit {st : Stamps} {t : Cache.Tree} (f : File) (hb : below st t)
    (hm : stampsMatch st (t.edit f)) : stampsMatch st t ∧ ∀ q ∈ st, q.1 ≠ f := by
  have hf : ∀ q ∈ st, q.1 ≠ f := by
    intro q hq hqf
    have h1 := hm q hq
    have h2 := hb q hq
    simp [Cache.Tree.edit, hqf] at h1
    omega
  refine ⟨fun q hq => ?_, hf⟩
  have := hm q hq
  simp [Cache.Tree.edit, hf q hq] at this
  exact this

/-- the invariant is preserved by every event, edits being excluded only inside the parse→stat window -/
theorem inv_next (s : State) (e : Ev) (hq : ∀ f, e = .edit f → inWindow s.proc = false)
    (inv : Inv s) : Inv (next s e) := by
  obtain ⟨tb, co, po⟩ := inv
  cases e with
  | edit f =>
    have hw := hq f rfl
    refine ⟨fun g => ?_, fun a st sn hc => ?_, ?_⟩
    · simp only [next, Cache.Tree.edit]
      split
      · omega
      · have := tb g; omega
    · obtain ⟨hf, hn⟩ := co a st sn hc
      exact ⟨faithful_edit f tb hf, fun hm => hn (match_edit f hf.below hm).1⟩
    · unfold procInv at *
      cases hp : s.proc <;> simp only [next, hp, inWindow] at * <;> first
        | trivial
        | contradiction
        | exact faithful_edit f tb po
        | exact ⟨faithful_edit f tb po.1, po.2⟩
        | exact ⟨faithful_edit f tb po.1, po.2.1, po.2.2⟩
  | start a files =>
    cases hp : s.proc <;> simp only [next, hp] <;> first
      | exact ⟨tb, co, po⟩
      | exact ⟨tb, co, by simp [procInv, current]⟩
  | kill => exact ⟨tb, co, by simp [next, procInv]⟩
  | fail =>
    cases hp : s.proc <;> simp only [next, hp] <;> first
      | exact ⟨tb, co, po⟩
      | exact ⟨tb, co, by simp [procInv]⟩
  | step =>
    unfold procInv at po
    cases hp : s.proc with
    | idle => simpa [next, hp] using (⟨tb, co, by simp [procInv, hp]⟩ : Inv s)
    | parsing a todo sn =>
      rw [hp] at po; simp only at po
      cases todo with
      | nil =>
        simp only [next, hp]
        refine ⟨tb, co, ?_⟩
        simp only [procInv]
        refine ⟨po, by simp [stampsMatch], by simp [below], fun p hp' => Or.inl ?_⟩
        exact List.mem_map_of_mem (f := (·.1)) hp'
      | cons f todo =>
        simp only [next, hp]
        refine ⟨tb, co, ?_⟩
        simp only [procInv, current]
        intro p hp'
        simp at hp'
        rcases hp' with hp' | rfl
        · exact po p hp'
        · rfl
    | statting a sn todo st =>
      rw [hp] at po; simp only at po
      obtain ⟨hcur, hmat, hbel, hcov⟩ := po
      cases todo with
      | nil =>
        simp only [next, hp]
        refine ⟨tb, co, ?_⟩
        simp only [procInv]
        refine ⟨hbel, fun p hp' => ?_, fun _ => hcur⟩
        rcases hcov p hp' with h | h
        · simp at h
        · exact h
      | cons f todo =>
        simp only [next, hp]
        refine ⟨tb, co, ?_⟩
        simp only [procInv]
        refine ⟨hcur, ?_, ?_, ?_⟩
        · intro q hq; simp at hq; rcases hq with hq | rfl
          · exact hmat q hq
          · rfl
        · intro q hq; simp at hq; rcases hq with hq | rfl
          · exact hbel q hq
          · exact tb f
        · intro p hp'
          rcases hcov p hp' with h | ⟨q, hq, hqp⟩
          · simp at h; rcases h with h | h
            · exact Or.inr ⟨(f, s.tree.stamp f), by simp, h.symm⟩
            · exact Or.inl h
          · exact Or.inr ⟨q, by simp [hq], hqp⟩
    | statted a sn st =>
      rw [hp] at po; simp only at po
      simp only [next, hp]
      exact ⟨tb, fun a st sn h => by simp at h, by simp [procInv, po, noRecord]⟩
    | removed a sn st =>
      rw [hp] at po; simp only at po
      simp only [next, hp]
      refine ⟨tb, fun a' st' sn' h => ?_, by simp [procInv, po]⟩
      have := po.2; simp only at h; rw [h] at this; exact absurd this (by simp [noRecord])
    | created a sn st =>
      rw [hp] at po; simp only at po
      simp only [next, hp]
      exact ⟨tb, co, by simp [procInv, po]⟩
    | written a sn st =>
      rw [hp] at po; simp only at po
      simp only [next, hp]
      refine ⟨tb, fun a' st' sn' h => ?_, by simp [procInv, po]⟩
      have := po.2; simp only at h; rw [h] at this; exact absurd this (by simp [noRecord])
    | flushed a sn st =>
      rw [hp] at po; simp only at po
      simp only [next, hp]
      refine ⟨tb, fun a' st' sn' h => ?_, by simp [procInv]⟩
      simp only [CacheFile.record.injEq] at h
      obtain ⟨rfl, rfl, rfl⟩ := h
      exact ⟨po.1, fun _ => po.2.2⟩

/-! ## Part 2/3 — the initial state, histories -/

theorem inv_init : Inv init :=
  ⟨fun _ => by simp [init], fun k st sn h => by simp [init] at h, by simp [procInv, init]⟩

def runEvents (s : State) (es : List Ev) : State := es.foldl next s

/-- along the trace, whenever the next event is an `edit`, the process is not inside the
    parse→stat window at that moment -/
def NoEditInWindow : State → List Ev → Prop
  | _, [] => True
  | s, e :: es => (∀ f, e = .edit f → inWindow s.proc = false) ∧ NoEditInWindow (next s e) es

instance decNoEditInWindow : (s : State) → (es : List Ev) → Decidable (NoEditInWindow s es)
  | _, [] => isTrue trivial
  | s, e :: es =>
    have : Decidable (∀ f, e = .edit f → inWindow s.proc = false) :=
      match e with
      | .edit f => decidable_of_iff (inWindow s.proc = false) ⟨fun h _ _ => h, fun h => h f rfl⟩
      | .start .. => isTrue (fun _ h => by cases h)
      | .step => isTrue (fun _ h => by cases h)
      | .kill => isTrue (fun _ h => by cases h)
      | .fail => isTrue (fun _ h => by cases h)
    have := decNoEditInWindow (next s e) es
    inferInstanceAs (Decidable (_ ∧ _))

theorem inv_runEvents (s : State) (es : List Ev) (inv : Inv s) (h : NoEditInWindow s es) :
    Inv (runEvents s es) := by
  induction es generalizing s with
  | nil => exact inv
  | cons e es ih => exact ih (next s e) (inv_next s e h.1 inv) h.2

theorem inv_reachable (es : List Ev) (h : NoEditInWindow init es) : Inv (runEvents init es) :=
  inv_runEvents init es inv_init h

/-! ## Part 4 — safety -/

/-- on a hit the ninja file on disk is the complete output of a generation with the recorded key,
    made from exactly the current content of every file it parsed, and the recorded key may serve `k` -/
theorem hit_sound (s : State) (inv : Inv s) (k : Key) (h : hit s k = true) :
    ∃ r st sn, s.cache = .record r st sn ∧ keyValid r k = true ∧ s.ninja = .complete sn r ∧
      (∀ p ∈ sn, s.tree.ver p.1 = p.2) := by
  unfold hit at h
  cases hc : s.cache with
  | absent => simp [hc] at h
  | torn => simp [hc] at h
  | record r st sn =>
    simp only [hc, Bool.and_eq_true] at h
    have hm := (stampsMatchB_iff st s.tree).1 h.2
    obtain ⟨hf, hn⟩ := inv.cacheOk r st sn hc
    exact ⟨r, st, sn, rfl, h.1, hn hm, hf.cur hm⟩

theorem cache_safe (es : List Ev) (h : NoEditInWindow init es) (k : Key)
    (hh : hit (runEvents init es) k = true) :
    ∃ r st sn, (runEvents init es).cache = .record r st sn ∧ keyValid r k = true ∧
      (runEvents init es).ninja = .complete sn r ∧
      (∀ p ∈ sn, (runEvents init es).tree.ver p.1 = p.2) :=
  hit_sound _ (inv_reachable es h) k hh

/-! ## Part 5 — never accepted after a change -/

theorem never_accepted_after_key_change (r k : Key) (h : keyValid r k = true) :
    r.uuid = k.uuid ∧ r.partition = k.partition ∧ r.mode = k.mode ∧ r.select = k.select ∧
    r.disable = k.disable ∧ r.define = k.define ∧ r.builders.isSuperset k.builders = true ∧
    r.apps.isSuperset k.apps = true ∧ k.namesKnown = true := by
  simp only [keyValid, Bool.and_eq_true, beq_iff_eq] at h
  obtain ⟨⟨⟨⟨⟨⟨⟨⟨h1, h2⟩, h3⟩, h4⟩, h5⟩, h6⟩, h7⟩, h8⟩, h9⟩ := h
  exact ⟨h1, h2, h5, h6, h7, h8, h3, h4, h9⟩

/-- a request naming a builder/app the project does not have is never served from the cache -/
theorem unknown_names_never_hit (s : State) (k : Key) (h : k.namesKnown = false) : hit s k = false := by
  unfold hit
  split
  · simp [keyValid, h]
  · rfl

/-- editing (or touching) a file whose stamp is recorded invalidates the cache -/
theorem never_accepted_after_edit (s : State) (inv : Inv s) (f : File) (k : Key)
    (r : Key) (st : Stamps) (sn : Snap) (hc : s.cache = .record r st sn) (hf : ∃ p ∈ st, p.1 = f) :
    hit { s with tree := s.tree.edit f } k = false := by
  obtain ⟨p, hp, hpf⟩ := hf
  have hb := (inv.cacheOk r st sn hc).1.below p hp
  cases hm : stampsMatchB st (s.tree.edit f) with
  | false => simp [hit, hc, hm]
  | true =>
    have h1 := (stampsMatchB_iff _ _).1 hm p hp
    simp [Cache.Tree.edit, hpf] at h1
    omega

/-! ## Part 6 — liveness: an unchanged project with an identical command line is served -/

theorem Selector.isSuperset_refl (a : Selector) : a.isSuperset a = true := by
  cases a with
  | all => rfl
  | some l => simp [Selector.isSuperset]

theorem keyValid_self_iff (k : Key) : keyValid k k = true ↔ k.namesKnown = true := by
  simp [keyValid, Selector.isSuperset_refl]

theorem keyValid_refl (k : Key) (hk : k.namesKnown = true) : keyValid k k = true :=
  (keyValid_self_iff k).2 hk

theorem stepsUntil_idle (p : Proc → Bool) (n : Nat) (s : State) (h : s.proc = .idle) :
    stepsUntil p n s = s := by
  cases n <;> simp [stepsUntil, h]

theorem stepsUntil_succ (n : Nat) (s : State) (h : s.proc ≠ .idle) :
    stepsUntil (fun _ => false) (n + 1) s = stepsUntil (fun _ => false) n (next s .step) := by
  simp [stepsUntil, h]

/-- the parse loop, uninterrupted -/
theorem steps_parsing (k : Key) (todo : List File) : ∀ (sn : Snap) (n : Nat) (s : State),
    s.proc = .parsing k todo sn →
    stepsUntil (fun _ => false) (n + todo.length + 1) s =
      stepsUntil (fun _ => false) n
        { s with proc := .statting k (sn ++ todo.map (fun f => (f, s.tree.ver f)))
                          ((sn ++ todo.map (fun f => (f, s.tree.ver f))).map (·.1)) [] } := by
  induction todo with
  | nil =>
    intro sn n s hp
    rw [List.length_nil, Nat.add_zero, stepsUntil_succ _ _ (by simp [hp])]
    simp [next, hp]
  | cons f todo ih =>
    intro sn n s hp
    rw [List.length_cons, ← Nat.add_assoc, stepsUntil_succ _ _ (by simp [hp])]
    have : next s .step = { s with proc := .parsing k todo (sn ++ [(f, s.tree.ver f)]) } := by
      simp [next, hp]
    rw [this, ih _ n _ rfl]
    simp [List.append_assoc]

/-- the stat loop, uninterrupted -/
theorem steps_statting (k : Key) (sn : Snap) (todo : List File) : ∀ (st : Stamps) (n : Nat) (s : State),
    s.proc = .statting k sn todo st →
    stepsUntil (fun _ => false) (n + todo.length + 1) s =
      stepsUntil (fun _ => false) n
        { s with proc := .statted k sn (st ++ todo.map (fun f => (f, s.tree.stamp f))) } := by
  induction todo with
  | nil =>
    intro st n s hp
    rw [List.length_nil, Nat.add_zero, stepsUntil_succ _ _ (by simp [hp])]
    simp [next, hp]
  | cons f todo ih =>
    intro st n s hp
    rw [List.length_cons, ← Nat.add_assoc, stepsUntil_succ _ _ (by simp [hp])]
    have : next s .step = { s with proc := .statting k sn todo (st ++ [(f, s.tree.stamp f)]) } := by
      simp [next, hp]
    rw [this, ih _ n _ rfl]
    simp [List.append_assoc]

/-- from `statted` to the end of the run -/
theorem steps_tail (k : Key) (sn : Snap) (st : Stamps) (n : Nat) (s : State)
    (hp : s.proc = .statted k sn st) :
    stepsUntil (fun _ => false) (n + 5) s =
      { s with ninja := .complete sn k, cache := .record k st sn, proc := .idle } := by
  cases s with
  | mk tree ninja cache proc =>
    cases hp
    cases n <;> simp [stepsUntil, next]

/-- what a complete, uninterrupted, cache-missing run does to the disk -/
theorem run_never (s : State) (k : Key) (files : List File) (hi : s.proc = .idle)
    (hm : hit s k = false) :
    (run s k files .never).1 =
      { s with ninja := .complete (files.map (fun f => (f, s.tree.ver f))) k
               cache := .record k (files.map (fun f => (f, s.tree.stamp f)))
                          (files.map (fun f => (f, s.tree.ver f)))
               proc := .idle } := by
  have h0 : next s (.start k files) = { s with proc := .parsing k files [] } := by
    simp [next, hi]
  have hmap : (files.map (fun f => (f, s.tree.ver f))).map (·.1) = files := by
    simp [List.map_map, Function.comp_def]
  simp only [run, hm, Bool.false_eq_true, if_false, h0]
  rw [show 2 * files.length + 12 = (files.length + 11) + files.length + 1 by omega,
    steps_parsing k files [] _ _ rfl]
  simp only [List.nil_append, hmap]
  rw [show files.length + 11 = 10 + files.length + 1 by omega,
    steps_statting k _ files [] _ _ rfl]
  simp only [List.nil_append]
  rw [show (10 : Nat) = 5 + 5 from rfl, steps_tail k _ _ 5 _ rfl]

/-- a complete uninterrupted run, without any edit, leaves a cache that serves the same command line -/
theorem unchanged_is_served (s : State) (k : Key) (files : List File) (hi : s.proc = .idle)
    (hk : k.namesKnown = true) (hm : hit s k = false) :
    (run s k files .never).1.proc = .idle ∧
    (∃ st sn, (run s k files .never).1.cache = .record k st sn) ∧
    (run s k files .never).1.tree = s.tree ∧
    hit (run s k files .never).1 k = true := by
  rw [run_never s k files hi hm]
  refine ⟨rfl, ⟨_, _, rfl⟩, rfl, ?_⟩
  simp [hit, keyValid_refl k hk, stampsMatchB]

/-- without the assumption on the names: the record is written all the same, and the same command line is
    served exactly if its names are known -/
theorem complete_run_hit_eq_namesKnown (s : State) (k : Key) (files : List File) (hi : s.proc = .idle)
    (hm : hit s k = false) :
    (run s k files .never).1.proc = .idle ∧
    (∃ st sn, (run s k files .never).1.cache = .record k st sn) ∧
    (run s k files .never).1.tree = s.tree ∧
    hit (run s k files .never).1 k = k.namesKnown := by
  rw [run_never s k files hi hm]
  refine ⟨rfl, ⟨_, _, rfl⟩, rfl, ?_⟩
  cases hk : k.namesKnown with
  | true => simp [hit, keyValid_refl k hk, stampsMatchB]
  | false => exact unknown_names_never_hit _ k hk

/-- whatever the state of the cache before: after a complete run the same command line is a hit, and
    the run after it changes nothing -/
theorem rerun_is_hit (s : State) (k : Key) (files : List File) (hi : s.proc = .idle)
    (hk : k.namesKnown = true) :
    hit (run s k files .never).1 k = true ∧
    run (run s k files .never).1 k files .never = ((run s k files .never).1, .hit) := by
  have h : hit (run s k files .never).1 k = true := by
    cases hm : hit s k with
    | true => simp [run, hm]
    | false => exact (unchanged_is_served s k files hi hk hm).2.2.2
  exact ⟨h, by rw [run, if_pos h]⟩

/-- the last micro-step: writing the cache record makes the key a hit -/
theorem flushed_step_hits (s : State) (inv : Inv s) (k : Key) (sn : Snap) (st : Stamps)
    (hp : s.proc = .flushed k sn st) (hmatch : stampsMatch st s.tree) (hk : k.namesKnown = true) :
    hit (next s .step) k = true ∧ (next s .step).ninja = .complete sn k := by
  have po := inv.procOk
  simp only [procInv, hp] at po
  simp [next, hp, hit, keyValid_refl k hk, (stampsMatchB_iff st s.tree).2 hmatch, po.2.2]

/-! ### the file of a hit is the file a fresh run produces -/

/-- the same tree with an empty build directory -/
def fresh (t : Cache.Tree) : State := { tree := t, ninja := .absent, cache := .absent, proc := .idle }

theorem current_map (sn : Snap) (t : Cache.Tree) (h : current sn t) :
    (sn.map (·.1)).map (fun f => (f, t.ver f)) = sn := by
  induction sn with
  | nil => rfl
  | cons p sn ih =>
    have h1 := h p (by simp)
    have h2 := ih (fun q hq => h q (by simp [hq]))
    simp only [List.map_cons, h1, h2]

/-- C08, first sentence: on a hit, the ninja file on disk is the file that a run with the recorded
    arguments, on the same tree, with an empty build directory, loading the same files, produces -/
theorem hit_fresh (s : State) (inv : Inv s) (k : Key) (h : hit s k = true) :
    ∃ r st sn, s.cache = .record r st sn ∧ keyValid r k = true ∧
      s.ninja = (run (fresh s.tree) r (sn.map (·.1)) .never).1.ninja := by
  obtain ⟨r, st, sn, hc, hk, hn, hcur⟩ := hit_sound s inv k h
  refine ⟨r, st, sn, hc, hk, ?_⟩
  rw [run_never (fresh s.tree) r _ rfl (by simp [hit, fresh])]
  simp only [fresh]
  rw [current_map sn s.tree hcur, hn]

/-! ## Part 7 — evaluated examples (non-vacuity) -/

def k1 : Key :=
  { mode := "global", builders := .some ["b1", "b2"], apps := .all, select := none, disable := none,
    define := [], partition := none, uuid := 1 }
/-- the same command line with another binary -/
def k2 : Key := { k1 with uuid := 2 }
/-- a narrower command line (a subset of the builders) -/
def k1sub : Key := { k1 with builders := .some ["b2"] }

/-- (a) a complete run; the same (and a narrower) command line hits, a changed one does not -/
example :
    let s := (run init k1 ["a", "b"] .never).1
    s.ninja = .complete [("a", 0), ("b", 0)] k1 ∧ s.cache = .record k1 [("a", 0), ("b", 0)] [("a", 0), ("b", 0)] ∧
    s.proc = .idle ∧ hit s k1 = true ∧ hit s k1sub = true ∧ hit s k2 = false ∧
    hit s { k1 with select := some ["x"] } = false ∧ hit s { k1 with disable := some ["x"] } = false ∧
    hit s { k1 with define := ["A=1"] } = false ∧ hit s { k1 with partition := some "1/2" } = false ∧
    hit s { k1 with mode := "local:sub" } = false ∧ hit s { k1 with apps := .some ["x"] } = true ∧
    hit s { k1 with builders := .all } = false ∧
    (run s k1 ["a", "b"] .never).2 = .hit := by decide

/-- (a') a command line naming a builder/app the project does not have (`namesKnown := false`): the complete
    run writes its record, but neither the rerun nor any later run of that command line is served from it;
    a command line with known names is -/
example :
    let ku : Key := { k1 with namesKnown := false }
    let s := (run init ku ["a", "b"] .never).1
    s.ninja = .complete [("a", 0), ("b", 0)] ku ∧ s.cache = .record ku [("a", 0), ("b", 0)] [("a", 0), ("b", 0)] ∧
    s.proc = .idle ∧ hit s ku = false ∧ (run s ku ["a", "b"] .never).2 = .done ∧
    hit (run s ku ["a", "b"] .never).1 ku = false ∧ hit s k1 = true ∧
    hit (run init k1 ["a", "b"] .never).1 ku = false := by decide

/-- (b) run, edit "a": the same key misses; the rerun regenerates from the new content and hits again -/
example :
    let s := next (run init k1 ["a", "b"] .never).1 (.edit "a")
    hit s k1 = false ∧ (run s k1 ["a", "b"] .never).2 = .done ∧
    (run s k1 ["a", "b"] .never).1.ninja = .complete [("a", 1), ("b", 0)] k1 ∧
    hit (run s k1 ["a", "b"] .never).1 k1 = true := by decide

/-- (c) run, then a run with a changed key killed right after creating the ninja file: the file is
    short, the cache is gone, the next run misses -/
example :
    let s := (run (run init k1 ["a"] .never).1 k2 ["a"] .afterNinjaCreate).1
    s.ninja = .short ∧ s.cache = .absent ∧ s.proc = .idle ∧ hit s k1 = false ∧ hit s k2 = false := by
  decide

/-- (c') every kill point: the old cache survives exactly as long as the old file does -/
example :
    let s0 := (run init k1 ["a"] .never).1
    (∀ stop ∈ [StopAt.afterCacheCheck, .afterParse, .afterStat],
      (run s0 k2 ["a"] stop).1.ninja = s0.ninja ∧ (run s0 k2 ["a"] stop).1.cache = s0.cache) ∧
    ((run s0 k2 ["a"] .afterCacheRemove).1.ninja = s0.ninja ∧ (run s0 k2 ["a"] .afterCacheRemove).1.cache = .absent) ∧
    (∀ stop ∈ [StopAt.afterNinjaCreate, .afterHeader, .afterConfigure, .afterEntries],
      (run s0 k2 ["a"] stop).1.ninja = .short ∧ (run s0 k2 ["a"] stop).1.cache = .absent) ∧
    ((run s0 k2 ["a"] .afterFlush).1.ninja = .complete [("a", 0)] k2 ∧ (run s0 k2 ["a"] .afterFlush).1.cache = .absent) ∧
    ((run s0 k2 ["a"] .afterCacheWrite).1.ninja = .complete [("a", 0)] k2 ∧ hit (run s0 k2 ["a"] .afterCacheWrite).1 k2 = true) := by
  decide

/-- (d) a failing generation likewise -/
example :
    let s := (runFailing (run init k1 ["a"] .never).1 k2 ["a"]).1
    s.ninja = .short ∧ s.cache = .absent ∧ s.proc = .idle ∧ hit s k1 = false ∧ hit s k2 = false ∧
    (runFailing (run init k1 ["a"] .never).1 k1 ["a"]).2 = .hit := by decide

/-- the histories of (a)–(d) are covered by `cache_safe`: e.g. the trace of (c) as events -/
example :
    let es : List Ev := [.start k1 ["a"]] ++ List.replicate 9 .step ++ [.edit "a", .start k1 ["a"]] ++
      List.replicate 6 .step ++ [.kill, .edit "b"]
    NoEditInWindow init es ∧ (runEvents init es).ninja = .short ∧ hit (runEvents init es) k1 = false := by
  decide

/-! ## Part 8 — why the step order matters: the protocol before the repair -/

/-- identical to `next` except that the old cache file is NOT removed before the ninja file is
    created (the order the implementation had before it was repaired) -/
def nextOld (s : State) : Ev → State
  | .step => match s.proc with
      | .statted k sn st => { s with proc := .removed k sn st }
      | _ => next s .step
  | e => next s e

theorem nextOld_eq_next (s : State) (e : Ev)
    (h : e = .step → ∀ k sn st, s.proc ≠ .statted k sn st) : nextOld s e = next s e := by
  cases e <;> try rfl
  cases hp : s.proc <;> simp [nextOld, hp]
  exact absurd hp (h rfl _ _ _)

theorem nextOld_statted (s : State) (k : Key) (sn : Snap) (st : Stamps) (hp : s.proc = .statted k sn st) :
    nextOld s .step = { s with proc := .removed k sn st } ∧
    next s .step = { s with cache := .absent, proc := .removed k sn st } := by
  simp [nextOld, next, hp]

/-- a complete run with `k1`; then a run with `k2` (which misses) killed right after it created the
    ninja file -/
def oldTrace : List Ev :=
  [.start k1 ["a"]] ++ List.replicate 9 .step ++ [.start k2 ["a"]] ++ List.replicate 6 .step ++ [.kill]

/-- with the old order, the truncated file sits next to a cache that still accepts `k1` -/
theorem nextOld_unsound :
    let s10 := (oldTrace.take 10).foldl nextOld init
    let s := oldTrace.foldl nextOld init
    (s10.proc = .idle ∧ hit s10 k1 = true ∧ hit s10 k2 = false) ∧
    NoEditInWindow init oldTrace ∧
    s.proc = .idle ∧ s.ninja = .short ∧ hit s k1 = true := by decide

/-- … so the conclusion of `hit_sound` fails for `nextOld` -/
theorem nextOld_violates_hit_sound :
    ∃ (es : List Ev) (k : Key), hit (es.foldl nextOld init) k = true ∧
      ¬ ∃ r st sn, (es.foldl nextOld init).cache = .record r st sn ∧ keyValid r k = true ∧
          (es.foldl nextOld init).ninja = .complete sn r ∧
          (∀ p ∈ sn, (es.foldl nextOld init).tree.ver p.1 = p.2) := by
  refine ⟨oldTrace, k1, by decide, ?_⟩
  rintro ⟨r, st, sn, _, _, hn, _⟩
  have : (oldTrace.foldl nextOld init).ninja = .short := by decide
  rw [this] at hn
  cases hn

/-- the repaired order on the same history: no cache is left behind -/
example :
    (runEvents init oldTrace).ninja = .short ∧ (runEvents init oldTrace).cache = .absent ∧
    hit (runEvents init oldTrace) k1 = false := by decide

end Laze.C08
