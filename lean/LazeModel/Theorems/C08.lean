import LazeModel.Model.Cache
/-! C08 — the build-file cache is sound.

    "After any sequence of runs, build-file edits, failed runs and interruptions, a run that is
    served from the cache leaves a ninja file that a run with the same arguments on the same tree
    with an empty build directory would produce. The cache is never accepted after a build file,
    the binary, the mode/start directory, --select, --disable, --define or --partition changed, and
    an unchanged project with an identical command line is served from it."

    * Part 1: the one-step invariant `Inv` of the transition system `Laze.Cache.next`.
    * Part 2/3: `Inv init`, histories, `inv_reachable`.
    * Part 4: `hit_sound`, `cache_safe`, `hit_fresh` (the file equals what a fresh run produces).
    * Part 5: `never_accepted_after_key_change`, `unknown_names_never_hit`, `never_accepted_after_edit`.
    * Part 6: `unchanged_is_served` (liveness of the cache, for command lines whose names are known),
      `complete_run_hit_eq_namesKnown`.
    * Part 7: evaluated examples (complete / edited / killed / failing runs).
    * Part 8: `nextOld` — the step order before the repair — violates `hit_sound`.
    * Part 9: a build file edited while it is being loaded: `window_edit_not_cached`; `nextNoCheck` — the
      protocol without the comparison pass — violates `hit_sound`.

    The invariant holds for EVERY history: edits may land between any two micro-steps of a run, in
    particular between the read of a file and the moment its stamp is recorded (`inv_next` has no side
    condition). What makes this true is the third pass of `load` (phase `checking`). -/
namespace Laze.C08
open Laze Laze.Cache

/-! ## Part 1 — the invariant and its preservation -/

def stampsMatch (st : Stamps) (t : Cache.Tree) : Prop := ∀ p ∈ st, t.stamp p.1 = p.2
def current (sn : Snap) (t : Cache.Tree) : Prop := ∀ p ∈ sn, t.ver p.1 = p.2
def below (st : Stamps) (t : Cache.Tree) : Prop := ∀ p ∈ st, p.2 < t.clock
def covered (sn : Snap) (st : Stamps) : Prop := ∀ p ∈ sn, ∃ q ∈ st, q.1 = p.1

theorem stampsMatchB_iff (st : Stamps) (t : Cache.Tree) : stampsMatchB st t = true ↔ stampsMatch st t := by
  simp [stampsMatchB, stampsMatch]

instance (st : Stamps) (t : Cache.Tree) : Decidable (stampsMatch st t) :=
  decidable_of_iff _ (stampsMatchB_iff st t)

/-- a (snapshot, stamps) pair that is safe to vouch for: if the stamps still match, the content is
    still what was parsed -/
structure Faithful (sn : Snap) (st : Stamps) (t : Cache.Tree) : Prop where
  below : below st t
  cov : covered sn st
  cur : stampsMatch st t → current sn t

def noRecord : CacheFile → Prop
  | .record .. => False
  | _ => True

/-- every parsed (file, version) has a pre-read stamp `q ∈ pre` that vouches for it: as long as the file's
    stamp is still `q.2`, its content is still the parsed version -/
def vouched (sn : Snap) (pre : Stamps) (t : Cache.Tree) : Prop :=
  ∀ x ∈ sn, ∃ q ∈ pre, q.1 = x.1 ∧ (t.stamp x.1 = q.2 → t.ver x.1 = x.2)
/-- recorded stamps are in the past of the file: stamps only grow -/
def past (st : Stamps) (t : Cache.Tree) : Prop := ∀ q ∈ st, q.2 ≤ t.stamp q.1

/-- the comparison pass: every parsed (file, version) has a vouching pre-read stamp `p` that is either still to
    be compared, or — if every comparison so far succeeded — is literally the stamp recorded in `st` -/
def checkedSoFar (sn : Snap) (st todo : Stamps) (ok : Bool) (t : Cache.Tree) : Prop :=
  ∀ x ∈ sn, ∃ p, (t.stamp x.1 = p → t.ver x.1 = x.2) ∧ p ≤ t.stamp x.1 ∧
    ((x.1, p) ∈ todo ∨ (ok = true → (x.1, p) ∈ st))

def procInv (s : State) : Prop :=
  match s.proc with
  | .idle => True
  | .parsing _ _ sn pre => vouched sn pre s.tree ∧ past pre s.tree ∧ (∀ q ∈ pre, ∃ x ∈ sn, x.1 = q.1)
  | .reading _ f _ sn pre =>
      vouched sn pre s.tree ∧ past pre s.tree ∧ (∀ q ∈ pre, q.1 = f ∨ ∃ x ∈ sn, x.1 = q.1) ∧ (∃ q ∈ pre, q.1 = f)
  | .statting _ sn todo st pre =>
      vouched sn pre s.tree ∧ past pre s.tree ∧ past st s.tree ∧
      (∀ q ∈ pre, ∀ r ∈ st, r.1 = q.1 → q.2 ≤ r.2) ∧ (∀ q ∈ pre, q.1 ∈ todo ∨ ∃ r ∈ st, r.1 = q.1)
  | .checking _ sn st todo ok =>
      checkedSoFar sn st todo ok s.tree ∧ past st s.tree ∧ (∀ q ∈ todo, ∃ r ∈ st, r.1 = q.1 ∧ q.2 ≤ r.2)
  | .statted _ sn st ok => (ok = true → Faithful sn st s.tree)
  | .removed _ sn st ok => (ok = true → Faithful sn st s.tree) ∧ noRecord s.cache
  | .created _ sn st ok => (ok = true → Faithful sn st s.tree) ∧ noRecord s.cache
  | .written _ sn st ok => (ok = true → Faithful sn st s.tree) ∧ noRecord s.cache
  | .flushed k sn st ok => (ok = true → Faithful sn st s.tree) ∧ noRecord s.cache ∧ s.ninja = .complete sn k

structure Inv (s : State) : Prop where
  treeBelow : ∀ f, s.tree.stamp f < s.tree.clock
  cacheOk : ∀ k st sn, s.cache = .record k st sn →
      Faithful sn st s.tree ∧ (stampsMatch st s.tree → s.ninja = .complete sn k)
  procOk : procInv s

theorem faithful_edit {sn : Snap} {st : Stamps} {t : Cache.Tree} (f : File)
    (_tb : ∀ g, t.stamp g < t.clock) (h : Faithful sn st t) : Faithful sn st (t.edit f) := by
  refine ⟨fun p hp => ?_, h.cov, fun hm => ?_⟩
  · have := h.below p hp; simp [Cache.Tree.edit]; omega
  · -- f cannot be a key of st, otherwise its stamp (= old clock) would equal a recorded stamp < clock
    have hf : ∀ q ∈ st, q.1 ≠ f := by
      intro q hq hqf
      have h1 := hm q hq
      have h2 := h.below q hq
      simp [Cache.Tree.edit, hqf] at h1
      omega
    have hm' : stampsMatch st t := by
      intro q hq
      have := hm q hq
      simp [Cache.Tree.edit, hf q hq] at this
      exact this
    intro p hp
    obtain ⟨q, hq, hqp⟩ := h.cov p hp
    have : p.1 ≠ f := by rw [← hqp]; exact hf q hq
    simp [Cache.Tree.edit, this]
    exact h.cur hm' p hp

theorem match_edit {st : Stamps} {t : Cache.Tree} (f : File) (hb : below st t)
    (hm : stampsMatch st (t.edit f)) : stampsMatch st t ∧ ∀ q ∈ st, q.1 ≠ f := by
  have hf : ∀ q ∈ st, q.1 ≠ f := by
    intro q hq hqf
    have h1 := hm q hq
    have h2 := hb q hq
    simp [Cache.Tree.edit, hqf] at h1
    omega
  refine ⟨fun q hq => ?_, hf⟩
  have := hm q hq
  simp [Cache.Tree.edit, hf q hq] at this
  exact this

/-- stamps only grow -/
theorem stamp_edit_ge {t : Cache.Tree} (f g : File) (tb : ∀ g, t.stamp g < t.clock) :
    t.stamp g ≤ (t.edit f).stamp g := by
  simp only [Cache.Tree.edit]
  split
  · have := tb g; omega
  · exact Nat.le_refl _

/-- "stamp unchanged since `p` → content unchanged" survives every edit: an edit of the file gives it a
    stamp that no earlier observation can have seen -/
theorem vouch_edit {t : Cache.Tree} (f g : File) (p v : Nat) (tb : ∀ g, t.stamp g < t.clock)
    (hle : p ≤ t.stamp g) (h : t.stamp g = p → t.ver g = v) :
    (t.edit f).stamp g = p → (t.edit f).ver g = v := by
  simp only [Cache.Tree.edit]
  split
  · intro h'; have := tb g; omega
  · exact h

theorem past_edit {st : Stamps} {t : Cache.Tree} (f : File) (tb : ∀ g, t.stamp g < t.clock)
    (h : past st t) : past st (t.edit f) :=
  fun q hq => Nat.le_trans (h q hq) (stamp_edit_ge f q.1 tb)

theorem vouched_edit {sn : Snap} {pre : Stamps} {t : Cache.Tree} (f : File) (tb : ∀ g, t.stamp g < t.clock)
    (hp : past pre t) (h : vouched sn pre t) : vouched sn pre (t.edit f) := by
  intro x hx
  obtain ⟨q, hq, hqx, hv⟩ := h x hx
  exact ⟨q, hq, hqx, vouch_edit f x.1 q.2 x.2 tb (hqx ▸ hp q hq) hv⟩

theorem checkedSoFar_edit {sn : Snap} {st todo : Stamps} {ok : Bool} {t : Cache.Tree} (f : File)
    (tb : ∀ g, t.stamp g < t.clock) (h : checkedSoFar sn st todo ok t) :
    checkedSoFar sn st todo ok (t.edit f) := by
  intro x hx
  obtain ⟨p, hv, hle, hm⟩ := h x hx
  exact ⟨p, vouch_edit f x.1 p x.2 tb hle hv, Nat.le_trans hle (stamp_edit_ge f x.1 tb), hm⟩

/-- the end of the comparison pass: if every comparison succeeded, the pair is safe to vouch for -/
theorem faithful_of_checked {sn : Snap} {st : Stamps} {t : Cache.Tree} (tb : ∀ g, t.stamp g < t.clock)
    (h : checkedSoFar sn st [] true t) (hp : past st t) : Faithful sn st t := by
  refine ⟨fun q hq => Nat.lt_of_le_of_lt (hp q hq) (tb q.1), fun x hx => ?_, fun hm x hx => ?_⟩
  · obtain ⟨p, _, _, hm⟩ := h x hx
    rcases hm with hm | hm
    · simp at hm
    · exact ⟨(x.1, p), hm rfl, rfl⟩
  · obtain ⟨p, hv, _, hmem⟩ := h x hx
    rcases hmem with hmem | hmem
    · simp at hmem
    · exact hv (hm (x.1, p) (hmem rfl))

/-- the invariant is preserved by every event — in particular by an edit at any moment of a run -/
theorem inv_next (s : State) (e : Ev) (inv : Inv s) : Inv (next s e) := by
  obtain ⟨tb, co, po⟩ := inv
  cases e with
  | edit f =>
    refine ⟨fun g => ?_, fun a st sn hc => ?_, ?_⟩
    · simp only [next, Cache.Tree.edit]
      split
      · omega
      · have := tb g; omega
    · obtain ⟨hf, hn⟩ := co a st sn hc
      exact ⟨faithful_edit f tb hf, fun hm => hn (match_edit f hf.below hm).1⟩
    · unfold procInv at *
      cases hp : s.proc with
      | idle => simp only [next, hp]
      | parsing a todo sn pre =>
        simp only [next, hp] at *
        exact ⟨vouched_edit f tb po.2.1 po.1, past_edit f tb po.2.1, po.2.2⟩
      | reading a g todo sn pre =>
        simp only [next, hp] at *
        exact ⟨vouched_edit f tb po.2.1 po.1, past_edit f tb po.2.1, po.2.2⟩
      | statting a sn todo st pre =>
        simp only [next, hp] at *
        exact ⟨vouched_edit f tb po.2.1 po.1, past_edit f tb po.2.1, past_edit f tb po.2.2.1, po.2.2.2⟩
      | checking a sn st todo ok =>
        simp only [next, hp] at *
        exact ⟨checkedSoFar_edit f tb po.1, past_edit f tb po.2.1, po.2.2⟩
      | statted a sn st ok =>
        simp only [next, hp] at *
        exact fun h => faithful_edit f tb (po h)
      | removed a sn st ok =>
        simp only [next, hp] at *
        exact ⟨fun h => faithful_edit f tb (po.1 h), po.2⟩
      | created a sn st ok =>
        simp only [next, hp] at *
        exact ⟨fun h => faithful_edit f tb (po.1 h), po.2⟩
      | written a sn st ok =>
        simp only [next, hp] at *
        exact ⟨fun h => faithful_edit f tb (po.1 h), po.2⟩
      | flushed a sn st ok =>
        simp only [next, hp] at *
        exact ⟨fun h => faithful_edit f tb (po.1 h), po.2⟩
  | start a files =>
    cases hp : s.proc <;> simp only [next, hp] <;> first
      | exact ⟨tb, co, po⟩
      | exact ⟨tb, co, by simp [procInv, vouched, past]⟩
  | kill => exact ⟨tb, co, by simp [next, procInv]⟩
  | fail =>
    cases hp : s.proc <;> simp only [next, hp] <;> first
      | exact ⟨tb, co, po⟩
      | exact ⟨tb, co, by simp [procInv]⟩
  | step =>
    unfold procInv at po
    cases hp : s.proc with
    | idle => simpa [next, hp] using (⟨tb, co, by simp [procInv, hp]⟩ : Inv s)
    | parsing a todo sn pre =>
      rw [hp] at po; simp only at po
      obtain ⟨hv, hpast, hcov⟩ := po
      cases todo with
      | nil =>
        simp only [next, hp]
        refine ⟨tb, co, ?_⟩
        simp only [procInv]
        refine ⟨hv, hpast, by simp [past], by simp, fun q hq => Or.inl ?_⟩
        obtain ⟨x, hx, hxq⟩ := hcov q hq
        exact hxq ▸ List.mem_map_of_mem (f := (·.1)) hx
      | cons f todo =>
        simp only [next, hp]
        refine ⟨tb, co, ?_⟩
        simp only [procInv]
        refine ⟨?_, ?_, ?_, ⟨(f, s.tree.stamp f), by simp, rfl⟩⟩
        · intro x hx
          obtain ⟨q, hq, h⟩ := hv x hx
          exact ⟨q, by simp [hq], h⟩
        · intro q hq; simp at hq; rcases hq with hq | rfl
          · exact hpast q hq
          · exact Nat.le_refl _
        · intro q hq; simp at hq; rcases hq with hq | rfl
          · exact Or.inr (hcov q hq)
          · exact Or.inl rfl
    | reading a f todo sn pre =>
      rw [hp] at po; simp only at po
      obtain ⟨hv, hpast, hcov, q0, hq0, hq0f⟩ := po
      simp only [next, hp]
      refine ⟨tb, co, ?_⟩
      simp only [procInv]
      refine ⟨?_, hpast, ?_⟩
      · intro x hx; simp at hx; rcases hx with hx | rfl
        · exact hv x hx
        · exact ⟨q0, hq0, hq0f, fun _ => rfl⟩
      · intro q hq
        rcases hcov q hq with h | ⟨x, hx, hxq⟩
        · exact ⟨(f, s.tree.ver f), by simp, h.symm⟩
        · exact ⟨x, by simp [hx], hxq⟩
    | statting a sn todo st pre =>
      rw [hp] at po; simp only at po
      obtain ⟨hv, hpast, hst, hle, hcov⟩ := po
      cases todo with
      | nil =>
        simp only [next, hp]
        refine ⟨tb, co, ?_⟩
        simp only [procInv]
        refine ⟨fun x hx => ?_, hst, fun q hq => ?_⟩
        · obtain ⟨q, hq, hqx, h⟩ := hv x hx
          refine ⟨q.2, h, hqx ▸ hpast q hq, Or.inl ?_⟩
          rw [← hqx]; exact hq
        · rcases hcov q hq with h | ⟨r, hr, hrq⟩
          · simp at h
          · exact ⟨r, hr, hrq, hle q hq r hr hrq⟩
      | cons f todo =>
        simp only [next, hp]
        refine ⟨tb, co, ?_⟩
        simp only [procInv]
        refine ⟨hv, hpast, ?_, ?_, ?_⟩
        · intro r hr; simp at hr; rcases hr with hr | rfl
          · exact hst r hr
          · exact Nat.le_refl _
        · intro q hq r hr hrq; simp at hr; rcases hr with hr | rfl
          · exact hle q hq r hr hrq
          · simp only at hrq ⊢; rw [hrq]; exact hpast q hq
        · intro q hq
          rcases hcov q hq with h | ⟨r, hr, hrq⟩
          · simp at h; rcases h with h | h
            · exact Or.inr ⟨(f, s.tree.stamp f), by simp, h.symm⟩
            · exact Or.inl h
          · exact Or.inr ⟨r, by simp [hr], hrq⟩
    | checking a sn st todo ok =>
      rw [hp] at po; simp only at po
      obtain ⟨hc, hst, hcov⟩ := po
      cases todo with
      | nil =>
        simp only [next, hp]
        refine ⟨tb, co, ?_⟩
        simp only [procInv]
        intro hok; subst hok
        exact faithful_of_checked tb hc hst
      | cons q todo =>
        simp only [next, hp]
        refine ⟨tb, co, ?_⟩
        simp only [procInv]
        refine ⟨fun x hx => ?_, hst, fun q' hq' => hcov q' (by simp [hq'])⟩
        obtain ⟨p, hvx, hpx, hm⟩ := hc x hx
        refine ⟨p, hvx, hpx, ?_⟩
        rcases hm with hm | hm
        · simp only [List.mem_cons] at hm
          rcases hm with hm | hm
          · -- the pair being compared now: success means the recorded stamp is the pre-read stamp
            refine Or.inr (fun hok => ?_)
            simp only [Bool.and_eq_true, beq_iff_eq] at hok
            obtain ⟨r, hr, hrq, hqr⟩ := hcov q (by simp)
            have h1 := hst r hr
            rw [hrq, hok.2] at h1
            have : r = q := Prod.ext hrq (Nat.le_antisymm h1 hqr)
            rw [hm, ← this]; exact hr
          · exact Or.inl hm
        · refine Or.inr (fun hok => hm ?_)
          simp only [Bool.and_eq_true] at hok
          exact hok.1
    | statted a sn st ok =>
      rw [hp] at po; simp only at po
      simp only [next, hp]
      exact ⟨tb, fun a st sn h => by simp at h, by simp only [procInv]; exact ⟨po, by simp [noRecord]⟩⟩
    | removed a sn st ok =>
      rw [hp] at po; simp only at po
      simp only [next, hp]
      refine ⟨tb, fun a' st' sn' h => ?_, by simp only [procInv]; exact po⟩
      have := po.2; simp only at h; rw [h] at this; exact absurd this (by simp [noRecord])
    | created a sn st ok =>
      rw [hp] at po; simp only at po
      simp only [next, hp]
      exact ⟨tb, co, by simp only [procInv]; exact po⟩
    | written a sn st ok =>
      rw [hp] at po; simp only at po
      simp only [next, hp]
      refine ⟨tb, fun a' st' sn' h => ?_, by simp only [procInv]; exact ⟨po.1, po.2, trivial⟩⟩
      have := po.2; simp only at h; rw [h] at this; exact absurd this (by simp [noRecord])
    | flushed a sn st ok =>
      rw [hp] at po; simp only at po
      simp only [next, hp]
      refine ⟨tb, fun a' st' sn' h => ?_, by simp [procInv]⟩
      cases ok with
      | true =>
        simp only [if_true, CacheFile.record.injEq] at h
        obtain ⟨rfl, rfl, rfl⟩ := h
        exact ⟨po.1 rfl, fun _ => po.2.2⟩
      | false =>
        -- no record is written, and the old one was removed
        have := po.2.1; simp only [Bool.false_eq_true, if_false] at h; rw [h] at this
        exact absurd this (by simp [noRecord])

/-! ## Part 2/3 — the initial state, histories -/

theorem inv_init : Inv init :=
  ⟨fun _ => by simp [init], fun k st sn h => by simp [init] at h, by simp [procInv, init]⟩

def runEvents (s : State) (es : List Ev) : State := es.foldl next s

theorem inv_runEvents (s : State) (es : List Ev) (inv : Inv s) : Inv (runEvents s es) := by
  induction es generalizing s with
  | nil => exact inv
  | cons e es ih => exact ih (next s e) (inv_next s e inv)

/-- every history of edits, run starts, micro-steps, kills and failures — in any interleaving — keeps the invariant -/
theorem inv_reachable (es : List Ev) : Inv (runEvents init es) :=
  inv_runEvents init es inv_init

/-! ## Part 4 — safety -/

/-- on a hit the ninja file on disk is the complete output of a generation with the recorded key,
    made from exactly the current content of every file it parsed, and the recorded key may serve `k` -/
theorem hit_sound (s : State) (inv : Inv s) (k : Key) (h : hit s k = true) :
    ∃ r st sn, s.cache = .record r st sn ∧ keyValid r k = true ∧ s.ninja = .complete sn r ∧
      (∀ p ∈ sn, s.tree.ver p.1 = p.2) := by
  unfold hit at h
  cases hc : s.cache with
  | absent => simp [hc] at h
  | torn => simp [hc] at h
  | record r st sn =>
    simp only [hc, Bool.and_eq_true] at h
    have hm := (stampsMatchB_iff st s.tree).1 h.2
    obtain ⟨hf, hn⟩ := inv.cacheOk r st sn hc
    exact ⟨r, st, sn, rfl, h.1, hn hm, hf.cur hm⟩

theorem cache_safe (es : List Ev) (k : Key)
    (hh : hit (runEvents init es) k = true) :
    ∃ r st sn, (runEvents init es).cache = .record r st sn ∧ keyValid r k = true ∧
      (runEvents init es).ninja = .complete sn r ∧
      (∀ p ∈ sn, (runEvents init es).tree.ver p.1 = p.2) :=
  hit_sound _ (inv_reachable es) k hh

/-! ## Part 5 — never accepted after a change -/

theorem never_accepted_after_key_change (r k : Key) (h : keyValid r k = true) :
    r.uuid = k.uuid ∧ r.partition = k.partition ∧ r.mode = k.mode ∧ r.select = k.select ∧
    r.disable = k.disable ∧ r.define = k.define ∧ r.builders.isSuperset k.builders = true ∧
    r.apps.isSuperset k.apps = true ∧ k.namesKnown = true ∧
    (k.partition ≠ none → Selector.sameSeq r.builders k.builders = true ∧ k.apps.isSuperset r.apps = true) := by
  simp only [keyValid, Bool.and_eq_true, beq_iff_eq] at h
  obtain ⟨⟨⟨⟨⟨⟨⟨⟨⟨h1, h2⟩, h3⟩, h4⟩, h5⟩, h6⟩, h7⟩, h8⟩, h9⟩, h10⟩ := h
  refine ⟨h1, h2, h5, h6, h7, h8, h3, h4, h9, ?_⟩
  intro hp
  simp only [partitionOk, Selector.sameSet, Bool.or_eq_true, Bool.and_eq_true, Option.isNone_iff_eq_none] at h10
  rcases h10 with h10 | h10
  · exact absurd h10 hp
  · exact ⟨h10.1, h10.2.2⟩

/-- a request naming a builder/app the project does not have is never served from the cache -/
theorem unknown_names_never_hit (s : State) (k : Key) (h : k.namesKnown = false) : hit s k = false := by
  unfold hit
  split
  · simp [keyValid, h]
  · rfl

/-- editing (or touching) a file whose stamp is recorded invalidates the cache -/
theorem never_accepted_after_edit (s : State) (inv : Inv s) (f : File) (k : Key)
    (r : Key) (st : Stamps) (sn : Snap) (hc : s.cache = .record r st sn) (hf : ∃ p ∈ st, p.1 = f) :
    hit { s with tree := s.tree.edit f } k = false := by
  obtain ⟨p, hp, hpf⟩ := hf
  have hb := (inv.cacheOk r st sn hc).1.below p hp
  cases hm : stampsMatchB st (s.tree.edit f) with
  | false => simp [hit, hc, hm]
  | true =>
    have h1 := (stampsMatchB_iff _ _).1 hm p hp
    simp [Cache.Tree.edit, hpf] at h1
    omega

/-! ## Part 6 — liveness: an unchanged project with an identical command line is served -/

theorem Selector.isSuperset_refl (a : Selector) : a.isSuperset a = true := by
  cases a with
  | all => rfl
  | some l => simp [Selector.isSuperset]

theorem sameSeq_refl (a : Selector) : Selector.sameSeq a a = true := by
  cases a with
  | all => rfl
  | some l => simp [Selector.sameSeq]

/-- the same sequence of builder names means the same list (what `selectedBuilders` maps over) -/
theorem sameSeq_eq {a b : Selector} (h : Selector.sameSeq a b = true) : a = b := by
  cases a <;> cases b <;> simp_all [Selector.sameSeq]

theorem keyValid_self_iff (k : Key) : keyValid k k = true ↔ k.namesKnown = true := by
  simp [keyValid, partitionOk, Selector.sameSet, Selector.isSuperset_refl, sameSeq_refl]

theorem keyValid_refl (k : Key) (hk : k.namesKnown = true) : keyValid k k = true :=
  (keyValid_self_iff k).2 hk

theorem stepsUntil_idle (p : Proc → Bool) (n : Nat) (s : State) (h : s.proc = .idle) :
    stepsUntil p n s = s := by
  cases n <;> simp [stepsUntil, h]

theorem stepsUntil_succ (p : Proc → Bool) (n : Nat) (s : State) (hp : p s.proc = false) (h : s.proc ≠ .idle) :
    stepsUntil p (n + 1) s = stepsUntil p n (next s .step) := by
  simp [stepsUntil, h, hp]

theorem stepsUntil_reached (p : Proc → Bool) (n : Nat) (s : State) (hp : p s.proc = true) :
    stepsUntil p n s = s := by
  cases n <;> simp [stepsUntil, hp]

/-- the stat+read loop, uninterrupted (two micro-steps per file) -/
theorem steps_parsing (p : Proc → Bool) (hp1 : ∀ k todo sn pre, p (.parsing k todo sn pre) = false)
    (hp2 : ∀ k f todo sn pre, p (.reading k f todo sn pre) = false) (k : Key) (todo : List File) :
    ∀ (sn : Snap) (pre : Stamps) (n : Nat) (s : State),
    s.proc = .parsing k todo sn pre →
    stepsUntil p (n + 2 * todo.length + 1) s =
      stepsUntil p n
        { s with proc := .statting k (sn ++ todo.map (fun f => (f, s.tree.ver f)))
                          ((sn ++ todo.map (fun f => (f, s.tree.ver f))).map (·.1)) []
                          (pre ++ todo.map (fun f => (f, s.tree.stamp f))) } := by
  induction todo with
  | nil =>
    intro sn pre n s hp
    rw [List.length_nil, Nat.mul_zero, Nat.add_zero, stepsUntil_succ _ _ _ (by simp [hp, hp1]) (by simp [hp])]
    simp [next, hp]
  | cons f todo ih =>
    intro sn pre n s hp
    rw [List.length_cons, show n + 2 * (todo.length + 1) + 1 = (n + 2 * todo.length + 1) + 1 + 1 by omega,
      stepsUntil_succ _ _ _ (by simp [hp, hp1]) (by simp [hp])]
    have h1 : next s .step = { s with proc := .reading k f todo sn (pre ++ [(f, s.tree.stamp f)]) } := by
      simp [next, hp]
    rw [h1, stepsUntil_succ _ _ _ (by simp [hp2]) (by simp)]
    have h2 : next { s with proc := .reading k f todo sn (pre ++ [(f, s.tree.stamp f)]) } .step =
        { s with proc := .parsing k todo (sn ++ [(f, s.tree.ver f)]) (pre ++ [(f, s.tree.stamp f)]) } := by
      simp [next]
    rw [h2, ih _ _ n _ rfl]
    simp [List.append_assoc]

/-- the treestate loop, uninterrupted -/
theorem steps_statting (k : Key) (sn : Snap) (pre : Stamps) (todo : List File) :
    ∀ (st : Stamps) (n : Nat) (s : State),
    s.proc = .statting k sn todo st pre →
    stepsUntil (fun _ => false) (n + todo.length + 1) s =
      stepsUntil (fun _ => false) n
        { s with proc := .checking k sn (st ++ todo.map (fun f => (f, s.tree.stamp f))) pre true } := by
  induction todo with
  | nil =>
    intro st n s hp
    rw [List.length_nil, Nat.add_zero, stepsUntil_succ _ _ _ rfl (by simp [hp])]
    simp [next, hp]
  | cons f todo ih =>
    intro st n s hp
    rw [List.length_cons, ← Nat.add_assoc, stepsUntil_succ _ _ _ rfl (by simp [hp])]
    have : next s .step = { s with proc := .statting k sn todo (st ++ [(f, s.tree.stamp f)]) pre } := by
      simp [next, hp]
    rw [this, ih _ n _ rfl]
    simp [List.append_assoc]

/-- the comparison loop, uninterrupted: `ok` survives iff every pre-read stamp is still the file's stamp -/
theorem steps_checking (k : Key) (sn : Snap) (st : Stamps) (todo : Stamps) :
    ∀ (ok : Bool) (n : Nat) (s : State),
    s.proc = .checking k sn st todo ok →
    stepsUntil (fun _ => false) (n + todo.length + 1) s =
      stepsUntil (fun _ => false) n
        { s with proc := .statted k sn st (ok && todo.all (fun q => s.tree.stamp q.1 == q.2)) } := by
  induction todo with
  | nil =>
    intro ok n s hp
    rw [List.length_nil, Nat.add_zero, stepsUntil_succ _ _ _ rfl (by simp [hp])]
    simp [next, hp]
  | cons q todo ih =>
    intro ok n s hp
    rw [List.length_cons, ← Nat.add_assoc, stepsUntil_succ _ _ _ rfl (by simp [hp])]
    have : next s .step = { s with proc := .checking k sn st todo (ok && (s.tree.stamp q.1 == q.2)) } := by
      simp [next, hp]
    rw [this, ih _ n _ rfl]
    simp [Bool.and_assoc]

/-- from `statted` to the end of the run -/
theorem steps_tail (k : Key) (sn : Snap) (st : Stamps) (ok : Bool) (n : Nat) (s : State)
    (hp : s.proc = .statted k sn st ok) :
    stepsUntil (fun _ => false) (n + 5) s =
      { s with ninja := .complete sn k, cache := if ok then .record k st sn else .absent, proc := .idle } := by
  cases s with
  | mk tree ninja cache proc =>
    cases hp
    cases n <;> simp [stepsUntil, next]

/-- the whole run from the moment every file has been read (phase `statting`, nothing stat'ed yet), uninterrupted -/
theorem steps_from_parsed (k : Key) (sn : Snap) (pre : Stamps) (files : List File) (n : Nat) (s : State)
    (hp : s.proc = .statting k sn files [] pre) (hpre : pre.length ≤ files.length) :
    stepsUntil (fun _ => false) (n + 2 * files.length + 7) s =
      { s with ninja := .complete sn k
               cache := if pre.all (fun q => s.tree.stamp q.1 == q.2)
                 then .record k (files.map (fun f => (f, s.tree.stamp f))) sn else .absent
               proc := .idle } := by
  rw [show n + 2 * files.length + 7 = (n + (files.length - pre.length) + pre.length + 6) + files.length + 1 by omega,
    steps_statting k sn pre files [] _ s hp]
  rw [show n + (files.length - pre.length) + pre.length + 6 = (n + (files.length - pre.length) + 5) + pre.length + 1 by omega,
    steps_checking k sn _ pre true _ _ rfl]
  rw [show n + (files.length - pre.length) + 5 = (n + (files.length - pre.length)) + 5 by omega,
    steps_tail k sn _ _ _ _ rfl]
  rfl

/-- what a complete, uninterrupted, cache-missing run does to the disk -/
theorem run_never (s : State) (k : Key) (files : List File) (hi : s.proc = .idle)
    (hm : hit s k = false) :
    (run s k files .never).1 =
      { s with ninja := .complete (files.map (fun f => (f, s.tree.ver f))) k
               cache := .record k (files.map (fun f => (f, s.tree.stamp f)))
                          (files.map (fun f => (f, s.tree.ver f)))
               proc := .idle } := by
  have h0 : next s (.start k files) = { s with proc := .parsing k files [] [] } := by
    simp [next, hi]
  have hmap : (files.map (fun f => (f, s.tree.ver f))).map (·.1) = files := by
    simp [List.map_map, Function.comp_def]
  simp only [run, hm, Bool.false_eq_true, if_false, h0]
  rw [show 4 * files.length + 12 = (2 * files.length + 11) + 2 * files.length + 1 by omega,
    steps_parsing _ (fun _ _ _ _ => rfl) (fun _ _ _ _ _ => rfl) k files [] [] _ _ rfl]
  simp only [List.nil_append, hmap]
  rw [show 2 * files.length + 11 = 4 + 2 * files.length + 7 by omega,
    steps_from_parsed k _ _ files 4 _ rfl (by simp)]
  simp

/-- a complete uninterrupted run, without any edit, leaves a cache that serves the same command line -/
theorem unchanged_is_served (s : State) (k : Key) (files : List File) (hi : s.proc = .idle)
    (hk : k.namesKnown = true) (hm : hit s k = false) :
    (run s k files .never).1.proc = .idle ∧
    (∃ st sn, (run s k files .never).1.cache = .record k st sn) ∧
    (run s k files .never).1.tree = s.tree ∧
    hit (run s k files .never).1 k = true := by
  rw [run_never s k files hi hm]
  refine ⟨rfl, ⟨_, _, rfl⟩, rfl, ?_⟩
  simp [hit, keyValid_refl k hk, stampsMatchB]

/-- without the assumption on the names: the record is written all the same, and the same command line is
    served exactly if its names are known -/
theorem complete_run_hit_eq_namesKnown (s : State) (k : Key) (files : List File) (hi : s.proc = .idle)
    (hm : hit s k = false) :
    (run s k files .never).1.proc = .idle ∧
    (∃ st sn, (run s k files .never).1.cache = .record k st sn) ∧
    (run s k files .never).1.tree = s.tree ∧
    hit (run s k files .never).1 k = k.namesKnown := by
  rw [run_never s k files hi hm]
  refine ⟨rfl, ⟨_, _, rfl⟩, rfl, ?_⟩
  cases hk : k.namesKnown with
  | true => simp [hit, keyValid_refl k hk, stampsMatchB]
  | false => exact unknown_names_never_hit _ k hk

/-- whatever the state of the cache before: after a complete run the same command line is a hit, and
    the run after it changes nothing -/
theorem rerun_is_hit (s : State) (k : Key) (files : List File) (hi : s.proc = .idle)
    (hk : k.namesKnown = true) :
    hit (run s k files .never).1 k = true ∧
    run (run s k files .never).1 k files .never = ((run s k files .never).1, .hit) := by
  have h : hit (run s k files .never).1 k = true := by
    cases hm : hit s k with
    | true => simp [run, hm]
    | false => exact (unchanged_is_served s k files hi hk hm).2.2.2
  exact ⟨h, by rw [run, if_pos h]⟩

/-- the last micro-step: writing the cache record (the comparison pass found no change) makes the key a hit -/
theorem flushed_step_hits (s : State) (inv : Inv s) (k : Key) (sn : Snap) (st : Stamps)
    (hp : s.proc = .flushed k sn st true) (hmatch : stampsMatch st s.tree) (hk : k.namesKnown = true) :
    hit (next s .step) k = true ∧ (next s .step).ninja = .complete sn k := by
  have po := inv.procOk
  simp only [procInv, hp] at po
  simp [next, hp, hit, keyValid_refl k hk, (stampsMatchB_iff st s.tree).2 hmatch, po.2.2]

/-- … and when the comparison pass found a change, the last micro-step writes nothing: no key hits -/
theorem flushed_step_no_record (s : State) (inv : Inv s) (k : Key) (sn : Snap) (st : Stamps)
    (hp : s.proc = .flushed k sn st false) (k' : Key) :
    hit (next s .step) k' = false ∧ (next s .step).ninja = .complete sn k := by
  have po := inv.procOk
  simp only [procInv, hp] at po
  have hn := po.2.1
  refine ⟨?_, by simp [next, hp, po.2.2]⟩
  simp only [next, hp, hit, Bool.false_eq_true, if_false]
  cases hc : s.cache <;> simp_all [noRecord]

/-! ### the file of a hit is the file a fresh run produces -/

/-- the same tree with an empty build directory -/
def fresh (t : Cache.Tree) : State := { tree := t, ninja := .absent, cache := .absent, proc := .idle }

theorem current_map (sn : Snap) (t : Cache.Tree) (h : current sn t) :
    (sn.map (·.1)).map (fun f => (f, t.ver f)) = sn := by
  induction sn with
  | nil => rfl
  | cons p sn ih =>
    have h1 := h p (by simp)
    have h2 := ih (fun q hq => h q (by simp [hq]))
    simp only [List.map_cons, h1, h2]

/-- C08, first sentence: on a hit, the ninja file on disk is the file that a run with the recorded
    arguments, on the same tree, with an empty build directory, loading the same files, produces -/
theorem hit_fresh (s : State) (inv : Inv s) (k : Key) (h : hit s k = true) :
    ∃ r st sn, s.cache = .record r st sn ∧ keyValid r k = true ∧
      s.ninja = (run (fresh s.tree) r (sn.map (·.1)) .never).1.ninja := by
  obtain ⟨r, st, sn, hc, hk, hn, hcur⟩ := hit_sound s inv k h
  refine ⟨r, st, sn, hc, hk, ?_⟩
  rw [run_never (fresh s.tree) r _ rfl (by simp [hit, fresh])]
  simp only [fresh]
  rw [current_map sn s.tree hcur, hn]

/-! ## Part 7 — evaluated examples (non-vacuity) -/

def k1 : Key :=
  { mode := "global", builders := .some ["b1", "b2"], apps := .all, select := none, disable := none,
    define := [], partition := none, uuid := 1 }
/-- the same command line with another binary -/
def k2 : Key := { k1 with uuid := 2 }
/-- a narrower command line (a subset of the builders) -/
def k1sub : Key := { k1 with builders := .some ["b2"] }

/-- (a) a complete run; the same (and a narrower) command line hits, a changed one does not -/
example :
    let s := (run init k1 ["a", "b"] .never).1
    s.ninja = .complete [("a", 0), ("b", 0)] k1 ∧ s.cache = .record k1 [("a", 0), ("b", 0)] [("a", 0), ("b", 0)] ∧
    s.proc = .idle ∧ hit s k1 = true ∧ hit s k1sub = true ∧ hit s k2 = false ∧
    hit s { k1 with select := some ["x"] } = false ∧ hit s { k1 with disable := some ["x"] } = false ∧
    hit s { k1 with define := ["A=1"] } = false ∧ hit s { k1 with partition := some "1/2" } = false ∧
    hit s { k1 with mode := "local:sub" } = false ∧ hit s { k1 with apps := .some ["x"] } = true ∧
    hit s { k1 with builders := .all } = false ∧
    (run s k1 ["a", "b"] .never).2 = .hit := by decide

/-- (a') a command line naming a builder/app the project does not have (`namesKnown := false`): the complete
    run writes its record, but neither the rerun nor any later run of that command line is served from it;
    a command line with known names is -/
example :
    let ku : Key := { k1 with namesKnown := false }
    let s := (run init ku ["a", "b"] .never).1
    s.ninja = .complete [("a", 0), ("b", 0)] ku ∧ s.cache = .record ku [("a", 0), ("b", 0)] [("a", 0), ("b", 0)] ∧
    s.proc = .idle ∧ hit s ku = false ∧ (run s ku ["a", "b"] .never).2 = .done ∧
    hit (run s ku ["a", "b"] .never).1 ku = false ∧ hit s k1 = true ∧
    hit (run init k1 ["a", "b"] .never).1 ku = false := by decide

/-- (b) run, edit "a": the same key misses; the rerun regenerates from the new content and hits again -/
example :
    let s := next (run init k1 ["a", "b"] .never).1 (.edit "a")
    hit s k1 = false ∧ (run s k1 ["a", "b"] .never).2 = .done ∧
    (run s k1 ["a", "b"] .never).1.ninja = .complete [("a", 1), ("b", 0)] k1 ∧
    hit (run s k1 ["a", "b"] .never).1 k1 = true := by decide

/-- (c) run, then a run with a changed key killed right after creating the ninja file: the file is
    short, the cache is gone, the next run misses -/
example :
    let s := (run (run init k1 ["a"] .never).1 k2 ["a"] .afterNinjaCreate).1
    s.ninja = .short ∧ s.cache = .absent ∧ s.proc = .idle ∧ hit s k1 = false ∧ hit s k2 = false := by
  decide

/-- (c') every kill point: the old cache survives exactly as long as the old file does -/
example :
    let s0 := (run init k1 ["a"] .never).1
    (∀ stop ∈ [StopAt.afterCacheCheck, .afterParse, .afterStat],
      (run s0 k2 ["a"] stop).1.ninja = s0.ninja ∧ (run s0 k2 ["a"] stop).1.cache = s0.cache) ∧
    ((run s0 k2 ["a"] .afterCacheRemove).1.ninja = s0.ninja ∧ (run s0 k2 ["a"] .afterCacheRemove).1.cache = .absent) ∧
    (∀ stop ∈ [StopAt.afterNinjaCreate, .afterHeader, .afterConfigure, .afterEntries],
      (run s0 k2 ["a"] stop).1.ninja = .short ∧ (run s0 k2 ["a"] stop).1.cache = .absent) ∧
    ((run s0 k2 ["a"] .afterFlush).1.ninja = .complete [("a", 0)] k2 ∧ (run s0 k2 ["a"] .afterFlush).1.cache = .absent) ∧
    ((run s0 k2 ["a"] .afterCacheWrite).1.ninja = .complete [("a", 0)] k2 ∧ hit (run s0 k2 ["a"] .afterCacheWrite).1 k2 = true) := by
  decide

/-- (d) a failing generation likewise -/
example :
    let s := (runFailing (run init k1 ["a"] .never).1 k2 ["a"]).1
    s.ninja = .short ∧ s.cache = .absent ∧ s.proc = .idle ∧ hit s k1 = false ∧ hit s k2 = false ∧
    (runFailing (run init k1 ["a"] .never).1 k1 ["a"]).2 = .hit := by decide

/-- the histories of (a)–(d) are covered by `cache_safe`: e.g. the trace of (c) as events (a run over one file
    takes 12 micro-steps: stat, read, end of reads, stat, end of stats, compare, end of compares, then the five
    disk steps) -/
example :
    let es : List Ev := [.start k1 ["a"]] ++ List.replicate 12 .step ++ [.edit "a", .start k1 ["a"]] ++
      List.replicate 9 .step ++ [.kill, .edit "b"]
    (runEvents init (es.take 13)).proc = .idle ∧ hit (runEvents init (es.take 13)) k1 = true ∧
    (runEvents init es).ninja = .short ∧ hit (runEvents init es) k1 = false := by
  decide

/-- (e) fault points of `load`: killed after the reads, or after the treestate was taken and compared -/
example :
    (run init k1 ["a", "b"] .afterParse).1.cache = .absent ∧ (run init k1 ["a", "b"] .afterStat).1.cache = .absent ∧
    (run init k1 ["a", "b"] .afterStat).1.ninja = .absent ∧ (run init k1 ["a", "b"] .afterStat).2 = .stopped := by
  decide

/-! ## Part 8 — why the step order matters: the protocol before the (earlier) repair of the step order -/

/-- identical to `next` except that the old cache file is NOT removed before the ninja file is
    created (the order the implementation had before it was repaired) -/
def nextOld (s : State) : Ev → State
  | .step => match s.proc with
      | .statted k sn st ok => { s with proc := .removed k sn st ok }
      | _ => next s .step
  | e => next s e

theorem nextOld_eq_next (s : State) (e : Ev)
    (h : e = .step → ∀ k sn st ok, s.proc ≠ .statted k sn st ok) : nextOld s e = next s e := by
  cases e <;> try rfl
  cases hp : s.proc <;> simp [nextOld, hp]
  exact absurd hp (h rfl _ _ _ _)

theorem nextOld_statted (s : State) (k : Key) (sn : Snap) (st : Stamps) (ok : Bool)
    (hp : s.proc = .statted k sn st ok) :
    nextOld s .step = { s with proc := .removed k sn st ok } ∧
    next s .step = { s with cache := .absent, proc := .removed k sn st ok } := by
  simp [nextOld, next, hp]

/-- a complete run with `k1`; then a run with `k2` (which misses) killed right after it created the
    ninja file -/
def oldTrace : List Ev :=
  [.start k1 ["a"]] ++ List.replicate 12 .step ++ [.start k2 ["a"]] ++ List.replicate 9 .step ++ [.kill]

/-- with the old order, the truncated file sits next to a cache that still accepts `k1` -/
theorem nextOld_unsound :
    let s13 := (oldTrace.take 13).foldl nextOld init
    let s := oldTrace.foldl nextOld init
    (s13.proc = .idle ∧ hit s13 k1 = true ∧ hit s13 k2 = false) ∧
    s.proc = .idle ∧ s.ninja = .short ∧ hit s k1 = true := by decide

/-- … so the conclusion of `hit_sound` fails for `nextOld` -/
theorem nextOld_violates_hit_sound :
    ∃ (es : List Ev) (k : Key), hit (es.foldl nextOld init) k = true ∧
      ¬ ∃ r st sn, (es.foldl nextOld init).cache = .record r st sn ∧ keyValid r k = true ∧
          (es.foldl nextOld init).ninja = .complete sn r ∧
          (∀ p ∈ sn, (es.foldl nextOld init).tree.ver p.1 = p.2) := by
  refine ⟨oldTrace, k1, by decide, ?_⟩
  rintro ⟨r, st, sn, _, _, hn, _⟩
  have : (oldTrace.foldl nextOld init).ninja = .short := by decide
  rw [this] at hn
  cases hn

/-- the repaired order on the same history: no cache is left behind -/
example :
    (runEvents init oldTrace).ninja = .short ∧ (runEvents init oldTrace).cache = .absent ∧
    hit (runEvents init oldTrace) k1 = false := by decide

/-! ## Part 9 — a build file edited while it is being loaded

    `load` records each file's stamp just before reading it and compares it again after the treestate was
    taken; if any differs, the run finishes its ninja file but writes no cache record. -/

/-- what a run does when build file `f` (one of the loaded files) is edited right after every file was read:
    it completes — the ninja file is generated from the content read *before* the edit — and leaves no cache -/
theorem runWithEdit_eq (s : State) (inv : Inv s) (k : Key) (files : List File) (f : File)
    (hi : s.proc = .idle) (hm : hit s k = false) (hf : f ∈ files) :
    (runWithEdit s k files f).1 =
      { s with tree := s.tree.edit f
               ninja := .complete (files.map (fun g => (g, s.tree.ver g))) k
               cache := .absent
               proc := .idle } := by
  have h0 : next s (.start k files) = { s with proc := .parsing k files [] [] } := by
    simp [next, hi]
  have hmap : (files.map (fun f => (f, s.tree.ver f))).map (·.1) = files := by
    simp [List.map_map, Function.comp_def]
  have hall : (files.map (fun g => (g, s.tree.stamp g))).all
      (fun q => (s.tree.edit f).stamp q.1 == q.2) = false := by
    rw [List.all_eq_false]
    refine ⟨(f, s.tree.stamp f), List.mem_map_of_mem hf, ?_⟩
    have := inv.treeBelow f
    simp [Cache.Tree.edit]
    omega
  simp only [runWithEdit, hm, Bool.false_eq_true, if_false, h0]
  rw [show 4 * files.length + 12 = (2 * files.length + 11) + 2 * files.length + 1 by omega,
    steps_parsing isParsedAll (fun _ _ _ _ => rfl) (fun _ _ _ _ _ => rfl) k files [] [] _ _ rfl,
    stepsUntil_reached isParsedAll _ _ rfl]
  simp only [List.nil_append, hmap, next]
  rw [show 2 * files.length + 11 + 2 * files.length + 1 = (2 * files.length + 5) + 2 * files.length + 7 by omega,
    steps_from_parsed k _ _ files (2 * files.length + 5) _ rfl (by simp)]
  simp only [hall, Bool.false_eq_true, if_false]

/-- REPAIRED: a run during which a loaded build file is edited between its read and the treestate pass leaves
    NO cache record (so the next run, whatever its command line, regenerates), although it does leave a complete
    ninja file made from the content read before the edit -/
theorem window_edit_not_cached (s : State) (inv : Inv s) (k : Key) (files : List File) (f : File)
    (hi : s.proc = .idle) (hm : hit s k = false) (hf : f ∈ files) :
    (runWithEdit s k files f).1.cache = .absent ∧ (runWithEdit s k files f).1.proc = .idle ∧
    (runWithEdit s k files f).1.ninja = .complete (files.map (fun g => (g, s.tree.ver g))) k ∧
    (runWithEdit s k files f).1.tree = s.tree.edit f ∧
    ∀ k', hit (runWithEdit s k files f).1 k' = false := by
  rw [runWithEdit_eq s inv k files f hi hm hf]
  exact ⟨rfl, rfl, rfl, rfl, fun _ => rfl⟩

/-- the same for every reachable idle state -/
theorem window_edit_not_cached_reachable (es : List Ev) (k : Key) (files : List File) (f : File)
    (hi : (runEvents init es).proc = .idle) (hm : hit (runEvents init es) k = false) (hf : f ∈ files) (k' : Key) :
    hit (runWithEdit (runEvents init es) k files f).1 k' = false :=
  (window_edit_not_cached _ (inv_reachable es) k files f hi hm hf).2.2.2.2 k'

/-- the protocol before this repair: identical to `next` except that the last micro-step writes the cache record
    unconditionally, ignoring the outcome `ok` of the comparison pass -/
def nextNoCheck (s : State) : Ev → State
  | .step => match s.proc with
      | .flushed k sn st _ => { s with cache := .record k st sn, proc := .idle }
      | _ => next s .step
  | e => next s e

theorem nextNoCheck_eq_next (s : State) (e : Ev)
    (h : e = .step → ∀ k sn st, s.proc ≠ .flushed k sn st false) : nextNoCheck s e = next s e := by
  cases e <;> try rfl
  cases hp : s.proc <;> simp [nextNoCheck, next, hp]
  rename_i k sn st ok
  cases ok
  · exact absurd hp (h rfl _ _ _)
  · intro h'; cases h'

/-- a run over `["a"]` during which "a" is edited after it was read and before the treestate pass -/
def windowTrace : List Ev :=
  [.start k1 ["a"], .step, .step, .edit "a"] ++ List.replicate 10 .step

/-- without the comparison, the record vouches — with the stamp taken AFTER the edit — for a ninja file made
    from the content read BEFORE the edit: the next run is a hit on a stale file -/
theorem nextNoCheck_unsound :
    let s3 := (windowTrace.take 3).foldl nextNoCheck init
    let s := windowTrace.foldl nextNoCheck init
    s3.proc = .parsing k1 [] [("a", 0)] [("a", 0)] ∧
    s.proc = .idle ∧ s.cache = .record k1 [("a", 1)] [("a", 0)] ∧ s.ninja = .complete [("a", 0)] k1 ∧
    s.tree.ver "a" = 1 ∧ hit s k1 = true := by decide

/-- … so the conclusion of `hit_sound` fails for `nextNoCheck`: a hit whose snapshot is not current -/
theorem nextNoCheck_violates_hit_sound :
    ∃ (es : List Ev) (k : Key), hit (es.foldl nextNoCheck init) k = true ∧
      ¬ ∃ r st sn, (es.foldl nextNoCheck init).cache = .record r st sn ∧ keyValid r k = true ∧
          (es.foldl nextNoCheck init).ninja = .complete sn r ∧
          (∀ p ∈ sn, (es.foldl nextNoCheck init).tree.ver p.1 = p.2) := by
  refine ⟨windowTrace, k1, by decide, ?_⟩
  rintro ⟨r, st, sn, hc, _, _, hcur⟩
  have h1 : (windowTrace.foldl nextNoCheck init).cache = .record k1 [("a", 1)] [("a", 0)] := by decide
  have h2 : (windowTrace.foldl nextNoCheck init).tree.ver "a" = 1 := by decide
  rw [h1] at hc
  simp only [CacheFile.record.injEq] at hc
  obtain ⟨_, _, rfl⟩ := hc
  have := hcur ("a", 0) (by simp)
  simp only at this
  omega

/-- the repaired protocol on the same history: the run completes, the comparison fails, no record is left -/
example :
    (runEvents init windowTrace).proc = .idle ∧ (runEvents init windowTrace).cache = .absent ∧
    (runEvents init windowTrace).ninja = .complete [("a", 0)] k1 ∧
    (∀ k ∈ [k1, k2, k1sub], hit (runEvents init windowTrace) k = false) ∧
    -- the next run regenerates from the edited content and is cached again
    (run (runEvents init windowTrace) k1 ["a"] .never).2 = .done ∧
    (run (runEvents init windowTrace) k1 ["a"] .never).1.ninja = .complete [("a", 1)] k1 ∧
    hit (run (runEvents init windowTrace) k1 ["a"] .never).1 k1 = true := by decide

/-- the run-level form used by the correspondence check, and an edit at the other moments of `load`: between the
    pre-read stat and the read (the read sees the new content, the record is withheld all the same — a safe
    false alarm), and during the comparison pass after the file was compared (the record is written with the
    pre-edit stamp, hence already stale: the next run misses) -/
example :
    (runWithEdit init k1 ["a", "b"] "a").1.cache = .absent ∧ (runWithEdit init k1 ["a", "b"] "a").2 = .done ∧
    (runWithEdit init k1 ["a", "b"] "c").1.cache = .record k1 [("a", 0), ("b", 0)] [("a", 0), ("b", 0)] ∧
    (let es : List Ev := [.start k1 ["a"], .step, .edit "a"] ++ List.replicate 11 .step
     (runEvents init es).cache = .absent ∧ (runEvents init es).ninja = .complete [("a", 1)] k1) ∧
    (let es : List Ev := [.start k1 ["a"]] ++ List.replicate 6 .step ++ [.edit "a"] ++ List.replicate 6 .step
     (runEvents init es).cache = .record k1 [("a", 0)] [("a", 0)] ∧ hit (runEvents init es) k1 = false) := by
  decide

end Laze.C08
