import LazeModel.Model.Select
/-! # C15 — totality: no panic, no hang

"For any laze-project.yml/laze.yml contents and any command line, laze build terminates promptly
either successfully or with an error message and exit status 1. It never panics, aborts on stack
overflow, or loops."

The model marks the failure points of the implementation: `GErr.panic`, `LErr.panic`, `LErr.hang`.
This file shows that none of them is reachable:

* `configureBuild_no_panic`, `generate_no_panic` — the generator never produces `GErr.panic`;
* `load_no_panic` — the loader never produces `LErr.panic`;
* `load_no_hang` — with pairwise different file paths the include work-list terminates within the
  fuel, i.e. `LErr.hang` is not produced;
* `parent_cycle_rejected`, `empty_name_rejected` — two of the malformed inputs are rejected with a
  diagnostic. -/
namespace Laze.C15
open Laze

/-! ## 0. `NoPanic` and its closure lemmas -/

/-- the computation does not end in a `GErr.panic` -/
def NoPanic {α} (x : Except GErr α) : Prop := ∀ s, x ≠ .error (.panic s)

theorem np_ok {α} (v : α) : NoPanic (.ok v : Except GErr α) := fun _ h => by cases h
theorem np_err {α} (k : String) : NoPanic (.error (.error k) : Except GErr α) := fun _ h => by cases h

/-- an error that is passed on from a panic-free computation -/
theorem NoPanic.of_eq {α β} {x : Except GErr α} {e : GErr} (h : NoPanic x) (he : x = .error e) :
    NoPanic (.error e : Except GErr β) := by
  intro s hs
  cases hs
  exact h s he

theorem NoPanic.bind {α β} {x : Except GErr α} {f : α → Except GErr β} (hx : NoPanic x)
    (hf : ∀ v, NoPanic (f v)) : NoPanic (x >>= f) := by
  cases x with
  | ok v => exact hf v
  | error e => exact hx.of_eq rfl

theorem NoPanic.map {α β} {x : Except GErr α} (f : α → β) (hx : NoPanic x) : NoPanic (x.map f) := by
  cases x with
  | ok v => exact np_ok _
  | error e => exact hx.of_eq rfl

theorem np_mapM {α β} {f : α → Except GErr β} (hf : ∀ a, NoPanic (f a)) (l : List α) :
    NoPanic (l.mapM f) := by
  induction l with
  | nil => rw [List.mapM_nil]; exact np_ok _
  | cons a l ih =>
    rw [List.mapM_cons]
    exact NoPanic.bind (hf a) fun _ => NoPanic.bind ih fun _ => np_ok _

/-! ## 1. the generator never panics -/

theorem liftX_np {α} (site : String) (x : Except XErr α) : NoPanic (liftX site x) := by
  unfold liftX
  split
  · exact np_ok _
  · exact np_err _
  · exact np_err _

theorem unwrapX_np {α} (site : String) (x : Except XErr α) : NoPanic (unwrapX site x) := by
  unfold unwrapX
  split
  · exact np_ok _
  · exact np_err _
  · exact np_err _

theorem applyExport_np (ev : EvalExpr) (flat : Flat) (e : VarExport) : NoPanic (applyExport ev flat e) := by
  unfold applyExport
  exact NoPanic.bind (unwrapX_np _ _) fun _ => np_ok _

theorem applyExports_np (ev : EvalExpr) (flat : Flat) (l : Option (List VarExport)) :
    NoPanic (applyExports ev flat l) := by
  unfold applyExports
  split
  · exact NoPanic.map _ (np_mapM (applyExport_np ev flat) _)
  · exact np_ok _

theorem ruleDeps_np (ev : EvalExpr) (flat : Flat) (d : Option String) : NoPanic (ruleDeps ev flat d) := by
  unfold ruleDeps
  split
  · exact NoPanic.map _ (liftX_np _ _)
  · exact np_ok _

theorem finishRule_np (r : NinjaRule) : NoPanic (finishRule r) := by
  unfold finishRule
  split
  · exact np_ok _
  · exact np_err _

theorem customCmd_np (cb : CustomBuild) (c : String) : NoPanic (customCmd cb c) := by
  unfold customCmd
  split
  · exact np_err _
  · exact np_ok _

theorem ruleToNinja_np (ev : EvalExpr) (rule : Rule) (flat : Flat) : NoPanic (ruleToNinja ev rule flat) := by
  unfold ruleToNinja
  exact NoPanic.bind (applyExports_np _ _ _) fun _ => NoPanic.bind (liftX_np _ _) fun _ =>
    NoPanic.bind (ruleDeps_np _ _ _) fun _ => finishRule_np _


/-- `match x with | .error e => .error e | .ok v => …` with a panic-free `x`: the error case is
    closed, the `.ok` case remains -/
macro "np_match " hx:term : tactic =>
  `(tactic| (split; · exact NoPanic.of_eq $hx (by assumption)))

/-! ### downloads -/

theorem patchRuleToNinja_np (ev : EvalExpr) (pr : Rule) (flat : Flat) : NoPanic (patchRuleToNinja ev pr flat) := by
  unfold patchRuleToNinja
  split
  · exact np_ok _
  · rename_i e he
    cases e with
    | error k =>
      show NoPanic (.error (if k.startsWith "need:" then GErr.error k else GErr.error _))
      by_cases hk : k.startsWith "need:" = true
      · rw [if_pos hk]; exact np_err _
      · rw [if_neg hk]; exact np_err _
    | panic s => exact absurd he (ruleToNinja_np ev pr flat s)

theorem patchEntries_np (ev : EvalExpr) (m : Module) (rules : List (String × Rule)) (flat : Flat)
    (srcdir : String) (vars : List (String × String)) (patches : List String) :
    NoPanic (patchEntries ev m rules flat srcdir vars patches) := by
  unfold patchEntries
  split
  · exact np_err _
  · np_match (patchRuleToNinja_np _ _ _)
    exact np_ok _

theorem withPatchEntries_np (ev : EvalExpr) (m : Module) (rules : List (String × Rule)) (flat : Flat)
    (srcdir : String) (vars : List (String × String)) (base : List String) (p : Option (List String)) :
    NoPanic (withPatchEntries ev m rules flat srcdir vars base p) := by
  unfold withPatchEntries
  split
  · exact np_ok _
  · np_match (patchEntries_np _ _ _ _ _ _ _)
    exact np_ok _

theorem gitDownloadEntries_np (ev : EvalExpr) (m : Module) (d : Download) (rules : List (String × Rule))
    (flat : Flat) (commit : String) : NoPanic (gitDownloadEntries ev m d rules flat commit) := by
  unfold gitDownloadEntries
  split
  · exact np_err _
  · np_match (ruleToNinja_np _ _ _)
    exact withPatchEntries_np _ _ _ _ _ _ _ _

theorem downloadEntries_np (ev : EvalExpr) (m : Module) (d : Download) (rules : List (String × Rule))
    (flat : Flat) : NoPanic (downloadEntries ev m d rules flat) := by
  unfold downloadEntries
  split
  · exact np_err _
  · exact gitDownloadEntries_np _ _ _ _ _ _

theorem downloadStep_np (ev : EvalExpr) (m : Module) (srcdir : String) (rules : List (String × Rule))
    (flat : Flat) (ls : LoopState) : NoPanic (downloadStep ev m srcdir rules flat ls) := by
  unfold downloadStep
  split
  · np_match (downloadEntries_np _ _ _ _ _)
    exact np_ok _
  · np_match (unwrapX_np _ _)
    exact np_ok _

/-! ### tasks -/

theorem taskCmd_np (ev : EvalExpr) (flat : Flat) (c : String) : NoPanic (taskCmd ev flat c) := liftX_np _ _

theorem taskWorkdir_np (ev : EvalExpr) (flat : Flat) (w : Option String) : NoPanic (taskWorkdir ev flat w) := by
  unfold taskWorkdir
  split
  · exact NoPanic.map _ (liftX_np _ _)
  · exact np_ok _

theorem taskWithEnvEval_np (ev : EvalExpr) (flat : Flat) (t : Task) : NoPanic (taskWithEnvEval ev flat t) := by
  unfold taskWithEnvEval
  exact NoPanic.bind (np_mapM (taskCmd_np ev flat) _) fun _ => NoPanic.bind (applyExports_np _ _ _) fun _ =>
    NoPanic.bind (taskWorkdir_np _ _ _) fun _ => np_ok _

theorem taskAvail_np (ev : EvalExpr) (flat : Flat) (r : Resolved) (t : Task) : NoPanic (taskAvail ev flat r t) := by
  unfold taskAvail
  split
  · exact np_ok _
  · split
    · exact np_ok _
    · exact NoPanic.map _ (taskWithEnvEval_np _ _ _)

theorem insertTasks_np (ev : EvalExpr) (flat : Flat) (r : Resolved) (ts : List (String × Task)) :
    ∀ res, NoPanic (insertTasks ev flat r ts res) := by
  induction ts with
  | nil => intro res; unfold insertTasks; exact np_ok _
  | cons nt ts ih =>
    intro res
    obtain ⟨name, t⟩ := nt
    unfold insertTasks
    np_match (taskAvail_np _ _ _ _)
    exact ih _

theorem contextTasksStep_np (ev : EvalExpr) (flat : Flat) (r : Resolved) (c : Context)
    (res : List (String × TaskAvail)) : NoPanic (contextTasksStep ev flat r c res) :=
  insertTasks_np _ _ _ _ _

theorem contextsTasksLoop_np (ev : EvalExpr) (flat : Flat) (r : Resolved) (cs : List Context) :
    ∀ res, NoPanic (contextsTasksLoop ev flat r cs res) := by
  induction cs with
  | nil => intro res; unfold contextsTasksLoop; exact np_ok _
  | cons c cs ih =>
    intro res
    unfold contextsTasksLoop
    np_match (contextTasksStep_np _ _ _ _ _)
    exact ih _

theorem collectTasks_np (ev : EvalExpr) (b : Bag) (builder : Name) (flat : Flat) (r : Resolved) :
    NoPanic (collectTasks ev b builder flat r) :=
  contextsTasksLoop_np _ _ _ _ _

/-! ### per-module steps -/

theorem importedDepFiles_np (files : FileTable) (ds : List Name) :
    ∀ acc, NoPanic (importedDepFiles files ds acc) := by
  induction ds with
  | nil => intro acc; unfold importedDepFiles; exact np_ok _
  | cons d ds ih =>
    intro acc
    unfold importedDepFiles
    split
    · exact ih _
    · exact ih _

theorem importedOf_np (files : FileTable) (l : Option (List Name)) : NoPanic (importedOf files l) := by
  unfold importedOf
  split
  · exact np_ok _
  · exact NoPanic.map _ (importedDepFiles_np _ _ _)

theorem moduleFlat_np (opts : Option VarOpts) (menv : Env) : NoPanic (moduleFlat opts menv) := by
  unfold moduleFlat
  split
  · exact np_ok _
  · exact np_err _

theorem globalFlat_np (opts : Option VarOpts) (genv : Env) : NoPanic (globalFlat opts genv) := by
  unfold globalFlat
  split
  · exact np_ok _
  · exact np_err _

theorem customBuildStep_np (ev : EvalExpr) (flat : Flat) (m : Module) (srcdir : String) (sources : List String)
    (combined : Option (List String)) (cb : CustomBuild) (ls : LoopState) :
    NoPanic (customBuildStep ev flat m srcdir sources combined cb ls) := by
  unfold customBuildStep
  split
  · exact np_err _
  unfold customBuildStepCore
  exact NoPanic.bind (unwrapX_np _ _) fun _ => NoPanic.bind (customCmd_np _ _) fun _ =>
    NoPanic.bind (np_mapM (fun _ => unwrapX_np _ _) _) fun _ =>
    NoPanic.bind (np_mapM (fun _ => unwrapX_np _ _) _) fun _ => np_ok _

theorem ruleForSource_np (ev : EvalExpr) (rules : List (String × Rule)) (flat : Flat) (s : String) :
    NoPanic (ruleForSource ev rules flat s) := by
  unfold ruleForSource
  split
  · exact np_err _
  · split
    · exact np_err _
    · np_match (ruleToNinja_np _ _ _)
      exact np_ok _

theorem moduleRulesLoop_np (ev : EvalExpr) (rules : List (String × Rule)) (flat : Flat) (ss : List String) :
    ∀ entries mrules, NoPanic (moduleRulesLoop ev rules flat ss entries mrules) := by
  induction ss with
  | nil => intro entries mrules; unfold moduleRulesLoop; exact np_ok _
  | cons s ss ih =>
    intro entries mrules
    unfold moduleRulesLoop
    np_match (ruleForSource_np _ _ _ _)
    exact ih _ _

theorem compileStmts_np (st : Settings) (builder appName : Name) (rules : List (String × Rule))
    (mrules : List (String × NinjaRule)) (combined localDeps : Option (List String))
    (srcTagfile : Option String) (srcpath : String) :
    NoPanic (compileStmts st builder appName rules mrules combined localDeps srcTagfile srcpath) := by
  unfold compileStmts
  split
  · exact np_err _
  · split
    · exact np_err _
    · split
      · exact np_err _
      · exact np_ok _

theorem compileSource_np (ev : EvalExpr) (st : Settings) (builder appName : Name) (rules : List (String × Rule))
    (mrules : List (String × NinjaRule)) (flat : Flat) (srcdir : String) (combined localDeps : Option (List String))
    (srcTagfile : Option String) (s : String) :
    NoPanic (compileSource ev st builder appName rules mrules flat srcdir combined localDeps srcTagfile s) := by
  unfold compileSource
  np_match (unwrapX_np _ _)
  exact compileStmts_np _ _ _ _ _ _ _ _ _

theorem compileSourcesLoop_np (ev : EvalExpr) (st : Settings) (builder appName : Name) (rules : List (String × Rule))
    (mrules : List (String × NinjaRule)) (flat : Flat) (srcdir : String) (combined localDeps : Option (List String))
    (srcTagfile : Option String) (ss : List String) :
    ∀ entries objects, NoPanic (compileSourcesLoop ev st builder appName rules mrules flat srcdir combined
      localDeps srcTagfile ss entries objects) := by
  induction ss with
  | nil => intro entries objects; unfold compileSourcesLoop; exact np_ok _
  | cons s ss ih =>
    intro entries objects
    unfold compileSourcesLoop
    np_match (compileSource_np _ _ _ _ _ _ _ _ _ _ _ _)
    exact ih _ _

theorem defaultBuildStep_np (ev : EvalExpr) (st : Settings) (builder appName : Name) (rules : List (String × Rule))
    (flat : Flat) (srcdir : String) (sources : List String) (combined localDeps : Option (List String))
    (srcTagfile : Option String) (ls : LoopState) :
    NoPanic (defaultBuildStep ev st builder appName rules flat srcdir sources combined localDeps srcTagfile ls) := by
  unfold defaultBuildStep
  np_match (moduleRulesLoop_np _ _ _ _ _ _)
  np_match (compileSourcesLoop_np _ _ _ _ _ _ _ _ _ _ _ _ _ _)
  exact np_ok _

theorem buildStep_np (ev : EvalExpr) (st : Settings) (builder appName : Name) (rules : List (String × Rule))
    (flat : Flat) (m : Module) (srcdir : String) (sources : List String) (combined : Option (List String))
    (srcTagfile : Option String) (ls : LoopState) :
    NoPanic (buildStep ev st builder appName rules flat m srcdir sources combined srcTagfile ls) := by
  unfold buildStep
  split
  · exact customBuildStep_np _ _ _ _ _ _ _ _
  · exact defaultBuildStep_np _ _ _ _ _ _ _ _ _ _ _ _

theorem moduleStmts_np (ev : EvalExpr) (st : Settings) (builder : Name) (app : Module) (r : Resolved)
    (rules : List (String × Rule)) (globals : List Name) (m : Module) (bdeps : Option (List Name))
    (srcdir : String) (flat : Flat) (ls : LoopState) :
    NoPanic (moduleStmts ev st builder app r rules globals m bdeps srcdir flat ls) := by
  unfold moduleStmts
  np_match (downloadStep_np _ _ _ _ _ _)
  np_match (importedOf_np _ _)
  exact buildStep_np _ _ _ _ _ _ _ _ _ _ _ _

theorem moduleStep_np (ev : EvalExpr) (st : Settings) (builder : Name) (app : Module) (r : Resolved)
    (rules : List (String × Rule)) (opts : Option VarOpts) (globals : List Name)
    (m : Module) (menv : Env) (bdeps : Option (List Name)) (ls : LoopState) :
    NoPanic (moduleStep ev st builder app r rules opts globals m menv bdeps ls) := by
  unfold moduleStep
  split
  · exact np_ok _
  · np_match (moduleFlat_np _ _)
    np_match (moduleStmts_np _ _ _ _ _ _ _ _ _ _ _ _)
    exact np_ok _

/-! ### module envs -/

theorem notifyAppend_np (env : Env) (dep : Module) : NoPanic (notifyAppend env dep) := by
  unfold notifyAppend
  split
  · exact np_err _
  · exact np_ok _
  · exact np_ok _

theorem depEnvStep_np (m dep : Module) (env : Env) : NoPanic (depEnvStep m dep env) := by
  unfold depEnvStep
  split
  · exact np_ok _
  · exact notifyAppend_np _ _

theorem buildEnvLoop_np (deps : List Module) (m : Module) :
    ∀ env bdeps, NoPanic (buildEnvLoop deps m env bdeps) := by
  induction deps with
  | nil => intro env bdeps; unfold buildEnvLoop; exact np_ok _
  | cons d deps ih =>
    intro env bdeps
    unfold buildEnvLoop
    np_match (depEnvStep_np _ _ _)
    exact ih _ _

theorem buildEnv_np (r : Resolved) (m : Module) (genv : Env) : NoPanic (buildEnv r m genv) := by
  unfold buildEnv
  np_match (buildEnvLoop_np _ _ _ _)
  exact np_ok _

theorem moduleEnvs_np (r : Resolved) (genv : Env) (ms : List Module) : NoPanic (moduleEnvs r genv ms) := by
  induction ms with
  | nil => unfold moduleEnvs; exact np_ok _
  | cons m ms ih =>
    unfold moduleEnvs
    np_match (buildEnv_np _ _ _)
    np_match ih
    exact np_ok _

/-! ### link, post-link, result -/

theorem linkStep_np (ev : EvalExpr) (rules : List (String × Rule)) (gflat : Flat) (globals : List Name)
    (outfile : String) (ls : LoopState) : NoPanic (linkStep ev rules gflat globals outfile ls) := by
  unfold linkStep
  split
  · exact np_err _
  · np_match (ruleToNinja_np _ _ _)
    exact np_ok _

theorem postLinkStep_np (ev : EvalExpr) (rules : List (String × Rule)) (gflat : Flat) (outfile : String)
    (entries : List String) : NoPanic (postLinkStep ev rules gflat outfile entries) := by
  unfold postLinkStep
  split
  · exact np_ok _
  · split
    · exact np_err _
    · np_match (ruleToNinja_np _ _ _)
      exact np_ok _

theorem finishBuild_np (ev : EvalExpr) (b : Bag) (builder : Name) (app : Module) (r : Resolved)
    (rules : List (String × Rule)) (gflat : Flat) (outfile : String) (globals : List Name)
    (ls : LoopState) (mflats : List (Name × Flat)) :
    NoPanic (finishBuild ev b builder app r rules gflat outfile globals ls mflats) := by
  unfold finishBuild
  np_match (linkStep_np _ _ _ _ _ _)
  np_match (postLinkStep_np _ _ _ _ _)
  np_match (collectTasks_np _ _ _ _ _)
  exact np_ok _

/-! ### the module loop: the only remaining panic site -/

/-- when every name of the order is the name of a module env, the lookup succeeds -/
theorem modulesLoop_np (ev : EvalExpr) (st : Settings) (builder : Name) (app : Module) (r : Resolved)
    (rules : List (String × Rule)) (opts : Option VarOpts) (globals : List Name) (menvs : List ModEnv)
    (order : List Name) (horder : ∀ n ∈ order, ∃ me ∈ menvs, me.1.name = n) :
    ∀ ls mflats, NoPanic (modulesLoop ev st builder app r rules opts globals menvs order ls mflats) := by
  induction order with
  | nil => intro ls mflats; unfold modulesLoop; exact np_ok _
  | cons n ns ih =>
    intro ls mflats
    unfold modulesLoop
    split
    · rename_i hnone
      obtain ⟨me, hme, hn⟩ := horder n List.mem_cons_self
      rw [List.find?_eq_none] at hnone
      exact absurd (by simpa using hn) (hnone me hme)
    · np_match (moduleStep_np _ _ _ _ _ _ _ _ _ _ _ _)
      exact ih (fun n hn => horder n (List.mem_cons_of_mem _ hn)) _ _


/-! ### the build order only names module envs

The graph lemmas of this section are those of C19 §5 (restated here so that this file does not
depend on C19). -/


/-- updating the entries of key `n` commutes with looking a key up -/
theorem find?_map_keyed {β} (t : List (String × β)) (n x : String) (g : String × β → β) :
    (t.map (fun e => if e.1 == n then (n, g e) else e)).find? (·.1 == x) =
      (t.find? (·.1 == x)).map (fun e => if e.1 == n then (n, g e) else e) := by
  induction t with
  | nil => rfl
  | cons e t ih =>
    have hfe : ((if e.1 == n then (n, g e) else e) : String × β).1 = e.1 := by
      split
      · rename_i h; exact (by simpa using h : e.1 = n).symm
      · rfl
    simp only [List.map_cons, List.find?_cons, hfe]
    cases (e.1 == x) with
    | true => rfl
    | false => exact ih

/-- `x → d` is an edge of the graph -/
def Edge (g : DepGraph) (x d : Name) : Prop := d ∈ (g.deps x).getD []

theorem edge_empty (x d : Name) : ¬ Edge {} x d := by
  unfold Edge DepGraph.deps; simp

theorem edge_add (g : DepGraph) (n e x d : Name) :
    Edge (g.add n e) x d ↔ Edge g x d ∨ (x = n ∧ d = e) := by
  unfold Edge DepGraph.deps DepGraph.add
  dsimp only
  split
  · rename_i hany
    rw [find?_map_keyed g.edges n x (fun e' => if e'.2.contains e then e'.2 else e'.2 ++ [e])]
    cases hf : g.edges.find? (·.1 == x) with
    | none =>
      have hx : x ≠ n := by
        rintro rfl
        rw [List.find?_eq_none] at hf
        rw [List.any_eq_true] at hany
        obtain ⟨e', he', hen⟩ := hany
        exact hf e' he' hen
      simp [hx]
    | some e' =>
      have h1 : e'.1 = x := by simpa using List.find?_some hf
      by_cases hx : x = n
      · subst hx
        simp only [Option.map_some, h1, beq_self_eq_true, if_true, Option.getD_some, true_and]
        split
        · rename_i hc
          constructor
          · exact Or.inl
          · rintro (h | rfl)
            · exact h
            · simpa using hc
        · simp
      · have : e'.1 ≠ n := by rw [h1]; exact hx
        simp [this, hx]
  · rename_i hany
    rw [List.find?_append]
    by_cases hx : x = n
    · subst hx
      have hnone : g.edges.find? (·.1 == x) = none := by
        rw [List.find?_eq_none]
        intro e' he' hen
        exact hany (List.any_eq_true.2 ⟨e', he', hen⟩)
      simp [hnone]
    · have : (n == x) = false := by simpa using (Ne.symm hx)
      simp [this, hx]

theorem edge_foldl_add (l : List Name) (g : DepGraph) (n x d : Name) :
    Edge (l.foldl (fun g d => g.add n d) g) x d ↔ Edge g x d ∨ (x = n ∧ d ∈ l) := by
  induction l generalizing g with
  | nil => simp
  | cons a l ih =>
    rw [List.foldl_cons, ih, edge_add]
    constructor
    · rintro ((h | ⟨h1, h2⟩) | ⟨h1, h2⟩)
      · exact Or.inl h
      · exact Or.inr ⟨h1, h2 ▸ List.mem_cons_self⟩
      · exact Or.inr ⟨h1, List.mem_cons_of_mem _ h2⟩
    · rintro (h | ⟨h1, h2⟩)
      · exact Or.inl (Or.inl h)
      · cases h2 with
        | head => exact Or.inl (Or.inr ⟨h1, rfl⟩)
        | tail _ h2 => exact Or.inr ⟨h1, h2⟩

/-- the edges one module contributes -/
def ModEdge (mb : Module × Option (List Name)) (x d : Name) : Prop :=
  (x = mb.1.name ∧ d ∈ mb.2.getD []) ∨ (x = rootNode ∧ d = mb.1.name) ∨
    (mb.1.isGlobalBuildDep = false ∧ x = mb.1.name ∧ d = globalNode)

theorem edge_graphAddModule (g : DepGraph) (mb : Module × Option (List Name)) (x d : Name) :
    Edge (graphAddModule g mb) x d ↔ Edge g x d ∨ ModEdge mb x d := by
  unfold graphAddModule graphAddModuleEdges ModEdge
  split
  · rename_i hg
    have hg' : mb.1.isGlobalBuildDep = false := by simpa using hg
    rw [edge_add, edge_add, edge_foldl_add]
    simp only [hg', true_and]
    constructor
    · rintro (((h | h) | h) | h)
      · exact Or.inl h
      · exact Or.inr (Or.inl h)
      · exact Or.inr (Or.inr (Or.inl h))
      · exact Or.inr (Or.inr (Or.inr h))
    · rintro (h | h | h | h)
      · exact Or.inl (Or.inl (Or.inl h))
      · exact Or.inl (Or.inl (Or.inr h))
      · exact Or.inl (Or.inr h)
      · exact Or.inr h
  · rename_i hg
    have hg' : mb.1.isGlobalBuildDep = true := by simpa using hg
    rw [edge_add, edge_foldl_add]
    simp only [hg', Bool.true_eq_false, false_and, or_false]
    constructor
    · rintro ((h | h) | h)
      · exact Or.inl h
      · exact Or.inr (Or.inl h)
      · exact Or.inr (Or.inr h)
    · rintro (h | h | h)
      · exact Or.inl (Or.inl h)
      · exact Or.inl (Or.inr h)
      · exact Or.inr h

theorem edge_foldl_graphAddModule (mods : List (Module × Option (List Name))) (g : DepGraph) (x d : Name) :
    Edge (mods.foldl graphAddModule g) x d ↔ Edge g x d ∨ ∃ mb ∈ mods, ModEdge mb x d := by
  induction mods generalizing g with
  | nil => simp
  | cons a l ih =>
    rw [List.foldl_cons, ih, edge_graphAddModule]
    constructor
    · rintro ((h | h) | ⟨mb, hmb, h⟩)
      · exact Or.inl h
      · exact Or.inr ⟨a, List.mem_cons_self, h⟩
      · exact Or.inr ⟨mb, List.mem_cons_of_mem _ hmb, h⟩
    · rintro (h | ⟨mb, hmb, h⟩)
      · exact Or.inl (Or.inl h)
      · cases hmb with
        | head => exact Or.inl (Or.inr h)
        | tail _ hmb => exact Or.inr ⟨mb, hmb, h⟩

/-- the edges of the build-order graph: `_global_build_deps →` every global build dep, and for every
    module: `module →` its build deps, `root → module`, `module → _global_build_deps` unless it is a
    global build dep itself -/
theorem edge_buildGraph (mods : List (Module × Option (List Name))) (x d : Name) :
    Edge (buildGraph mods) x d ↔
      (x = globalNode ∧ ∃ mb ∈ mods, mb.1.isGlobalBuildDep = true ∧ d = mb.1.name) ∨
        ∃ mb ∈ mods, ModEdge mb x d := by
  unfold buildGraph
  rw [edge_foldl_graphAddModule]
  have : ∀ (l : List Name) g, l.foldl graphAddGlobal g = l.foldl (fun g d => g.add globalNode d) g :=
    fun _ _ => rfl
  rw [this, edge_foldl_add]
  simp only [edge_empty, false_or, List.mem_map, List.mem_filter]
  constructor
  · rintro (⟨h1, mb, ⟨hmb, hg⟩, rfl⟩ | h)
    · exact Or.inl ⟨h1, mb, hmb, hg, rfl⟩
    · exact Or.inr h
  · rintro (⟨h1, mb, hmb, hg, rfl⟩ | h)
    · exact Or.inl ⟨h1, mb, ⟨hmb, hg⟩, rfl⟩
    · exact Or.inr h

/-! ### the DFS (`solvent`) -/


/-- `get_next_dependency` returns the start node or the target of an edge -/
theorem nextDependency_reach {g : DepGraph} {sat : List Name} :
    ∀ (fuel : Nat) (path : List Name) (pos n : Name), nextDependency g sat fuel path pos = some n →
      n = pos ∨ ∃ p, Edge g p n := by
  intro fuel
  induction fuel with
  | zero => intro path pos n h; unfold nextDependency at h; cases h
  | succ fuel ih =>
    intro path pos n h
    unfold nextDependency at h
    split at h
    · cases h
    · split at h
      · cases h; exact Or.inl rfl
      · rename_i deplist hdeps
        split at h
        · rename_i n' hn'
          have hedge : Edge g pos n' := by
            unfold Edge; rw [hdeps]; exact List.mem_of_find?_eq_some hn'
          cases ih _ _ _ h with
          | inl h3 => exact Or.inr ⟨pos, h3 ▸ hedge⟩
          | inr h3 => exact Or.inr h3
        · cases h; exact Or.inl rfl

/-- every emitted node was satisfied before, or is the target, or is the target of an edge -/
theorem dependenciesOf_reach {g : DepGraph} {target : Name} {size : Nat} :
    ∀ (fuel : Nat) (sat out : List Name), dependenciesOf g target size fuel sat = some out →
      ∀ n ∈ out, n ∈ sat ∨ n = target ∨ ∃ p, Edge g p n := by
  intro fuel
  induction fuel with
  | zero => intro sat out h; unfold dependenciesOf at h; cases h
  | succ fuel ih =>
    intro sat out h
    unfold dependenciesOf at h
    split at h
    · cases h; exact fun n hn => Or.inl hn
    · split at h
      · cases h
      · rename_i x hx
        intro n hn
        cases ih _ _ h n hn with
        | inl hs =>
          rw [List.mem_append, List.mem_singleton] at hs
          cases hs with
          | inl hs => exact Or.inl hs
          | inr hs => exact Or.inr (hs ▸ nextDependency_reach _ _ _ _ hx)
        | inr hr => exact Or.inr hr

theorem isRealNode_root : isRealNode rootNode = false := by decide
theorem isRealNode_global : isRealNode globalNode = false := by decide

/-- the names in the build order are module names or build-dep names -/
theorem buildOrder_mem {mods : List (Module × Option (List Name))} {order : List Name}
    (h : buildOrder mods = some order) {n : Name} (hn : n ∈ order) :
    n ∈ mods.map (·.1.name) ∨ ∃ mb ∈ mods, n ∈ mb.2.getD [] := by
  unfold buildOrder at h
  cases hd : dependenciesOf (buildGraph mods) rootNode (mods.length + 3) (mods.length + 3 + 1) [] with
  | none => rw [hd] at h; cases h
  | some out =>
    rw [hd] at h
    cases h
    obtain ⟨hn, hreal⟩ := List.mem_filter.1 hn
    rcases dependenciesOf_reach _ _ _ hd n hn with h0 | h0 | ⟨p, hp⟩
    · cases h0
    · rw [h0, isRealNode_root] at hreal; cases hreal
    · rw [edge_buildGraph] at hp
      rcases hp with ⟨_, mb, hmb, _, rfl⟩ | ⟨mb, hmb, hp⟩
      · exact Or.inl (List.mem_map.2 ⟨mb, hmb, rfl⟩)
      · rcases hp with hp | hp | hp
        · exact Or.inr ⟨mb, hmb, hp.2⟩
        · exact Or.inl (List.mem_map.2 ⟨mb, hmb, hp.2.symm⟩)
        · rw [hp.2.2, isRealNode_global] at hreal; cases hreal

/-- the build deps collected by the `build_env` loop are names of modules of the list -/
theorem buildEnvLoop_bdeps_sub {deps : List Module} {m : Module} :
    ∀ {env : Env} {bdeps : Option (List Name)} {p : Env × Option (List Name)},
      buildEnvLoop deps m env bdeps = .ok p →
      ∀ d ∈ p.2.getD [], d ∈ bdeps.getD [] ∨ ∃ x ∈ deps, x.name = d := by
  induction deps with
  | nil =>
    intro env bdeps p h d hd
    unfold buildEnvLoop at h
    cases h
    exact Or.inl hd
  | cons x xs ih =>
    intro env bdeps p h d hd
    unfold buildEnvLoop at h
    split at h
    · cases h
    · rcases ih h d hd with h' | ⟨y, hy, rfl⟩
      · unfold addBuildDep at h'
        split at h'
        · unfold bdepInsert at h'
          rw [Option.getD_some] at h'
          split at h'
          · exact Or.inl h'
          · rw [List.mem_append, List.mem_singleton] at h'
            cases h' with
            | inl h' => exact Or.inl h'
            | inr h' => exact Or.inr ⟨x, List.mem_cons_self, h'.symm⟩
        · exact Or.inl h'
      · exact Or.inr ⟨y, List.mem_cons_of_mem _ hy, rfl⟩

/-- the build deps of a module env are names of selected modules -/
theorem buildEnv_bdeps_sub {r : Resolved} {m : Module} {genv : Env} {p : Env × Option (List Name)}
    (h : buildEnv r m genv = .ok p) : ∀ d ∈ p.2.getD [], ∃ x ∈ r.modules, x.name = d := by
  intro d hd
  unfold buildEnv at h
  split at h
  · cases h
  · rename_i q hq
    cases h
    rcases buildEnvLoop_bdeps_sub hq d hd with h' | ⟨x, hx, rfl⟩
    · cases h'
    · unfold importedModules at hx
      obtain ⟨n, _, hn⟩ := List.mem_filterMap.1 hx
      exact ⟨x, List.mem_of_find?_eq_some hn, rfl⟩

/-- the module envs are `buildEnv` of the given modules, in order -/
theorem moduleEnvs_spec {r : Resolved} {genv : Env} {ms : List Module} {menvs : List ModEnv}
    (h : moduleEnvs r genv ms = .ok menvs) :
    menvs.map (·.1) = ms ∧ ∀ me ∈ menvs, buildEnv r me.1 genv = .ok (me.2.1, me.2.2) := by
  induction ms generalizing menvs with
  | nil => unfold moduleEnvs at h; cases h; exact ⟨rfl, fun _ h => by cases h⟩
  | cons m ms ih =>
    unfold moduleEnvs at h
    split at h
    · cases h
    · rename_i p hp
      split at h
      · cases h
      · rename_i rest hrest
        cases h
        obtain ⟨h1, h2⟩ := ih hrest
        refine ⟨by simp [h1], ?_⟩
        intro me hme
        cases hme with
        | head => exact hp
        | tail _ hme => exact h2 me hme

/-- **the lookup in the module loop cannot fail**: every name of the build order of the module envs
    of a selection is the name of one of these module envs -/
theorem buildOrder_names {r : Resolved} {genv : Env} {menvs : List ModEnv} {order : List Name}
    (hm : moduleEnvs r genv r.modules = .ok menvs) (ho : buildOrder (menvs.map ModEnv.deps) = some order) :
    ∀ n ∈ order, ∃ me ∈ menvs, me.1.name = n := by
  obtain ⟨hmods, hbe⟩ := moduleEnvs_spec hm
  intro n hn
  rcases buildOrder_mem ho hn with h | ⟨mb, hmb, hd⟩
  · obtain ⟨mb, hmb, rfl⟩ := List.mem_map.1 h
    obtain ⟨me, hme, rfl⟩ := List.mem_map.1 hmb
    exact ⟨me, hme, rfl⟩
  · obtain ⟨me, hme, rfl⟩ := List.mem_map.1 hmb
    obtain ⟨x, hx, rfl⟩ := buildEnv_bdeps_sub (hbe me hme) n hd
    rw [← hmods] at hx
    obtain ⟨me', hme', rfl⟩ := List.mem_map.1 hx
    exact ⟨me', hme', rfl⟩

/-! ### `configure_build` -/

theorem configureOrdered_np (ev : EvalExpr) (st : Settings) (b : Bag) (builder : Name) (app : Module)
    (r : Resolved) (rules : List (String × Rule)) (opts : Option VarOpts) (gflat : Flat) (outfile : String)
    (menvs : List ModEnv) (genv : Env) (hm : moduleEnvs r genv r.modules = .ok menvs) :
    NoPanic (configureOrdered ev st b builder app r rules opts gflat outfile menvs) := by
  unfold configureOrdered
  split
  · exact np_ok _
  · rename_i order ho
    np_match (modulesLoop_np _ _ _ _ _ _ _ _ _ _ (buildOrder_names hm ho) _ _)
    np_match (finishBuild_np _ _ _ _ _ _ _ _ _ _ _)
    exact np_ok _

theorem configureWithEnv_np (ev : EvalExpr) (st : Settings) (b : Bag) (builder : Name) (app : Module)
    (r : Resolved) (genv : Env) (gflat : Flat) : NoPanic (configureWithEnv ev st b builder app r genv gflat) := by
  unfold configureWithEnv
  np_match (unwrapX_np _ _)
  split
  · exact NoPanic.of_eq (moduleEnvs_np _ _ _) (by assumption)
  · rename_i menvs hm
    exact configureOrdered_np _ _ _ _ _ _ _ _ _ _ _ _ hm

theorem configureSelection_np (ev : EvalExpr) (st : Settings) (b : Bag) (builder : Name) (app : Module)
    (cli : Cli) (r : Resolved) : NoPanic (configureSelection ev st b builder app cli r) := by
  unfold configureSelection
  np_match (globalFlat_np _ _)
  exact configureWithEnv_np _ _ _ _ _ _ _ _

theorem configureResolved_np (ev : EvalExpr) (st : Settings) (b : Bag) (builder : Name) (app : Module)
    (cli : Cli) (rs : RState) : NoPanic (configureResolved ev st b builder app cli rs) :=
  configureSelection_np _ _ _ _ _ _ _

/-- **C15.1** `configure_build` never panics — for every bag, builder, app, command line and
    expression evaluator. In particular the `modules.get(dep_name)` lookup of the module loop always
    succeeds (`buildOrder_names`). -/
theorem configureBuild_no_panic (ev : EvalExpr) (st : Settings) (b : Bag) (builder : Name) (app : Module)
    (cli : Cli) : ∀ site, configureBuild ev st b builder app cli ≠ .error (.panic site) := by
  show NoPanic _
  unfold configureBuild
  split
  · exact np_ok _
  · split
    · exact np_ok _
    · split
      · exact np_ok _
      · exact configureResolved_np _ _ _ _ _ _ _

/-- so the result is a configured (or dropped) build, or a reported error -/
theorem configureBuild_total (ev : EvalExpr) (st : Settings) (b : Bag) (builder : Name) (app : Module)
    (cli : Cli) :
    (∃ o, configureBuild ev st b builder app cli = .ok o) ∨
      ∃ k, configureBuild ev st b builder app cli = .error (.error k) := by
  cases h : configureBuild ev st b builder app cli with
  | ok o => exact Or.inl ⟨o, rfl⟩
  | error e =>
    cases e with
    | error k => exact Or.inr ⟨k, rfl⟩
    | panic s => exact absurd h (configureBuild_no_panic ev st b builder app cli s)


/-! ## 2. `Generator::execute` -/

theorem selectedBuilders_np (b : Bag) (sel : Selector) : NoPanic (selectedBuilders b sel) := by
  unfold selectedBuilders
  split
  · exact np_ok _
  · refine np_mapM (fun n => ?_) _
    split
    · split
      · exact np_ok _
      · exact np_err _
    · exact np_err _

theorem np_throw_bind {α β} (k : String) (f : α → Except GErr β) :
    NoPanic ((throw (GErr.error k) : Except GErr α) >>= f) := np_err k

theorem selectedBins_np (b : Bag) (apps : Selector) (mode : Mode) : NoPanic (selectedBins b apps mode) := by
  unfold selectedBins
  cases apps <;> cases mode <;> dsimp only <;> repeat' split
  all_goals first | exact np_ok _ | exact np_err _ | exact np_throw_bind _ _

theorem buildTuples_np (h : String → Nat) (b : Bag) (a : Args) : NoPanic (buildTuples h b a) := by
  unfold buildTuples
  exact NoPanic.bind (selectedBuilders_np _ _) fun _ => NoPanic.bind (selectedBins_np _ _ _) fun _ => np_ok _

/-- every failure of a run is the failure of one `configure_build` -/
theorem mem_failuresOf_configureAll {ev : EvalExpr} {st : Settings} {b : Bag} {cli : Cli}
    {tuples : List (Context × Module)} {e : GErr} (he : e ∈ failuresOf (configureAll ev st b cli tuples)) :
    ∃ cm ∈ tuples, configureBuild ev st b cm.1.name cm.2 cli = .error e := by
  unfold failuresOf configureAll at he
  obtain ⟨x, hx, hxe⟩ := List.mem_filterMap.1 he
  obtain ⟨cm, hcm, rfl⟩ := List.mem_map.1 hx
  refine ⟨cm, hcm, ?_⟩
  dsimp only at hxe
  split at hxe
  · rename_i e' he'
    cases hxe
    exact he'
  · cases hxe

/-- the failures of a run are reported errors -/
theorem failuresOf_no_panic {ev : EvalExpr} {st : Settings} {b : Bag} {cli : Cli}
    {tuples : List (Context × Module)} {e : GErr} (he : e ∈ failuresOf (configureAll ev st b cli tuples)) :
    ∀ s, e ≠ .panic s := by
  obtain ⟨cm, _, hcm⟩ := mem_failuresOf_configureAll he
  rintro s rfl
  exact configureBuild_no_panic _ _ _ _ _ _ s hcm

/-- the outcome of a run contains no panic -/
def outcomeNoPanic : GenOutcome → Prop
  | .failed errs => ∀ e ∈ errs, ∀ s, e ≠ GErr.panic s
  | .done _ => True

/-- **C15.2** `laze build`'s generator run ends with a result — the ninja file, or the list of the
    tuples' reported errors, none of which is a panic — or with a reported error -/
theorem generate_no_panic (ev : EvalExpr) (h : String → Nat) (st : Settings) (b : Bag) (a : Args) :
    (∃ o, generate ev h st b a = .ok o ∧ outcomeNoPanic o) ∨ ∃ k, generate ev h st b a = .error (.error k) := by
  unfold generate
  cases ht : buildTuples h b a with
  | error e =>
    cases e with
    | error k => exact Or.inr ⟨k, rfl⟩
    | panic s => exact absurd ht (buildTuples_np h b a s)
  | ok tuples =>
    left
    show ∃ o, (match failuresOf (configureAll ev st b a.cli tuples) with
      | [] => _
      | errs => _) = Except.ok o ∧ outcomeNoPanic o
    split
    · exact ⟨_, rfl, trivial⟩
    · exact ⟨_, rfl, fun e he => failuresOf_no_panic he⟩

/-- in the form of the task statement: never `.error (.panic _)`, and no `.panic` among the errors
    of a failed run -/
theorem generate_no_panic' (ev : EvalExpr) (h : String → Nat) (st : Settings) (b : Bag) (a : Args) :
    (∀ s, generate ev h st b a ≠ .error (.panic s)) ∧
      ∀ errs, generate ev h st b a = .ok (.failed errs) → ∀ e ∈ errs, ∀ s, e ≠ .panic s := by
  rcases generate_no_panic ev h st b a with ⟨o, ho, hnp⟩ | ⟨k, hk⟩
  · refine ⟨fun s hs => (by rw [ho] at hs; cases hs), ?_⟩
    intro errs he
    rw [ho] at he
    cases he
    exact hnp
  · refine ⟨fun s hs => (by rw [hk] at hs; cases hs), ?_⟩
    intro errs he
    rw [hk] at he
    cases he


/-! ## 3. the loader never panics

Everything after the file work-list only fails with a *reported* error (`Reported`); the work-list
itself (`loadFiles`) can in addition run out of fuel (`LErr.hang`, §4) but never panics. -/

/-- the computation succeeds or fails with a reported error: no panic, no hang -/
def Reported {α} (x : Except LErr α) : Prop := ∀ e, x = .error e → ∃ k, e = .error k

theorem rp_ok {α} (v : α) : Reported (.ok v : Except LErr α) := fun _ h => by cases h
theorem rp_err {α} (k : String) : Reported (.error (.error k) : Except LErr α) :=
  fun _ h => by cases h; exact ⟨k, rfl⟩

theorem Reported.of_eq {α β} {x : Except LErr α} {e : LErr} (h : Reported x) (he : x = .error e) :
    Reported (.error e : Except LErr β) := by
  intro e' he'
  cases he'
  exact h e he

theorem Reported.bind {α β} {x : Except LErr α} {f : α → Except LErr β} (hx : Reported x)
    (hf : ∀ v, Reported (f v)) : Reported (x >>= f) := by
  cases x with
  | ok v => exact hf v
  | error e => exact hx.of_eq rfl

theorem Reported.map {α β} {x : Except LErr α} (f : α → β) (hx : Reported x) : Reported (x.map f) := by
  cases x with
  | ok v => exact rp_ok _
  | error e => exact hx.of_eq rfl

theorem rp_mapM {α β} {f : α → Except LErr β} (hf : ∀ a, Reported (f a)) (l : List α) :
    Reported (l.mapM f) := by
  induction l with
  | nil => rw [List.mapM_nil]; exact rp_ok _
  | cons a l ih =>
    rw [List.mapM_cons]
    exact Reported.bind (hf a) fun _ => Reported.bind ih fun _ => rp_ok _

theorem Reported.no_panic {α} {x : Except LErr α} (h : Reported x) (s : String) : x ≠ .error (.panic s) := by
  intro hx
  obtain ⟨k, hk⟩ := h _ hx
  cases hk

theorem Reported.no_hang {α} {x : Except LErr α} (h : Reported x) (w : String) : x ≠ .error (.hang w) := by
  intro hx
  obtain ⟨k, hk⟩ := h _ hx
  cases hk

/-- `match x with | .error e => .error e | .ok v => …` with a `Reported` `x` -/
macro "rp_match " hx:term : tactic =>
  `(tactic| (split; · exact Reported.of_eq $hx (by assumption)))

/-! ### contexts -/

theorem depFromString_rp (s : String) : Reported (depFromString s) := by
  unfold depFromString
  split
  · exact rp_err _
  · split <;> exact rp_ok _

theorem depFromStringIf_rp (s other : String) : Reported (depFromStringIf s other) := by
  unfold depFromStringIf
  split
  · exact rp_err _
  · split <;> exact rp_ok _

theorem earlyX_rp {α} (x : Except XErr α) : Reported (earlyX x) := by
  unfold earlyX
  split
  · exact rp_ok _
  · exact rp_err _

theorem expandTaskStr_rp (flat : Flat) (s : String) : Reported (expandTaskStr flat s) := by
  unfold expandTaskStr
  split
  · exact rp_ok _
  · exact rp_err _

theorem expandTaskWorkdir_rp (flat : Flat) (w : Option String) : Reported (expandTaskWorkdir flat w) := by
  unfold expandTaskWorkdir
  split
  · exact Reported.map _ (expandTaskStr_rp _ _)
  · exact rp_ok _

theorem taskWithEnv_rp (flat : Flat) (t : Task) : Reported (taskWithEnv flat t) := by
  unfold taskWithEnv
  exact Reported.bind (rp_mapM (expandTaskStr_rp flat) _) fun _ =>
    Reported.bind (expandTaskWorkdir_rp _ _) fun _ => rp_ok _

theorem convertTask_rp (flat : Flat) (nt : String × Task) : Reported (convertTask flat nt) :=
  Reported.map _ (taskWithEnv_rp _ _)

theorem convertTasks_rp (tasks : List (String × Task)) (early : Env) : Reported (convertTasks tasks early) :=
  rp_mapM (convertTask_rp _) _

theorem convertOptTasks_rp (early : Env) (t : Option (List (String × Task))) :
    Reported (convertOptTasks early t) := by
  unfold convertOptTasks
  split
  · exact Reported.map _ (convertTasks_rp _ _)
  · exact rp_ok _

theorem expandOptEnv_rp (early : Env) (e : Option Env) : Reported (expandOptEnv early e) := by
  unfold expandOptEnv
  split
  · exact Reported.map _ (earlyX_rp _)
  · exact rp_ok _

theorem convertContext_rp (y : YContext) (isBuilder : Bool) (filename : String) :
    Reported (convertContext y isBuilder filename) := by
  unfold convertContext
  exact Reported.bind (convertOptTasks_rp _ _) fun _ => Reported.bind (expandOptEnv_rp _ _) fun _ =>
    Reported.bind (rp_mapM depFromString_rp _) fun _ => rp_ok _

theorem parentCounts_rp (cs : List Context) (l : List Context) : Reported (parentCounts cs l) := by
  induction l with
  | nil => unfold parentCounts; exact rp_ok _
  | cons c rest ih =>
    unfold parentCounts
    split
    · exact rp_err _
    · rp_match ih
      exact rp_ok _

theorem finalizeBag_rp (cs : List Context) : Reported (finalizeBag cs) := by
  unfold finalizeBag
  split
  · exact rp_err _
  · rp_match (parentCounts_rp _ _)
    exact rp_ok _

theorem finalize_rp (cs0 : List Context) : Reported (finalize cs0) := finalizeBag_rp _

theorem addModule_rp (cs : List Context) (m : Module) : Reported (addModule cs m) := by
  unfold addModule
  split
  · exact rp_err _
  · split
    · exact rp_err _
    · exact rp_ok _

/-! ### modules -/

theorem depIf_rp (cond s : String) : Reported (depIf cond s) := depFromStringIf_rp _ _

theorem mapEntryDeps_rp (l : List (String × List String)) : Reported (mapEntryDeps l) := by
  induction l with
  | nil => unfold mapEntryDeps; exact rp_ok _
  | cons kv rest ih =>
    obtain ⟨k, v⟩ := kv
    unfold mapEntryDeps
    rp_match (rp_mapM (depIf_rp k) v)
    rp_match ih
    exact rp_ok _

theorem entryDeps_rp (e : YEntry) : Reported (entryDeps e) := by
  unfold entryDeps
  split
  · exact Reported.map _ (depFromString_rp _)
  · exact mapEntryDeps_rp _

theorem entriesToDeps_rp (l : List YEntry) : Reported (entriesToDeps l) := by
  induction l with
  | nil => unfold entriesToDeps; exact rp_ok _
  | cons e rest ih =>
    unfold entriesToDeps
    rp_match (entryDeps_rp _)
    rp_match ih
    exact rp_ok _

theorem expandModuleEnvs_rp (m : Module) : Reported (expandModuleEnvs m) := by
  unfold expandModuleEnvs
  exact Reported.bind (earlyX_rp _) fun _ => Reported.bind (earlyX_rp _) fun _ =>
    Reported.bind (earlyX_rp _) fun _ => rp_ok _

theorem withTasks_rp (y : YModule) (m : Module) : Reported (withTasks y m) := by
  unfold withTasks
  split
  · exact rp_ok _
  · rp_match (convertTasks_rp _ _)
    exact rp_ok _

theorem convertModule_rp (y : YModule) (context : Option String) (isBinary : Bool) (filename : String)
    (defaults : Option Module) (buildDir : String) :
    Reported (convertModule y context isBinary filename defaults buildDir) := by
  unfold convertModule
  exact Reported.bind (entriesToDeps_rp _) fun _ => Reported.bind (rp_mapM depFromString_rp _) fun _ =>
    Reported.bind (entriesToDeps_rp _) fun _ => Reported.bind (expandModuleEnvs_rp _) fun _ =>
    Reported.bind (withTasks_rp _ _) fun _ => rp_ok _

theorem convertDefaults_rp (d : LDoc) (sub : Option Module) (isBinary : Bool) (buildDir : String) (y : YModule) :
    Reported (convertDefaults d sub isBinary buildDir y) := by
  unfold convertDefaults
  split
  · exact rp_err _
  · split
    · exact rp_ok _
    · rename_i e he
      obtain ⟨k, rfl⟩ := convertModule_rp _ _ _ _ _ _ e he
      exact rp_err _

theorem getDefaults_rp (d : LDoc) (map : List (Nat × Module)) (key : String) (isBinary : Bool)
    (buildDir : String) : Reported (getDefaults d map key isBinary buildDir) := by
  unfold getDefaults
  split
  · exact convertDefaults_rp _ _ _ _ _
  · exact rp_ok _

/-! ### `data::load` after the work-list -/

theorem addContext_rp (filename : String) (isB : Bool) (acc : List Context × List Module) (y : YContext) :
    Reported (addContext filename isB acc y) := by
  unfold addContext
  split
  · exact rp_err _
  · rp_match (convertContext_rp _ _ _)
    exact rp_ok _

theorem addContexts_rp (filename : String) (isB : Bool) (ys : List YContext) :
    ∀ acc, Reported (addContexts filename isB ys acc) := by
  induction ys with
  | nil => intro acc; unfold addContexts; exact rp_ok _
  | cons y ys ih =>
    intro acc
    unfold addContexts
    rp_match (addContext_rp _ _ _ _)
    exact ih _

theorem convertContextsOfDoc_rp (d : LDoc) (acc : List Context × List Module) :
    Reported (convertContextsOfDoc d acc) := by
  unfold convertContextsOfDoc
  rp_match (addContexts_rp _ _ _ _)
  exact addContexts_rp _ _ _ _

theorem convertContextsOfDocs_rp (ds : List LDoc) : ∀ acc, Reported (convertContextsOfDocs ds acc) := by
  induction ds with
  | nil => intro acc; unfold convertContextsOfDocs; exact rp_ok _
  | cons d ds ih =>
    intro acc
    unfold convertContextsOfDocs
    rp_match (convertContextsOfDoc_rp _ _)
    exact ih _

theorem addModules_rp (ms : List Module) : ∀ cs, Reported (addModules ms cs) := by
  induction ms with
  | nil => intro cs; unfold addModules; exact rp_ok _
  | cons m ms ih =>
    intro cs
    unfold addModules
    rp_match (addModule_rp _ _)
    exact ih _

theorem addConverted_rp (buildDir : String) (d : LDoc) (isB : Bool) (defaults : Option Module) (y : YModule)
    (c : Option String) (cs : List Context) : Reported (addConverted buildDir d isB defaults y c cs) := by
  unfold addConverted
  rp_match (convertModule_rp _ _ _ _ _ _)
  exact addModule_rp _ _

theorem addModuleContexts_rp (buildDir : String) (d : LDoc) (isB : Bool) (defaults : Option Module)
    (y : YModule) (l : List (Option String)) : ∀ cs, Reported (addModuleContexts buildDir d isB defaults y l cs) := by
  induction l with
  | nil => intro cs; unfold addModuleContexts; exact rp_ok _
  | cons c rest ih =>
    intro cs
    unfold addModuleContexts
    rp_match (addConverted_rp _ _ _ _ _ _ _)
    exact ih _

theorem addYModules_rp (buildDir : String) (d : LDoc) (isB : Bool) (defaults : Option Module)
    (ys : List YModule) : ∀ cs, Reported (addYModules buildDir d isB defaults ys cs) := by
  induction ys with
  | nil => intro cs; unfold addYModules; exact rp_ok _
  | cons y ys ih =>
    intro cs
    unfold addYModules
    rp_match (addModuleContexts_rp _ _ _ _ _ _ _)
    exact ih _

theorem addModuleSection_rp (buildDir : String) (d : LDoc) (isB : Bool) (defaults : Option Module)
    (sec : Option (Option (List YModule))) (cs : List Context) :
    Reported (addModuleSection buildDir d isB defaults sec cs) := by
  unfold addModuleSection
  split
  · exact rp_ok _
  · exact addYModules_rp _ _ _ _ _ _
  · split
    · exact addConverted_rp _ _ _ _ _ _ _
    · exact rp_ok _

theorem addModulesOfDoc_rp (buildDir : String) (d : LDoc) (md ad : Option Module) (cs : List Context) :
    Reported (addModulesOfDoc buildDir d md ad cs) := by
  unfold addModulesOfDoc
  rp_match (addModuleSection_rp _ _ _ _ _ _)
  exact addModuleSection_rp _ _ _ _ _ _

theorem loadDocStep_rp (buildDir : String) (d : LDoc) (s : LoadState) : Reported (loadDocStep buildDir d s) := by
  unfold loadDocStep
  rp_match (getDefaults_rp _ _ _ _ _)
  rp_match (getDefaults_rp _ _ _ _ _)
  rp_match (addModulesOfDoc_rp _ _ _ _ _)
  exact rp_ok _

theorem loadModulesLoop_rp (buildDir : String) (ds : List LDoc) : ∀ s, Reported (loadModulesLoop buildDir ds s) := by
  induction ds with
  | nil => intro s; unfold loadModulesLoop; exact rp_ok _
  | cons d ds ih =>
    intro s
    unfold loadModulesLoop
    rp_match (loadDocStep_rp _ _ _)
    exact ih _

/-- everything after the files are read fails only with a reported error -/
theorem loadDocs_rp (buildDir : String) (docs : List LDoc) : Reported (loadDocs buildDir docs) := by
  unfold loadDocs
  exact Reported.bind (convertContextsOfDocs_rp _ _) fun _ => Reported.bind (finalize_rp _) fun _ =>
    Reported.bind (addModules_rp _ _) fun _ => Reported.bind (loadModulesLoop_rp _ _ _) fun _ => rp_ok _

/-! ### the work-list -/

/-- the work-list loop fails only with "cannot read file" or by running out of fuel -/
theorem loadFiles_err (fs : Files) : ∀ (fuel pos : Nat) (incs : List FileInclude) (docs : List LDoc) (e : LErr),
    loadFiles fs fuel pos incs docs = .error e →
      e = .error "cannot read file" ∨ e = .hang "include work-list does not terminate" := by
  intro fuel
  induction fuel with
  | zero =>
    intro pos incs docs e h
    unfold loadFiles at h
    split at h
    · cases h; exact Or.inr rfl
    · cases h
  | succ fuel ih =>
    intro pos incs docs e h
    unfold loadFiles at h
    split at h
    · cases h
    · split at h
      · cases h; exact Or.inl rfl
      · exact ih _ _ _ _ h

/-- **C15.3** the loader never panics -/
theorem load_no_panic (fs : Files) (projectFile buildDir : String) :
    ∀ site, load fs projectFile buildDir ≠ .error (.panic site) := by
  intro site h
  unfold load at h
  cases hf : loadFiles fs (4 * fs.length + 8) 0 [⟨projectFile, none⟩] [] with
  | error e =>
    rw [hf] at h
    cases h
    rcases loadFiles_err _ _ _ _ _ _ hf with h' | h' <;> cases h'
  | ok di =>
    rw [hf] at h
    cases hd : loadDocs buildDir di.1 with
    | error e =>
      have h' : (Except.error e : Except LErr (Bag × List String)) = .error (.panic site) := by
        simpa [hd, bind, Except.bind] using h
      cases h'
      exact (loadDocs_rp _ _).no_panic _ hd
    | ok cs =>
      simp [hd, bind, Except.bind, pure, Except.pure] at h


/-! ## 4. the include work-list terminates

Identity of a work-list entry is `pathComponents filename` (`incKey`). The work-list never holds two
entries with the same key (`addInclude`), it only grows at the end, and every processed entry was
found in the file table. So the processed entries inject into the file table: at most `fs.length`
files are ever read, and the fuel `4 * fs.length + 8` is never exhausted. -/

def incKey (i : FileInclude) : List String := pathComponents i.filename
def fileKey (fd : String × List YDoc) : List String := pathComponents fd.1

/-- pigeonhole: a duplicate-free list contained in another list is not longer -/
theorem nodup_subset_length_le {α} [DecidableEq α] : ∀ (l₁ l₂ : List α), l₁.Nodup → l₁ ⊆ l₂ →
    l₁.length ≤ l₂.length := by
  intro l₁
  induction l₁ with
  | nil => intro l₂ _ _; exact Nat.zero_le _
  | cons a t ih =>
    intro l₂ hnd hsub
    rw [List.nodup_cons] at hnd
    have ha : a ∈ l₂ := hsub List.mem_cons_self
    have ht : t ⊆ l₂.erase a := by
      intro x hx
      have hne : x ≠ a := fun h => hnd.1 (h ▸ hx)
      exact (List.mem_erase_of_ne hne).2 (hsub (List.mem_cons_of_mem _ hx))
    have := ih (l₂.erase a) hnd.2 ht
    rw [List.length_erase_of_mem ha] at this
    have hpos : 0 < l₂.length := List.length_pos_of_mem ha
    rw [List.length_cons]
    omega

/-- `incs'` extends `incs` at the end and keeps the keys pairwise different -/
def Ext (incs incs' : List FileInclude) : Prop :=
  incs <+: incs' ∧ ((incs.map incKey).Nodup → (incs'.map incKey).Nodup)

theorem Ext.refl (incs : List FileInclude) : Ext incs incs := ⟨List.prefix_refl _, id⟩

theorem Ext.trans {a b c : List FileInclude} (h1 : Ext a b) (h2 : Ext b c) : Ext a c :=
  ⟨h1.1.trans h2.1, fun h => h2.2 (h1.2 h)⟩

theorem addInclude_ext (incs : List FileInclude) (fi : FileInclude) : Ext incs (addInclude incs fi) := by
  unfold addInclude
  split
  · exact Ext.refl _
  · rename_i hc
    refine ⟨List.prefix_append _ _, fun hnd => ?_⟩
    rw [List.map_append, List.nodup_append]
    refine ⟨hnd, by simp, ?_⟩
    intro a ha b hb
    rw [List.map_singleton, List.mem_singleton] at hb
    subst hb
    obtain ⟨x, hx, rfl⟩ := List.mem_map.1 ha
    intro heq
    apply hc
    rw [List.contains_iff_exists_mem_beq]
    exact ⟨x, hx, by
      show (pathComponents fi.filename == pathComponents x.filename) = true
      rw [beq_iff_eq]; exact heq.symm⟩

theorem foldl_ext {β} (f : List FileInclude → β → List FileInclude) (hf : ∀ acc x, Ext acc (f acc x))
    (l : List β) : ∀ acc, Ext acc (l.foldl f acc) := by
  induction l with
  | nil => intro acc; exact Ext.refl _
  | cons x l ih => intro acc; rw [List.foldl_cons]; exact (hf acc x).trans (ih _)

theorem docIncludes_ext (rel : String) (incs : List FileInclude) (nd : LDoc) : Ext incs (docIncludes rel incs nd) := by
  unfold docIncludes
  exact (foldl_ext addInclude addInclude_ext _ _).trans (foldl_ext addInclude addInclude_ext _ _)

/-- reading a file only extends the work-list -/
theorem docsIncludes_ext (rel : String) (l : List LDoc) (incs : List FileInclude) :
    Ext incs (l.foldl (docIncludes rel) incs) :=
  foldl_ext _ (docIncludes_ext rel) _ _

/-- the first `pos` entries are unchanged by an extension -/
theorem take_of_prefix {α} {l l' : List α} (h : l <+: l') {n : Nat} (hn : n ≤ l.length) : l'.take n = l.take n := by
  obtain ⟨t, rfl⟩ := h
  rw [List.take_append_of_le_length hn]

/-- the invariant bounds the number of processed entries -/
theorem processed_le (fs : Files) (pos : Nat) (incs : List FileInclude)
    (hnd : (incs.map incKey).Nodup) (hfound : ∀ i ∈ incs.take pos, ∃ fd ∈ fs, fileKey fd = incKey i)
    (hpos : pos ≤ incs.length) : pos ≤ fs.length := by
  have h1 : ((incs.take pos).map incKey).Nodup :=
    hnd.sublist ((List.take_sublist _ _).map _)
  have h2 : (incs.take pos).map incKey ⊆ fs.map fileKey := by
    intro k hk
    obtain ⟨i, hi, rfl⟩ := List.mem_map.1 hk
    obtain ⟨fd, hfd, hk⟩ := hfound i hi
    exact List.mem_map.2 ⟨fd, hfd, hk⟩
  have := nodup_subset_length_le _ _ h1 h2
  rw [List.length_map, List.length_map, List.length_take, Nat.min_eq_left hpos] at this
  exact this

/-- the work-list loop never runs out of fuel when started with more fuel than files left to read -/
theorem loadFiles_no_hang (fs : Files) : ∀ (fuel pos : Nat) (incs : List FileInclude) (docs : List LDoc),
    (incs.map incKey).Nodup → (∀ i ∈ incs.take pos, ∃ fd ∈ fs, fileKey fd = incKey i) →
    pos ≤ incs.length → fs.length < pos + fuel →
    ∀ w, loadFiles fs fuel pos incs docs ≠ .error (.hang w) := by
  intro fuel
  induction fuel with
  | zero =>
    intro pos incs docs hnd hfound hpos hfuel
    have := processed_le fs pos incs hnd hfound hpos
    omega
  | succ fuel ih =>
    intro pos incs docs hnd hfound hpos hfuel w h
    unfold loadFiles at h
    split at h
    · cases h
    · rename_i inc hinc
      split at h
      · cases h
      · rename_i fd hfd
        obtain ⟨hlt, hget⟩ := List.getElem?_eq_some_iff.1 hinc
        have hext := docsIncludes_ext (pathParent inc.filename) (fd.2.zipIdx.map (mkLDoc inc docs.length)) incs
        refine ih (pos + 1) _ _ (hext.2 hnd) ?_ ?_ (by omega) w h
        · rw [take_of_prefix hext.1 (by omega : pos + 1 ≤ incs.length), List.take_add_one, hinc]
          intro i hi
          rw [List.mem_append] at hi
          cases hi with
          | inl hi => exact hfound i hi
          | inr hi =>
            rw [Option.toList_some, List.mem_singleton] at hi
            subst hi
            refine ⟨fd, List.mem_of_find?_eq_some hfd, ?_⟩
            have := List.find?_some hfd
            exact beq_iff_eq.1 this
        · exact Nat.le_trans (by omega : pos + 1 ≤ incs.length) hext.1.length_le

/-- **C15.4 (strong form)** `load` never reports a non-terminating include work-list — for EVERY
    file table (the injectivity argument does not need pairwise different paths in `fs`: `find?`
    maps different keys to different table entries anyway) -/
theorem load_no_hang_strong (fs : Files) (projectFile buildDir : String) :
    ∀ w, load fs projectFile buildDir ≠ .error (.hang w) := by
  intro w h
  unfold load at h
  cases hf : loadFiles fs (4 * fs.length + 8) 0 [⟨projectFile, none⟩] [] with
  | error e =>
    rw [hf] at h
    cases h
    refine loadFiles_no_hang fs _ 0 _ _ ?_ ?_ (Nat.zero_le _) (by omega) w hf
    · simp
    · intro i hi; simp at hi
  | ok di =>
    rw [hf] at h
    cases hd : loadDocs buildDir di.1 with
    | error e =>
      have h' : (Except.error e : Except LErr (Bag × List String)) = .error (.hang w) := by
        simpa [hd, bind, Except.bind] using h
      cases h'
      exact (loadDocs_rp _ _).no_hang _ hd
    | ok cs =>
      simp [hd, bind, Except.bind, pure, Except.pure] at h

/-- **C15.4** with pairwise different paths in the file table, `load` does not hang -/
theorem load_no_hang (fs : Files) (projectFile buildDir : String)
    (_hfs : (fs.map (fun fd => pathComponents fd.1)).Nodup) :
    ∀ w, load fs projectFile buildDir ≠ .error (.hang w) :=
  load_no_hang_strong fs projectFile buildDir

/-- so `load` succeeds or fails with a reported error -/
theorem load_total (fs : Files) (projectFile buildDir : String) :
    (∃ r, load fs projectFile buildDir = .ok r) ∨ ∃ k, load fs projectFile buildDir = .error (.error k) := by
  cases h : load fs projectFile buildDir with
  | ok r => exact Or.inl ⟨r, rfl⟩
  | error e =>
    cases e with
    | error k => exact Or.inr ⟨k, rfl⟩
    | panic s => exact absurd h (load_no_panic fs projectFile buildDir s)
    | hang w => exact absurd h (load_no_hang_strong fs projectFile buildDir w)


/-! ## 5. malformed input is rejected with a diagnostic -/

/-- a context whose parent count is undefined makes `parentCounts` fail -/
theorem parentCounts_cycle {cs : List Context} {c : Context}
    (hc : countParents cs (cs.length + 1) c.name = none) :
    ∀ {l : List Context}, c ∈ l → parentCounts cs l = .error (.error "context_bag.rs:parent cycle") := by
  intro l
  induction l with
  | nil => intro h; cases h
  | cons x rest ih =>
    intro hmem
    unfold parentCounts
    split
    · rfl
    · rename_i k hk
      have hrest : c ∈ rest := by
        cases hmem with
        | head => rw [hc] at hk; cases hk
        | tail _ h => exact h
      rw [ih hrest]

/-- **C15.5a** a context that is its own ancestor (its parent count is undefined) is rejected by
    `finalize` with "parent cycle" — unless `finalize` already failed with "unknown parent". Never
    success, never a panic (the implementation used to recurse until the stack overflowed). -/
theorem parent_cycle_rejected {cs0 : List Context} {c : Context} (hmem : c ∈ withDefaultContext cs0)
    (hc : countParents (withDefaultContext cs0) ((withDefaultContext cs0).length + 1) c.name = none) :
    finalize cs0 = .error (.error "context_bag.rs:parent cycle") ∨
      finalize cs0 = .error (.error "unknown parent") := by
  unfold finalize finalizeBag
  split
  · exact Or.inr rfl
  · rw [parentCounts_cycle hc hmem]
    exact Or.inl rfl

/-- so a bag that `finalize` accepts has a parent count for every context -/
theorem finalize_ok_counts {cs0 : List Context} {r : List Context × List (Name × Nat)}
    (h : finalize cs0 = .ok r) {c : Context} (hmem : c ∈ withDefaultContext cs0) :
    ∃ k, countParents (withDefaultContext cs0) ((withDefaultContext cs0).length + 1) c.name = some k := by
  cases hk : countParents (withDefaultContext cs0) ((withDefaultContext cs0).length + 1) c.name with
  | some k => exact ⟨k, rfl⟩
  | none =>
    rcases parent_cycle_rejected hmem hk with h' | h' <;> rw [h'] at h <;> cases h

/-! "its own ancestor", literally: following `parent` links from `n` comes back to `n` -/

/-- the parent of the context named `n` -/
def parentStep (cs : List Context) (n : Name) : Option Name := (cs.find? (·.name == n)).bind (·.parent)

/-- the `j`-th ancestor -/
def ancestor (cs : List Context) : Nat → Name → Option Name
  | 0, n => some n
  | j+1, n => (parentStep cs n).bind (ancestor cs j)

theorem ancestor_succ' (cs : List Context) : ∀ (j : Nat) (n : Name),
    ancestor cs (j+1) n = (ancestor cs j n).bind (parentStep cs) := by
  intro j
  induction j with
  | zero =>
    intro n
    show (parentStep cs n).bind (fun x => some x) = parentStep cs n
    cases parentStep cs n <;> rfl
  | succ j ih =>
    intro n
    show (parentStep cs n).bind (ancestor cs (j+1)) = ((parentStep cs n).bind (ancestor cs j)).bind (parentStep cs)
    cases parentStep cs n with
    | none => rfl
    | some p => exact ih p

/-- on a parent cycle the parent count is undefined, whatever the fuel -/
theorem countParents_cycle (cs : List Context) : ∀ (fuel : Nat) (n : Name) (j : Nat),
    ancestor cs (j+1) n = some n → countParents cs fuel n = none := by
  intro fuel
  induction fuel with
  | zero => intro n j _; rfl
  | succ fuel ih =>
    intro n j hj
    have hj' := hj
    rw [ancestor] at hj'
    cases hp : parentStep cs n with
    | none => rw [hp] at hj'; cases hj'
    | some p =>
      rw [hp] at hj'
      have hpj : ancestor cs (j+1) p = some p := by
        rw [ancestor_succ', show ancestor cs j p = some n from hj']
        exact hp
      unfold parentStep at hp
      unfold countParents
      split
      · rename_i hnone; rw [hnone] at hp; cases hp
      · rename_i c hsome
        rw [hsome] at hp
        split
        · rename_i hpar
          rw [Option.bind_some, hpar] at hp
          cases hp
        · rename_i p' hpar
          rw [Option.bind_some, hpar] at hp
          cases hp
          rw [ih p j hpj]
          rfl

/-- **C15.5a'** a context on a parent cycle (some `j+1`-th ancestor of `c` is `c` again) is rejected -/
theorem parent_cycle_rejected' {cs0 : List Context} {c : Context} (hmem : c ∈ withDefaultContext cs0) {j : Nat}
    (hcyc : ancestor (withDefaultContext cs0) (j+1) c.name = some c.name) :
    finalize cs0 = .error (.error "context_bag.rs:parent cycle") ∨
      finalize cs0 = .error (.error "unknown parent") :=
  parent_cycle_rejected hmem (countParents_cycle _ _ _ j hcyc)

/-- **C15.5b** an empty dependency name is rejected (the implementation used to index out of bounds) -/
theorem empty_name_rejected : depFromString "" = .error (.error "data.rs:empty dependency name") := by
  decide

theorem empty_name_rejected_if (cond : String) :
    depFromStringIf "" cond = .error (.error "data.rs:empty dependency name") := by
  unfold depFromStringIf
  rw [if_pos (by decide)]

/-! ## 6. examples: the hypotheses are satisfiable, the failure points are real -/

namespace Ex

/-- the panic site of the module loop is live when the order names something that is not a module
    env — `modulesLoop_np`'s hypothesis (discharged by `buildOrder_names`) is what excludes it -/
example (ev : EvalExpr) (st : Settings) (app : Module) (r : Resolved) :
    modulesLoop ev st "b" app r [] none [] [] ["x"] {} [] =
      .error (.panic "generate.rs:modules.get(dep_name)") := rfl

/-- an app importing a build dependency: the hypotheses of `buildOrder_names` hold, and every name
    of the build order is a module env -/
def depMod : Module := { name := "dep", contextName := "default", srcdir := some "dep", isBuildDep := true }
def appMod : Module := { name := "app", contextName := "default", srcdir := some "app", imports := [.hard "dep"] }
def sel : Resolved := { modules := [appMod, depMod], providers := [] }
def selEnvs : List ModEnv :=
  [(appMod, [("notify", .list [defineName "dep", defineName "app"])], some ["dep"]),
   (depMod, [("notify", .list [defineName "dep"])], none)]

example : ∀ n ∈ ["dep", "app"], ∃ me ∈ selEnvs, me.1.name = n :=
  buildOrder_names (r := sel) (genv := []) (menvs := selEnvs) rfl (by decide)

/-- the fuel check of the work-list is live: with too little fuel it reports a hang -/
example : loadFiles [] 0 0 [⟨"laze-project.yml", none⟩] [] =
    .error (.hang "include work-list does not terminate") := rfl

/-- two contexts that are each other's parent -/
def cycle2 : List Context := [{ name := "a", parent := some "b" }, { name := "b", parent := some "a" }]

example : ancestor (withDefaultContext cycle2) 2 "a" = some "a" := by decide

/-- the two-context parent cycle is rejected by `finalize`, with the "parent cycle" diagnostic -/
example : (match finalize cycle2 with
    | .error (.error k) => k == "context_bag.rs:parent cycle"
    | _ => false) = true := by decide

/-- … and `parent_cycle_rejected'` applies to it -/
example : finalize cycle2 = .error (.error "context_bag.rs:parent cycle") ∨
    finalize cycle2 = .error (.error "unknown parent") :=
  parent_cycle_rejected' (c := { name := "a", parent := some "b" }) (j := 1)
    (by
      show _ ∈ (if _ then cycle2 else cycle2 ++ [defaultContext])
      rw [if_neg (by decide)]
      exact List.mem_append_left _ List.mem_cons_self)
    (by decide)

/-- a project file that includes itself -/
def selfInclude : Files := [("laze-project.yml", [{ includes := some ["laze-project.yml"] }])]

/-- on the self-including file table `load` does not hang (the hypothesis of `load_no_hang` holds) -/
example : ∀ w, load selfInclude "laze-project.yml" "build" ≠ .error (.hang w) :=
  load_no_hang selfInclude _ _ (by simp [selfInclude])

/-- … it ends with a bag or a reported error (`#eval` shows: success, one document read, work-list
    `["laze-project.yml"]`) -/
example : (∃ r, load selfInclude "laze-project.yml" "build" = .ok r) ∨
    ∃ k, load selfInclude "laze-project.yml" "build" = .error (.error k) :=
  load_total _ _ _

end Ex

end Laze.C15
