import LazeModel.Model.Select
/-! C06: rule blocks are functional in their (hashed) name, the entry set is duplicate free and
    insertion ordered (rules before use), the output file of a configured build is a target,
    laze-chosen paths lie under the build directory. -/
namespace Laze.C06
open Laze

/-! ### 1. rule text is determined by the hashed fields -/

/-- "no 64-bit collision" for the rule hasher -/
def HashInj : Prop :=
  ∀ r1 r2 : NinjaRule, r1.hash = r2.hash →
    r1.name = r2.name ∧ r1.command = r2.command ∧ r1.description = r2.description ∧ r1.deps = r2.deps ∧
    r1.rspfile = r2.rspfile ∧ r1.rspfileContent = r2.rspfileContent ∧ r1.pool = r2.pool ∧ r1.always = r2.always

/-- the text of a rule block only depends on the hashed fields (`always` and `export` do not occur) -/
theorem render_determined {r1 r2 : NinjaRule}
    (hn : r1.name = r2.name) (hc : r1.command = r2.command) (hd : r1.description = r2.description)
    (hg : r1.deps = r2.deps) (hr : r1.rspfile = r2.rspfile) (hrc : r1.rspfileContent = r2.rspfileContent)
    (hp : r1.pool = r2.pool) : r1.render = r2.render := by
  unfold NinjaRule.render
  rw [hn, hc, hd, hg, hr, hrc, hp]

theorem named_name (r : NinjaRule) : r.named.name = r.name ++ "_" ++ r.hash := rfl
theorem named_command (r : NinjaRule) : r.named.command = r.command := rfl

/-- under `HashInj`, equal hashes give equal rule text -/
theorem render_eq_of_hash_eq (hi : HashInj) {r1 r2 : NinjaRule} (h : r1.hash = r2.hash) :
    r1.render = r2.render := by
  obtain ⟨hn, hc, hd, hg, hr, hrc, hp, _⟩ := hi r1 r2 h
  exact render_determined hn hc hd hg hr hrc hp

/-- two rule blocks with the same base name and the same hashed name are the same text -/
theorem rule_names_functional (hi : HashInj) {r1 r2 : NinjaRule}
    (hnamed : r1.named.name = r2.named.name) (hbase : r1.name = r2.name) :
    r1.named.render = r2.named.render := by
  rw [named_name, named_name, hbase, String.append_right_inj] at hnamed
  obtain ⟨hn, hc, hd, hg, hr, hrc, hp, _⟩ := hi r1 r2 hnamed
  apply render_determined
  · rw [named_name, named_name, hn, hnamed]
  · exact hc
  · exact hd
  · exact hg
  · exact hr
  · exact hrc
  · exact hp

/-- the same, and the two named rules also agree on `always` (which `buildFromRule` copies into the
    statements that use the rule) -/
theorem rule_names_functional_always (hi : HashInj) {r1 r2 : NinjaRule}
    (hnamed : r1.named.name = r2.named.name) (hbase : r1.name = r2.name) :
    r1.named.always = r2.named.always := by
  rw [named_name, named_name, hbase, String.append_right_inj] at hnamed
  exact (hi r1 r2 hnamed).2.2.2.2.2.2.2

/-- the rules the generator makes from laze rules: same laze rule name + same ninja name ⇒ same text -/
theorem mkNinjaRule_functional (hi : HashInj) {rule1 rule2 : Rule} {pre1 cmd1 pre2 cmd2 : String}
    {d1 d2 : Option String} (hbase : rule1.name = rule2.name)
    (hname : (mkNinjaRule rule1 pre1 cmd1 d1).name = (mkNinjaRule rule2 pre2 cmd2 d2).name) :
    (mkNinjaRule rule1 pre1 cmd1 d1).render = (mkNinjaRule rule2 pre2 cmd2 d2).render :=
  rule_names_functional hi hname hbase

/-- the rules of custom builds (base name `BUILD`) -/
theorem customRule_functional (hi : HashInj) {cb1 cb2 : CustomBuild} {cmd1 cmd2 : String}
    (hname : (customRule cb1 cmd1).name = (customRule cb2 cmd2).name) :
    (customRule cb1 cmd1).render = (customRule cb2 cmd2).render :=
  rule_names_functional hi hname rfl

example : ({ name := "CC", command := "gcc" } : NinjaRule).named.name
    = ({ name := "CC", command := "gcc", «export» := some [] } : NinjaRule).named.name := by decide

/-! ### 2. the entry set -/

theorem mem_addEntry {es : List String} {e x : String} : x ∈ addEntry es e ↔ x ∈ es ∨ x = e := by
  unfold addEntry
  split
  · rename_i h
    have : e ∈ es := by simpa using h
    constructor
    · exact Or.inl
    · rintro (h | h)
      · exact h
      · exact h ▸ this
  · simp

theorem addEntry_nodup {es : List String} {e : String} (h : es.Nodup) : (addEntry es e).Nodup := by
  unfold addEntry
  split
  · exact h
  · rename_i hc
    have : e ∉ es := by simpa using hc
    rw [List.nodup_append]
    refine ⟨h, by simp, ?_⟩
    intro a ha b hb
    rw [List.mem_singleton] at hb
    subst hb
    intro hab
    exact this (hab ▸ ha)

theorem prefix_addEntry (es : List String) (e : String) : es <+: addEntry es e := by
  unfold addEntry
  split
  · exact List.prefix_refl _
  · exact List.prefix_append _ _

theorem mem_addEntries {l es : List String} {x : String} : x ∈ addEntries es l ↔ x ∈ es ∨ x ∈ l := by
  unfold addEntries
  induction l generalizing es with
  | nil => simp
  | cons a l ih =>
    rw [List.foldl_cons, ih, mem_addEntry, List.mem_cons, or_assoc]

theorem addEntries_nodup {l es : List String} (h : es.Nodup) : (addEntries es l).Nodup := by
  unfold addEntries
  induction l generalizing es with
  | nil => exact h
  | cons a l ih => exact ih (addEntry_nodup h)

theorem prefix_addEntries (es l : List String) : es <+: addEntries es l := by
  unfold addEntries
  induction l generalizing es with
  | nil => exact List.prefix_refl _
  | cons a l ih => exact List.IsPrefix.trans (prefix_addEntry es a) (ih _)

theorem addEntries_nil (es : List String) : addEntries es [] = es := rfl
theorem addEntries_cons (es : List String) (a : String) (l : List String) :
    addEntries es (a :: l) = addEntries (addEntry es a) l := rfl

theorem addEntries_append (es l₁ l₂ : List String) :
    addEntries es (l₁ ++ l₂) = addEntries (addEntries es l₁) l₂ := by
  unfold addEntries; rw [List.foldl_append]

/-- positions: something in a prefix comes before anything outside the prefix -/
theorem idxOf_lt_of_prefix {p l : List String} {x e : String} (hp : p <+: l) (hx : x ∈ p) (he : e ∉ p) :
    l.idxOf x < l.idxOf e := by
  obtain ⟨t, rfl⟩ := hp
  rw [List.idxOf_append, List.idxOf_append, if_pos hx, if_neg he]
  have := List.idxOf_lt_length_of_mem hx
  omega

/-- `addEntries es [a, b]`: `a` is present, and comes before `b` unless `b` was there already -/
theorem addEntries_pair_order (es : List String) (a b : String) (hb : b ∉ es) (hab : a ≠ b) :
    (addEntries es [a, b]).idxOf a < (addEntries es [a, b]).idxOf b := by
  have hp : addEntry es a <+: addEntries es [a, b] := prefix_addEntries (addEntry es a) [b]
  apply idxOf_lt_of_prefix hp
  · rw [mem_addEntry]; exact Or.inr rfl
  · rw [mem_addEntry]
    rintro (h | h)
    · exact hb h
    · exact hab h.symm

example : (addEntries ["x"] ["a", "b"]).idxOf "a" < (addEntries ["x"] ["a", "b"]).idxOf "b" :=
  addEntries_pair_order ["x"] "a" "b" (by decide) (by decide)

/-! #### `generate` -/

theorem foldl_addEntries_nodup {builds : List BuildInfo} {es : List String} (h : es.Nodup) :
    (builds.foldl (fun es i => addEntries es i.entries) es).Nodup := by
  induction builds generalizing es with
  | nil => exact h
  | cons i is ih => exact ih (addEntries_nodup h)

theorem foldl_addEntries_mem {builds : List BuildInfo} {es : List String} {x : String} :
    x ∈ builds.foldl (fun es i => addEntries es i.entries) es ↔ x ∈ es ∨ ∃ i ∈ builds, x ∈ i.entries := by
  induction builds generalizing es with
  | nil => simp
  | cons i is ih =>
    rw [List.foldl_cons, ih, mem_addEntries]
    simp only [List.mem_cons, exists_eq_or_imp, or_assoc]

theorem foldl_addEntries_prefix {builds : List BuildInfo} {es : List String} :
    es <+: builds.foldl (fun es i => addEntries es i.entries) es := by
  induction builds generalizing es with
  | nil => exact List.prefix_refl _
  | cons i is ih => exact List.IsPrefix.trans (prefix_addEntries es i.entries) ih

/-- the combined entry list is the fold of `addEntries` over the configured builds -/
theorem generate_entries {ev h st b a r} (hg : generate ev h st b a = .ok (.done r)) :
    r.entries = r.builds.foldl (fun es i => addEntries es i.entries) [] := by
  unfold generate at hg
  simp only [bind, Except.bind, pure, Except.pure] at hg
  split at hg
  · cases hg
  · split at hg
    · cases hg; rfl
    · cases hg

/-- every rule/build block occurs once in the generated file -/
theorem generate_entries_nodup {ev h st b a r} (hg : generate ev h st b a = .ok (.done r)) :
    r.entries.Nodup := by
  rw [generate_entries hg]
  exact foldl_addEntries_nodup List.nodup_nil

/-- the generated file consists of exactly the blocks of the configured builds -/
theorem generate_entries_mem {ev h st b a r} (hg : generate ev h st b a = .ok (.done r)) (x : String) :
    x ∈ r.entries ↔ ∃ i ∈ r.builds, x ∈ i.entries := by
  rw [generate_entries hg, foldl_addEntries_mem]
  simp

theorem generate_entries_complete {ev h st b a r} (hg : generate ev h st b a = .ok (.done r)) :
    ∀ i ∈ r.builds, ∀ e ∈ i.entries, e ∈ r.entries :=
  fun i hi e he => (generate_entries_mem hg e).2 ⟨i, hi, he⟩

/-- the blocks of the first build come first, in their order -/
theorem generate_first_prefix {ev h st b a r i rest} (hg : generate ev h st b a = .ok (.done r))
    (hb : r.builds = i :: rest) (hn : i.entries.Nodup) : i.entries <+: r.entries := by
  rw [generate_entries hg, hb, List.foldl_cons]
  have : addEntries [] i.entries = i.entries := by
    clear hb hg
    suffices ∀ (l acc : List String), (acc ++ l).Nodup → addEntries acc l = acc ++ l by
      simpa using this i.entries [] (by simpa using hn)
    intro l
    induction l with
    | nil => intro acc _; simp [addEntries_nil]
    | cons x l ih =>
      intro acc hnd
      rw [addEntries_cons]
      have hx : x ∉ acc := by
        intro hx
        rw [List.nodup_append] at hnd
        exact hnd.2.2 x hx x (List.mem_cons_self) rfl
      have : addEntry acc x = acc ++ [x] := by
        unfold addEntry
        rw [if_neg (by simpa using hx)]
      rw [this, ih (acc ++ [x]) (by simpa using hnd)]
      simp
  rw [this]
  exact foldl_addEntries_prefix

/-! ### 3. rules before use -/

/-- `b` extends `a`: old entries keep their positions, no duplicates are introduced -/
def Ext (a b : List String) : Prop := a <+: b ∧ (a.Nodup → b.Nodup)

theorem Ext.refl (a : List String) : Ext a a := ⟨List.prefix_refl _, id⟩
theorem Ext.trans {a b c : List String} (h₁ : Ext a b) (h₂ : Ext b c) : Ext a c :=
  ⟨List.IsPrefix.trans h₁.1 h₂.1, fun h => h₂.2 (h₁.2 h)⟩
theorem Ext.addEntry (es : List String) (e : String) : Ext es (addEntry es e) :=
  ⟨prefix_addEntry es e, addEntry_nodup⟩
theorem Ext.addEntries (es l : List String) : Ext es (addEntries es l) :=
  ⟨prefix_addEntries es l, addEntries_nodup⟩
theorem Ext.mem {a b : List String} (h : Ext a b) {x : String} (hx : x ∈ a) : x ∈ b := h.1.subset hx

theorem mem_addModuleRule {mrules : List (String × NinjaRule)} {ext nr p}
    (h : p ∈ addModuleRule mrules ext nr) : p ∈ mrules ∨ p = (ext, nr) := by
  unfold addModuleRule at h
  split at h
  · exact Or.inl h
  · simpa using h

/-- the first loop over the sources: entries are extended, and the block of every rule in the
    module's rule table is among them -/
theorem moduleRulesLoop_spec {ev rules flat} (ss : List String) {entries mrules em}
    (h : moduleRulesLoop ev rules flat ss entries mrules = .ok em)
    (hinv : ∀ p ∈ mrules, p.2.render ∈ entries) :
    Ext entries em.1 ∧ ∀ p ∈ em.2, p.2.render ∈ em.1 := by
  induction ss generalizing entries mrules with
  | nil =>
    unfold moduleRulesLoop at h
    cases h
    exact ⟨Ext.refl _, hinv⟩
  | cons s ss ih =>
    unfold moduleRulesLoop at h
    split at h
    · cases h
    · rename_i en _
      have hinv' : ∀ p ∈ addModuleRule mrules en.1 en.2, p.2.render ∈ addEntry entries en.2.render := by
        intro p hp
        rcases mem_addModuleRule hp with hp | hp
        · exact mem_addEntry.2 (Or.inl (hinv p hp))
        · subst hp; exact mem_addEntry.2 (Or.inr rfl)
      obtain ⟨h1, h2⟩ := ih h hinv'
      exact ⟨(Ext.addEntry _ _).trans h1, h2⟩

theorem lookupCompileRule_some {rules mrules ext rule nr}
    (h : lookupCompileRule rules mrules ext = some (rule, nr)) :
    rulesGet rules ext = some rule ∧ (ext, nr) ∈ mrules := by
  unfold lookupCompileRule at h
  split at h
  · cases h
  · rename_i rule' hr
    split at h
    · cases h
    · rename_i nr' hf
      cases h
      refine ⟨hr, ?_⟩
      rw [Option.map_eq_some_iff] at hf
      obtain ⟨p, hp, rfl⟩ := hf
      have hm := List.mem_of_find?_eq_some hp
      have he := List.find?_some hp
      have : p.1 = ext := by simpa using he
      rw [← this]
      exact hm

/-- what a successful `compileStmts` returns -/
theorem compileStmts_ok {st builder app rules mrules combined localDeps srcTag srcpath os}
    (h : compileStmts st builder app rules mrules combined localDeps srcTag srcpath = .ok os) :
    ∃ ext rule nr out, pathExtension srcpath = some ext ∧ lookupCompileRule rules mrules ext = some (rule, nr) ∧
      rule.out = some out ∧
      os = compileOut nr combined localDeps srcTag srcpath
             (objectPath st builder app rule nr (depsHashOf combined) out srcpath) := by
  unfold compileStmts at h
  split at h
  · cases h
  · rename_i ext hext
    split at h
    · cases h
    · rename_i rn hrn
      split at h
      · cases h
      · rename_i out hout
        cases h
        exact ⟨ext, rn.1, rn.2, out, hext, hrn, hout, rfl⟩

theorem compileSource_ok {ev st builder app rules mrules flat srcdir combined localDeps srcTag s os}
    (h : compileSource ev st builder app rules mrules flat srcdir combined localDeps srcTag s = .ok os) :
    ∃ srcpath, expandSrcPath ev flat srcdir s = .ok srcpath ∧
      compileStmts st builder app rules mrules combined localDeps srcTag srcpath = .ok os := by
  unfold compileSource at h
  split at h
  · cases h
  · rename_i srcpath hs
    exact ⟨srcpath, hs, h⟩

/-- the second loop over the sources: entries are extended; every source is compiled successfully, its
    statements are among the entries and its object among the objects -/
theorem compileSourcesLoop_spec {ev st builder app rules mrules flat srcdir combined localDeps srcTag}
    (ss : List String) {entries objects eo}
    (h : compileSourcesLoop ev st builder app rules mrules flat srcdir combined localDeps srcTag ss entries objects
          = .ok eo) :
    Ext entries eo.1 ∧ objects <+: eo.2 ∧
    ∀ s ∈ ss, ∃ os, compileSource ev st builder app rules mrules flat srcdir combined localDeps srcTag s = .ok os ∧
      (∀ e ∈ os.2, e ∈ eo.1) ∧ os.1 ∈ eo.2 := by
  induction ss generalizing entries objects with
  | nil =>
    unfold compileSourcesLoop at h
    cases h
    exact ⟨Ext.refl _, List.prefix_refl _, fun s hs => by cases hs⟩
  | cons s ss ih =>
    unfold compileSourcesLoop at h
    split at h
    · cases h
    · rename_i os hos
      obtain ⟨h1, h2, h3⟩ := ih h
      refine ⟨(Ext.addEntries _ _).trans h1, List.IsPrefix.trans (List.prefix_append _ _) h2, ?_⟩
      intro s' hs'
      rcases List.mem_cons.1 hs' with rfl | hs'
      · refine ⟨os, hos, ?_, ?_⟩
        · intro e he
          exact h1.mem (mem_addEntries.2 (Or.inr he))
        · exact h2.subset (by simp)
      · exact h3 s' hs'

/-- **rules before use**, default build step: the rule blocks are inserted by the first loop, whose result
    `em.1` is a prefix of the final entries; every source's compile statement uses a rule of the
    module's table, and that rule's block is in `em.1` -/
theorem rules_before_use {ev st builder app rules flat srcdir sources combined localDeps srcTag ls ls'}
    (h : defaultBuildStep ev st builder app rules flat srcdir sources combined localDeps srcTag ls = .ok ls') :
    ∃ em, moduleRulesLoop ev rules flat sources ls.entries [] = .ok em ∧
      Ext ls.entries em.1 ∧ Ext em.1 ls'.entries ∧
      ∀ s ∈ sources, ∃ srcpath ext rule nr out,
        expandSrcPath ev flat srcdir s = .ok srcpath ∧ pathExtension srcpath = some ext ∧
        lookupCompileRule rules em.2 ext = some (rule, nr) ∧ rule.out = some out ∧
        nr.render ∈ em.1 ∧
        (buildFromRule nr (some [srcpath])
            [objectPath st builder app rule nr (depsHashOf combined) out srcpath] combined).rule = nr.name ∧
        (buildFromRule nr (some [srcpath])
            [objectPath st builder app rule nr (depsHashOf combined) out srcpath] combined).render ∈ ls'.entries ∧
        (∀ e ∈ sourceDepStmts localDeps srcTag srcpath, e ∈ ls'.entries) ∧
        objectPath st builder app rule nr (depsHashOf combined) out srcpath ∈ ls'.objects := by
  unfold defaultBuildStep at h
  split at h
  · cases h
  · rename_i em hem
    split at h
    · cases h
    · rename_i eo heo
      cases h
      obtain ⟨m1, m2⟩ := moduleRulesLoop_spec sources hem (by intro p hp; cases hp)
      obtain ⟨c1, _, c3⟩ := compileSourcesLoop_spec sources heo
      refine ⟨em, hem, m1, c1, ?_⟩
      intro s hs
      obtain ⟨os, hos, hmem, hobj⟩ := c3 s hs
      obtain ⟨srcpath, hsp, hcs⟩ := compileSource_ok hos
      obtain ⟨ext, rule, nr, out, hext, hl, hout, hose⟩ := compileStmts_ok hcs
      have e1 : os.1 = objectPath st builder app rule nr (depsHashOf combined) out srcpath := by
        rw [hose, compileOut]
      have e2 : os.2 = (buildFromRule nr (some [srcpath])
            [objectPath st builder app rule nr (depsHashOf combined) out srcpath] combined).render ::
            sourceDepStmts localDeps srcTag srcpath := by
        rw [hose, compileOut]
      rw [e1] at hobj
      rw [e2] at hmem
      refine ⟨srcpath, ext, rule, nr, out, hsp, hext, hl, hout, ?_, ?_, ?_, ?_, hobj⟩
      · exact m2 (ext, nr) (lookupCompileRule_some hl).2
      · unfold buildFromRule; rfl
      · exact hmem _ List.mem_cons_self
      · intro e he
        exact hmem e (List.mem_cons_of_mem _ he)

/-- positions: the rule block comes before every statement that the step newly inserts -/
theorem rules_before_use_idx {ev st builder app rules flat srcdir sources combined localDeps srcTag ls ls' em}
    (h : defaultBuildStep ev st builder app rules flat srcdir sources combined localDeps srcTag ls = .ok ls')
    (hem : moduleRulesLoop ev rules flat sources ls.entries [] = .ok em)
    {ext : String} {nr : NinjaRule} (hnr : (ext, nr) ∈ em.2) {stmt : String} (hnew : stmt ∉ em.1) :
    ls'.entries.idxOf nr.render < ls'.entries.idxOf stmt := by
  obtain ⟨em', hem', _, h2, _⟩ := rules_before_use h
  rw [hem] at hem'
  cases hem'
  obtain ⟨_, m2⟩ := moduleRulesLoop_spec sources hem (by intro p hp; cases hp)
  exact idxOf_lt_of_prefix h2.1 (m2 (ext, nr) hnr) hnew

theorem defaultBuildStep_ext {ev st builder app rules flat srcdir sources combined localDeps srcTag ls ls'}
    (h : defaultBuildStep ev st builder app rules flat srcdir sources combined localDeps srcTag ls = .ok ls') :
    Ext ls.entries ls'.entries := by
  obtain ⟨em, _, h1, h2, _⟩ := rules_before_use h
  exact h1.trans h2

/-- custom build: rule block, then the build statement (which uses that rule), then the alias -/
theorem customBuildStep_ok {ev flat m srcdir sources combined cb ls ls'}
    (h : customBuildStep ev flat m srcdir sources combined cb ls = .ok ls') :
    ∃ cmd srcs outs, ls'.entries = addEntries ls.entries (customStmts cb cmd srcs outs combined) := by
  unfold customBuildStep at h
  split at h
  · cases h
  unfold customBuildStepCore at h
  simp only [bind, Except.bind, pure, Except.pure] at h
  split at h
  · cases h
  · split at h
    · cases h
    · rename_i cmd _
      split at h
      · cases h
      · rename_i srcs _
        split at h
        · cases h
        · rename_i outs _
          cases h
          exact ⟨cmd, srcs, outs, rfl⟩

theorem customStmts_shape (cb : CustomBuild) (cmd : String) (srcs outs : List String) (combined) :
    ∃ (nr : NinjaRule) (nb : NinjaBuild) (alias : String),
      customStmts cb cmd srcs outs combined = [nr.render, nb.render, alias] ∧ nb.rule = nr.name ∧
      nb.outs = pathSort outs :=
  ⟨customRule cb cmd, _, _, rfl, rfl, rfl⟩

theorem customBuildStep_ext {ev flat m srcdir sources combined cb ls ls'}
    (h : customBuildStep ev flat m srcdir sources combined cb ls = .ok ls') : Ext ls.entries ls'.entries := by
  obtain ⟨cmd, srcs, outs, he⟩ := customBuildStep_ok h
  rw [he]; exact Ext.addEntries _ _

/-- the rule block of a custom build is present, and before its build statement unless that was
    there already -/
theorem customBuildStep_rule_first {ev flat m srcdir sources combined cb ls ls'}
    (h : customBuildStep ev flat m srcdir sources combined cb ls = .ok ls') :
    ∃ (nr : NinjaRule) (nb : NinjaBuild), nb.rule = nr.name ∧ nr.render ∈ ls'.entries ∧ nb.render ∈ ls'.entries ∧
      (nb.render ∉ ls.entries → nr.render ≠ nb.render →
        ls'.entries.idxOf nr.render < ls'.entries.idxOf nb.render) := by
  obtain ⟨cmd, srcs, outs, he⟩ := customBuildStep_ok h
  obtain ⟨nr, nb, alias, hs, hr, _⟩ := customStmts_shape cb cmd srcs outs combined
  rw [hs] at he
  refine ⟨nr, nb, hr, ?_, ?_, ?_⟩
  · rw [he]; exact mem_addEntries.2 (Or.inr (by simp))
  · rw [he]; exact mem_addEntries.2 (Or.inr (by simp))
  · intro hb hab
    rw [he]
    have hp : addEntries ls.entries [nr.render, nb.render] <+: addEntries ls.entries [nr.render, nb.render, alias] := by
      have := prefix_addEntries (addEntries ls.entries [nr.render, nb.render]) [alias]
      rwa [← addEntries_append] at this
    have hlt := addEntries_pair_order ls.entries nr.render nb.render hb hab
    obtain ⟨t, ht⟩ := hp
    rw [← ht, List.idxOf_append, List.idxOf_append,
      if_pos (mem_addEntries.2 (Or.inr (by simp))), if_pos (mem_addEntries.2 (Or.inr (by simp)))]
    exact hlt

/-- link step: the LINK rule block, then the link statement, which uses it and produces `outfile` -/
theorem linkStep_ok {ev rules gflat globals outfile ls es}
    (h : linkStep ev rules gflat globals outfile ls = .ok es) :
    ∃ lr linkRule, rulesByName rules "LINK" = some lr ∧ ruleToNinja ev lr gflat = .ok linkRule ∧
      es = addEntries ls.entries
        [linkRule.render,
         (buildFromRule linkRule (some ls.objects) [outfile] (globalDepFiles globals ls.files)).render] := by
  unfold linkStep at h
  split at h
  · cases h
  · rename_i lr hlr
    split at h
    · cases h
    · rename_i linkRule hl
      cases h
      exact ⟨lr, linkRule, hlr, hl, rfl⟩

theorem linkStep_ext {ev rules gflat globals outfile ls es}
    (h : linkStep ev rules gflat globals outfile ls = .ok es) : Ext ls.entries es := by
  obtain ⟨_, _, _, _, rfl⟩ := linkStep_ok h
  exact Ext.addEntries _ _

/-- post-link step: nothing, or the POST_LINK rule block followed by its statement -/
theorem postLinkStep_ok {ev rules gflat outfile entries eo}
    (h : postLinkStep ev rules gflat outfile entries = .ok eo) :
    (rulesByName rules "POST_LINK" = none ∧ eo = (entries, outfile)) ∨
    ∃ pr ext pl, rulesByName rules "POST_LINK" = some pr ∧ pr.out = some ext ∧ ruleToNinja ev pr gflat = .ok pl ∧
      eo = (addEntries entries
              [pl.render, (buildFromRule pl (some [outfile]) [pathWithExtension outfile ext] none).render],
            pathWithExtension outfile ext) := by
  unfold postLinkStep at h
  split at h
  · rename_i hn
    cases h
    exact Or.inl ⟨hn, rfl⟩
  · rename_i pr hpr
    split at h
    · cases h
    · rename_i ext hext
      split at h
      · cases h
      · rename_i pl hpl
        cases h
        exact Or.inr ⟨pr, ext, pl, hpr, hext, hpl, rfl⟩

theorem postLinkStep_ext {ev rules gflat outfile entries eo}
    (h : postLinkStep ev rules gflat outfile entries = .ok eo) : Ext entries eo.1 := by
  rcases postLinkStep_ok h with ⟨_, rfl⟩ | ⟨_, _, _, _, _, _, rfl⟩
  · exact Ext.refl _
  · exact Ext.addEntries _ _

/-- `addEntries es [rule, stmt]`: both present, rule first unless the statement was already there -/
theorem pair_rule_first (es : List String) (a b : String) :
    a ∈ addEntries es [a, b] ∧ b ∈ addEntries es [a, b] ∧
    (b ∉ es → a ≠ b → (addEntries es [a, b]).idxOf a < (addEntries es [a, b]).idxOf b) :=
  ⟨mem_addEntries.2 (Or.inr (by simp)), mem_addEntries.2 (Or.inr (by simp)), addEntries_pair_order es a b⟩

/-! ### 4. the output file is a target; every block of a build occurs once -/

theorem rule_ne_build (r : NinjaRule) (b : NinjaBuild) : r.render ≠ b.render := by
  intro h
  have := congrArg String.toList h
  simp [NinjaRule.render, NinjaBuild.render, String.append_assoc] at this

private theorem lit1 : "build " = "build" ++ " " := by decide
private theorem lit2 : ": $\n    " = ":" ++ " $\n    " := by decide

private theorem head_shape (o T : String) :
    "build" ++ (" " ++ (o ++ ("" ++ (": $\n    " ++ T)))) = "build " ++ (o ++ (":" ++ (" $\n    " ++ T))) := by
  have : "" ++ (": $\n    " ++ T) = ":" ++ (" $\n    " ++ T) := by
    rw [String.empty_append, lit2, String.append_assoc]
  rw [this, ← String.append_assoc (s₁ := "build") (s₂ := " "), ← lit1]

/-- the text of a statement with the single output `o` starts with `build o:` -/
theorem render_outs_single (b : NinjaBuild) (o : String) (h : b.outs = [o]) :
    ∃ rest, b.render = "build " ++ o ++ ":" ++ rest := by
  unfold NinjaBuild.render
  rw [h]
  simp only [List.map_cons, List.map_nil, String.join_cons, String.join_nil, String.append_assoc]
  rw [head_shape]
  exact ⟨_, rfl⟩

theorem downloadStep_ext {ev m srcdir rules flat ls lt}
    (h : downloadStep ev m srcdir rules flat ls = .ok lt) : Ext ls.entries lt.1.entries := by
  unfold downloadStep at h
  split at h
  · split at h
    · cases h
    · cases h; exact Ext.addEntries _ _
  · split at h
    · cases h
    · cases h; exact Ext.refl _

theorem registerLocalDeps_entries (m : Module) (ls : LoopState) : (registerLocalDeps m ls).entries = ls.entries := by
  unfold registerLocalDeps
  split <;> rfl

theorem buildStep_ext {ev st builder app rules flat m srcdir sources combined srcTag ls ls'}
    (h : buildStep ev st builder app rules flat m srcdir sources combined srcTag ls = .ok ls') :
    Ext ls.entries ls'.entries := by
  unfold buildStep at h
  split at h
  · exact customBuildStep_ext h
  · exact defaultBuildStep_ext h

theorem moduleStmts_ext {ev st builder app r rules globals m bdeps srcdir flat ls ls'}
    (h : moduleStmts ev st builder app r rules globals m bdeps srcdir flat ls = .ok ls') :
    Ext ls.entries ls'.entries := by
  unfold moduleStmts at h
  split at h
  · cases h
  · rename_i lt hlt
    split at h
    · cases h
    · have h1 := downloadStep_ext hlt
      have h2 := buildStep_ext h
      rw [registerLocalDeps_entries] at h2
      exact h1.trans h2

theorem moduleStep_ext {ev st builder app r rules opts globals m menv bdeps ls lf}
    (h : moduleStep ev st builder app r rules opts globals m menv bdeps ls = .ok lf) :
    Ext ls.entries lf.1.entries := by
  unfold moduleStep at h
  split at h
  · cases h; exact Ext.refl _
  · split at h
    · cases h
    · split at h
      · cases h
      · rename_i ls' hls
        cases h
        exact moduleStmts_ext hls

theorem modulesLoop_ext {ev st builder app r rules opts globals menvs} (ns : List Name) {ls mflats lm}
    (h : modulesLoop ev st builder app r rules opts globals menvs ns ls mflats = .ok lm) :
    Ext ls.entries lm.1.entries := by
  induction ns generalizing ls mflats with
  | nil =>
    unfold modulesLoop at h
    cases h; exact Ext.refl _
  | cons n ns ih =>
    unfold modulesLoop at h
    split at h
    · cases h
    · split at h
      · cases h
      · rename_i lf hlf
        exact (moduleStep_ext hlf).trans (ih h)

/-- link and post-link: the result's output file is the output of a statement among the entries, and
    the rule that statement uses has its block among the entries -/
theorem finishBuild_target {ev b builder app r rules gflat outfile globals ls mflats i}
    (h : finishBuild ev b builder app r rules gflat outfile globals ls mflats = .ok i) :
    Ext ls.entries i.entries ∧
    ∃ (nr : NinjaRule) (ins deps : Option (List String)),
      nr.render ∈ i.entries ∧ (buildFromRule nr ins [i.out] deps).render ∈ i.entries := by
  unfold finishBuild at h
  split at h
  · cases h
  · rename_i entries1 hl
    split at h
    · cases h
    · rename_i eo hp
      split at h
      · cases h
      · cases h
        have hx1 := linkStep_ext hl
        have hx2 := postLinkStep_ext hp
        refine ⟨hx1.trans hx2, ?_⟩
        obtain ⟨lr, linkRule, _, _, he1⟩ := linkStep_ok hl
        rcases postLinkStep_ok hp with ⟨_, heo⟩ | ⟨pr, ext, pl, _, _, _, heo⟩
        · refine ⟨linkRule, some ls.objects, globalDepFiles globals ls.files, ?_, ?_⟩
          · show linkRule.render ∈ eo.1
            rw [heo, he1]
            exact (pair_rule_first _ _ _).1
          · show (buildFromRule linkRule (some ls.objects) [eo.2] (globalDepFiles globals ls.files)).render ∈ eo.1
            rw [heo, he1]
            exact (pair_rule_first _ _ _).2.1
        · refine ⟨pl, some [outfile], none, ?_, ?_⟩
          · show pl.render ∈ eo.1
            rw [heo]
            exact (pair_rule_first _ _ _).1
          · show (buildFromRule pl (some [outfile]) [eo.2] none).render ∈ eo.1
            rw [heo]
            exact (pair_rule_first _ _ _).2.1

theorem configureOrdered_target {ev st b builder app r rules opts gflat outfile menvs i}
    (h : configureOrdered ev st b builder app r rules opts gflat outfile menvs = .ok (.build i)) :
    i.entries.Nodup ∧
    ∃ (nr : NinjaRule) (ins deps : Option (List String)),
      nr.render ∈ i.entries ∧ (buildFromRule nr ins [i.out] deps).render ∈ i.entries := by
  unfold configureOrdered at h
  split at h
  · cases h
  · split at h
    · cases h
    · rename_i lm hlm
      split at h
      · cases h
      · rename_i i' hf
        cases h
        obtain ⟨hx, ht⟩ := finishBuild_target hf
        have hx0 := modulesLoop_ext _ hlm
        exact ⟨(hx0.trans hx).2 List.nodup_nil, ht⟩

theorem configureBuild_target {ev st b builder app cli i}
    (h : configureBuild ev st b builder app cli = .ok (.build i)) :
    i.entries.Nodup ∧
    ∃ (nr : NinjaRule) (ins deps : Option (List String)),
      nr.render ∈ i.entries ∧ (buildFromRule nr ins [i.out] deps).render ∈ i.entries := by
  unfold configureBuild at h
  split at h
  · cases h
  · split at h
    · cases h
    · split at h
      · cases h
      · unfold configureResolved configureSelection at h
        split at h
        · cases h
        · unfold configureWithEnv at h
          split at h
          · cases h
          · split at h
            · cases h
            · exact configureOrdered_target h

/-- every block of a configured build occurs once in its entry list -/
theorem configureBuild_entries_nodup {ev st b builder app cli i}
    (h : configureBuild ev st b builder app cli = .ok (.build i)) : i.entries.Nodup :=
  (configureBuild_target h).1

/-- **the output file of a configured build is a target**: some statement of the build has exactly
    `i.out` as its outputs (its text starts with `build <out>:`), and it uses a rule whose block is
    among the build's entries -/
theorem outfile_is_target {ev st b builder app cli i}
    (h : configureBuild ev st b builder app cli = .ok (.build i)) :
    ∃ (nr : NinjaRule) (nb : NinjaBuild), nb.outs = [i.out] ∧ nb.rule = nr.name ∧
      nr.render ∈ i.entries ∧ nb.render ∈ i.entries ∧ ∃ rest, nb.render = "build " ++ i.out ++ ":" ++ rest := by
  obtain ⟨_, nr, ins, deps, h1, h2⟩ := configureBuild_target h
  exact ⟨nr, buildFromRule nr ins [i.out] deps, rfl, rfl, h1, h2, render_outs_single _ _ rfl⟩

/-- the builds of a generator run are results of `configureBuild` -/
theorem generate_builds_configured {ev h st b a r} (hg : generate ev h st b a = .ok (.done r)) :
    ∀ i ∈ r.builds, ∃ (c : Context) (m : Module), configureBuild ev st b c.name m a.cli = .ok (.build i) := by
  unfold generate at hg
  simp only [bind, Except.bind, pure, Except.pure] at hg
  split at hg
  · cases hg
  · split at hg
    · cases hg
      intro i hi
      simp only [List.mem_filterMap] at hi
      obtain ⟨⟨bn, an, o⟩, ⟨⟨bn', an', ro⟩, hall, hro⟩, ho⟩ := hi
      unfold configureAll at hall
      simp only [List.mem_map] at hall
      obtain ⟨⟨c, m⟩, _, hcm⟩ := hall
      refine ⟨c, m, ?_⟩
      simp only [Prod.mk.injEq] at hcm
      obtain ⟨_, _, hcm⟩ := hcm
      rw [hcm]
      cases ro with
      | error e => simp at hro
      | ok o' =>
        simp only [Option.some.injEq, Prod.mk.injEq] at hro
        obtain ⟨_, _, rfl⟩ := hro
        cases o' with
        | noBuild _ => simp at ho
        | build i' => simp only [Option.some.injEq] at ho; rw [ho]
    · cases hg

/-- in the generated file every build's output file is a target -/
theorem generate_outfiles_are_targets {ev h st b a r} (hg : generate ev h st b a = .ok (.done r)) :
    ∀ i ∈ r.builds, ∃ (nr : NinjaRule) (nb : NinjaBuild), nb.outs = [i.out] ∧ nb.rule = nr.name ∧
      nr.render ∈ r.entries ∧ nb.render ∈ r.entries := by
  intro i hi
  obtain ⟨c, m, hc⟩ := generate_builds_configured hg i hi
  obtain ⟨nr, nb, h1, h2, h3, h4, _⟩ := outfile_is_target hc
  exact ⟨nr, nb, h1, h2, generate_entries_complete hg i hi _ h3, generate_entries_complete hg i hi _ h4⟩

/-! ### 5. laze-chosen paths lie under the build directory -/

/-- pushing a relative path keeps the base as a string prefix -/
theorem pathPush_rel (a b : String) (hb : b.startsWith "/" = false) : ∃ rest, pathPush a b = a ++ rest := by
  unfold pathPush
  rw [hb]
  simp only [Bool.false_eq_true, if_false]
  split
  · rename_i h
    have : a = "" := by simpa using h
    subst this
    exact ⟨b, by simp⟩
  · split
    · exact ⟨b, rfl⟩
    · exact ⟨"/" ++ b, by rw [String.append_assoc]⟩

theorem pathPush_abs (a b : String) (hb : b.startsWith "/" = true) : pathPush a b = b := by
  unfold pathPush
  rw [if_pos hb]

/-- with a non-empty base that does not end in `/`, a `/` is inserted -/
theorem pathPush_rel_sep (a b : String) (hb : b.startsWith "/" = false) (ha : a ≠ "")
    (ha' : a.endsWith "/" = false) : pathPush a b = a ++ "/" ++ b := by
  unfold pathPush
  rw [hb, ha']
  have : (a == "") = false := by simpa using ha
  rw [this]
  simp

theorem objects_rel : ("objects".startsWith "/") = false := by simp

/-- the directory of shared objects -/
theorem objectsDir_eq (st : Settings) (h1 : st.buildDir ≠ "") (h2 : st.buildDir.endsWith "/" = false) :
    pathPush st.buildDir "objects" = st.buildDir ++ "/objects" := by
  rw [pathPush_rel_sep _ _ objects_rel h1 h2, String.append_assoc]
  rfl

theorem objectDir_under (st : Settings) (builder app : Name) (rule : Rule)
    (hb : builder.startsWith "/" = false) (ha : app.startsWith "/" = false) :
    ∃ rest, objectDir st builder app rule = pathPush st.buildDir "objects" ++ rest := by
  unfold objectDir
  split
  · exact ⟨"", by simp⟩
  · obtain ⟨r1, h1⟩ := pathPush_rel (pathPush st.buildDir "objects") builder hb
    obtain ⟨r2, h2⟩ := pathPush_rel (pathPush (pathPush st.buildDir "objects") builder) app ha
    exact ⟨r1 ++ r2, by rw [h2, h1, String.append_assoc]⟩

/-- **object files lie under `<build-dir>/objects`** provided the object's relative name (the expanded
    source path with its extension replaced) is not absolute, and, for non-shareable rules, neither the
    builder nor the app name starts with `/`. -/
theorem under_builddir (st : Settings) (builder app : Name) (rule : Rule) (nr : NinjaRule) (h : Option String)
    (out srcpath : String)
    (hrel : (pathWithExtension srcpath (objectExt rule nr h out)).startsWith "/" = false)
    (hb : builder.startsWith "/" = false) (ha : app.startsWith "/" = false) :
    ∃ rest, objectPath st builder app rule nr h out srcpath = pathPush st.buildDir "objects" ++ rest := by
  unfold objectPath
  obtain ⟨r1, h1⟩ := objectDir_under st builder app rule hb ha
  obtain ⟨r2, h2⟩ := pathPush_rel (objectDir st builder app rule) _ hrel
  exact ⟨r1 ++ r2, by rw [h2, h1, String.append_assoc]⟩

/-- the same with the usual shape of the build directory spelled out -/
theorem under_builddir' (st : Settings) (builder app : Name) (rule : Rule) (nr : NinjaRule) (h : Option String)
    (out srcpath : String) (h1 : st.buildDir ≠ "") (h2 : st.buildDir.endsWith "/" = false)
    (hrel : (pathWithExtension srcpath (objectExt rule nr h out)).startsWith "/" = false)
    (hb : builder.startsWith "/" = false) (ha : app.startsWith "/" = false) :
    ∃ rest, objectPath st builder app rule nr h out srcpath = st.buildDir ++ "/objects" ++ rest := by
  rw [← objectsDir_eq st h1 h2]
  exact under_builddir st builder app rule nr h out srcpath hrel hb ha

/-- shareable rules: no condition on builder and app -/
theorem under_builddir_shareable (st : Settings) (builder app : Name) (rule : Rule) (nr : NinjaRule)
    (h : Option String) (out srcpath : String) (hs : rule.shareable = true)
    (hrel : (pathWithExtension srcpath (objectExt rule nr h out)).startsWith "/" = false) :
    ∃ rest, objectPath st builder app rule nr h out srcpath = pathPush st.buildDir "objects" ++ rest := by
  unfold objectPath objectDir
  rw [if_pos hs]
  exact pathPush_rel _ _ hrel

/-- COUNTEREXAMPLE to the unconditional statement: an absolute (expanded) source path puts the object
    next to the source, outside the build directory (`Utf8PathBuf::push` of an absolute path replaces
    the whole path). -/
theorem absolute_source_escapes (st : Settings) (builder app : Name) (rule : Rule) (nr : NinjaRule)
    (h : Option String) (out srcpath : String)
    (habs : (pathWithExtension srcpath (objectExt rule nr h out)).startsWith "/" = true) :
    objectPath st builder app rule nr h out srcpath = pathWithExtension srcpath (objectExt rule nr h out) := by
  unfold objectPath
  exact pathPush_abs _ _ habs

/-- download directories and tag files -/
theorem download_srcdir_under (d : Download) (buildDir relpath name : String)
    (hdl : ∀ dl, d.dldir = some dl → dl.startsWith "/" = false)
    (hr : relpath.startsWith "/" = false) (hn : name.startsWith "/" = false) :
    ∃ rest, d.srcdir buildDir relpath name = pathPush buildDir "dl" ++ rest := by
  unfold Download.srcdir
  dsimp only
  split
  · rename_i dl hdl'
    exact pathPush_rel _ _ (hdl dl hdl')
  · obtain ⟨r1, h1⟩ := pathPush_rel (pathPush buildDir "dl") relpath hr
    obtain ⟨r2, h2⟩ := pathPush_rel (pathPush (pathPush buildDir "dl") relpath) name hn
    exact ⟨r1 ++ r2, by rw [h2, h1, String.append_assoc]⟩

theorem dl_under (buildDir : String) : ∃ rest, pathPush buildDir "dl" = buildDir ++ rest :=
  pathPush_rel _ _ (by simp)

theorem tagfile_under (d : Download) (srcdir : String) : ∃ rest, d.tagfile srcdir = srcdir ++ rest := by
  unfold Download.tagfile Download.tagfilePatched Download.tagfileDownload
  split
  · exact pathPush_rel _ _ (by simp)
  · exact pathPush_rel _ _ (by simp)

/-! #### concrete data (evaluated; `decide` cannot run `String.splitOn`) -/
section Examples
private def cc : Rule := { name := "CC", cmd := "gcc -c ${in} -o ${out}", out := some "o" }
private def ccN : Rule := { cc with shareable := false }
private def ccNr : NinjaRule := mkNinjaRule cc "" "gcc -c ${in} -o ${out}" none

-- hypotheses of `under_builddir` hold for an ordinary relative source
#guard (pathWithExtension "src/hello.c" (objectExt ccN ccNr none "o")).startsWith "/" == false
#guard objectPath {} "native" "hello" ccN ccNr none "o" "src/hello.c" == "build/objects/native/hello/src/hello.o"
#guard (objectPath {} "native" "hello" cc ccNr none "o" "src/hello.c").startsWith "build/objects/src/hello."
-- COUNTEREXAMPLES (hypothesis `hrel` / `hb` cannot be dropped):
-- an absolute source path: the object lands next to the source, for every builder and app
#guard objectPath {} "native" "hello" ccN ccNr none "o" "/abs/src/hello.c" == "/abs/src/hello.o"
#guard objectPath {} "other" "app2" ccN ccNr none "o" "/abs/src/hello.c" == "/abs/src/hello.o"
#guard (objectPath {} "native" "hello" cc ccNr none "o" "/abs/src/hello.c").startsWith "/abs/src/hello."
-- `..` segments: a string prefix, but not inside the directory
#guard objectPath {} "native" "hello" ccN ccNr none "o" "../../../x/hello.c" == "build/objects/native/hello/../../../x/hello.o"
-- a builder name starting with `/`
#guard objectPath {} "/native" "hello" ccN ccNr none "o" "src/hello.c" == "/native/hello/src/hello.o"
end Examples

/-! #### a concrete project on which the hypotheses of the theorems above hold (evaluated) -/
section ProjectExample
private def ev0 : EvalExpr := fun _ => .error .expr
private def ccR : Rule := { name := "CC", cmd := "gcc -c ${in} -o ${out}", in_ := some "c", out := some "o" }
private def linkR : Rule := { name := "LINK", cmd := "gcc ${in} -o ${out}", in_ := some "o", out := some "elf" }
private def appM : Module :=
  { name := "hello", contextName := "default", sources := ["hello.c"], srcdir := some "src", isBinary := true,
    relpath := "src" }
private def bag0 : Bag := { contexts := [
  { name := "default", parent := none, modules := [{ name := "context::default", contextName := "default" }, appM],
    rules := some [ccR, linkR] },
  { name := "native", parent := some "default", modules := [{ name := "context::native", contextName := "native" }],
    isBuilder := true }] }

-- `configureBuild … = .ok (.build i)` (hypothesis of `outfile_is_target`, `configureBuild_entries_nodup`)
#guard match configureBuild ev0 {} bag0 "native" appM {} with
  | .ok (.build i) => i.out == "/hello.elf" && i.entries.length == 4 | _ => false
-- `generate … = .ok (.done r)` (hypothesis of `generate_entries_nodup`, `generate_entries_complete`, …)
#guard match generate ev0 (fun _ => 0) {} bag0 {} with
  | .ok (.done r) => r.builds.length == 1 && r.entries.length == 4 | _ => false
-- `defaultBuildStep … = .ok ls'` (hypothesis of `rules_before_use`)
#guard match defaultBuildStep ev0 {} "native" "hello" [("c", ccR), ("o", linkR)] [] "src" ["hello.c", "util.c"]
    none none none {} with
  | .ok ls => ls.entries.length == 3 && ls.objects.length == 2 | _ => false
-- `linkStep`, `postLinkStep` succeed
#guard match linkStep ev0 [("c", ccR), ("o", linkR)] [] [] "hello.elf" {} with | .ok es => es.length == 2 | _ => false
#guard match postLinkStep ev0 [("c", ccR), ("o", linkR)] [] "hello.elf" [] with
  | .ok eo => eo.2 == "hello.elf" | _ => false
end ProjectExample

end Laze.C06
