import LazeModel.Model.Gen
import LazeModel.Theorems.C09_perm
import LazeModel.Theorems.C02
import LazeModel.Theorems.C12
/-! C20 — `--select X`, `--disable Y`, `-D V=x` / `-D V+=x` are equivalent to editing the project:
    putting `X` in front of the app's selects, appending `Y` to the builder context's `disable`
    list, defining `V` at the end of the app's global env. -/
namespace Laze.C20
open Laze Laze.C09

/-! ## 1. `--select` -/

/-- `--select X` ≙ `X` in front of the app's own selects: the app clones are EQUAL -/
theorem select_equiv_clone (app : Module) (builder : Name) (cli : Cli) (X : List Dep) :
    appClone app builder { cli with select := some X } =
      appClone { app with selects := X ++ app.selects } builder { cli with select := none } := rfl

/-- `--select` with no argument is no `--select` -/
theorem select_nil_clone (app : Module) (builder : Name) (cli : Cli) :
    appClone app builder { cli with select := some [] } =
      appClone app builder { cli with select := none } := rfl

theorem initialDisabled_select (b : Bag) (builder : Name) (cli : Cli) (o : Option (List Dep)) :
    initialDisabled b builder { cli with select := o } = initialDisabled b builder cli := rfl

theorem select_equiv_resolveTop (b : Bag) (builder : Name) (app : Module) (cli : Cli) (X : List Dep) :
    resolveTop b builder app { cli with select := some X } =
      resolveTop b builder { app with selects := X ++ app.selects } { cli with select := none } := rfl

/-! ### what `configureBuild` reads of the app

  Besides the clone (`appClone`), `configureBuild` reads `app.blocklist`, `app.allowlist`,
  `app.contextName` (the two early exits), `app.name` and `app.relpath` (`globalEnv`), and `app.name`
  (object directories in `moduleStmts`, `BuildInfo.app`). -/

theorem moduleStmts_app {ev st builder} {a1 a2 : Module} (hn : a1.name = a2.name)
    {r rules globals m bdeps srcdir flat ls} :
    moduleStmts ev st builder a1 r rules globals m bdeps srcdir flat ls =
      moduleStmts ev st builder a2 r rules globals m bdeps srcdir flat ls := by
  unfold moduleStmts
  rw [hn]

theorem moduleStep_app {ev st builder} {a1 a2 : Module} (hn : a1.name = a2.name)
    {r rules opts globals m menv bdeps ls} :
    moduleStep ev st builder a1 r rules opts globals m menv bdeps ls =
      moduleStep ev st builder a2 r rules opts globals m menv bdeps ls := by
  unfold moduleStep
  simp only [moduleStmts_app hn]

theorem modulesLoop_app {ev st builder} {a1 a2 : Module} (hn : a1.name = a2.name)
    {r rules opts globals menvs} : ∀ (order : List Name) (ls : LoopState) (mflats : List (Name × Flat)),
    modulesLoop ev st builder a1 r rules opts globals menvs order ls mflats =
      modulesLoop ev st builder a2 r rules opts globals menvs order ls mflats := by
  intro order
  induction order with
  | nil => intro ls mflats; rfl
  | cons n ns ih =>
    intro ls mflats
    unfold modulesLoop
    simp only [moduleStep_app hn, ih]

theorem finishBuild_app {ev b builder} {a1 a2 : Module} (hn : a1.name = a2.name)
    {r rules gflat outfile globals ls mflats} :
    finishBuild ev b builder a1 r rules gflat outfile globals ls mflats =
      finishBuild ev b builder a2 r rules gflat outfile globals ls mflats := by
  unfold finishBuild mkBuildInfo
  rw [hn]

theorem configureOrdered_app {ev st b builder} {a1 a2 : Module} (hn : a1.name = a2.name)
    {r rules opts gflat outfile menvs} :
    configureOrdered ev st b builder a1 r rules opts gflat outfile menvs =
      configureOrdered ev st b builder a2 r rules opts gflat outfile menvs := by
  unfold configureOrdered
  simp only [modulesLoop_app hn, finishBuild_app hn]

theorem configureWithEnv_app {ev st b builder} {a1 a2 : Module} (hn : a1.name = a2.name)
    {r genv gflat} :
    configureWithEnv ev st b builder a1 r genv gflat = configureWithEnv ev st b builder a2 r genv gflat := by
  unfold configureWithEnv
  simp only [configureOrdered_app hn]

theorem globalEnv_app {st b builder} {a1 a2 : Module} (hn : a1.name = a2.name)
    (hr : a1.relpath = a2.relpath) {r} {c1 c2 : Cli} (he : c1.env = c2.env) :
    globalEnv st b builder a1 r c1 = globalEnv st b builder a2 r c2 := by
  unfold globalEnv
  rw [hn, hr, he]

theorem configureSelection_app {ev st b builder} {a1 a2 : Module} (hn : a1.name = a2.name)
    (hr : a1.relpath = a2.relpath) {c1 c2 : Cli} (he : c1.env = c2.env) {r} :
    configureSelection ev st b builder a1 c1 r = configureSelection ev st b builder a2 c2 r := by
  unfold configureSelection
  simp only [globalEnv_app hn hr he, configureWithEnv_app hn]

/-- `configureBuild` depends on (app, cli) only through: the app clone, the `--disable` list, the
    `-D` env, and the app's name, relpath, context, block- and allowlist. -/
theorem configureBuild_congr (ev : EvalExpr) (st : Settings) (b : Bag) (builder : Name)
    (a1 a2 : Module) (c1 c2 : Cli)
    (hclone : appClone a1 builder c1 = appClone a2 builder c2)
    (hd : c1.disable = c2.disable) (he : c1.env = c2.env)
    (hn : a1.name = a2.name) (hr : a1.relpath = a2.relpath) (hc : a1.contextName = a2.contextName)
    (hb : a1.blocklist = a2.blocklist) (ha : a1.allowlist = a2.allowlist) :
    configureBuild ev st b builder a1 c1 = configureBuild ev st b builder a2 c2 := by
  have hres : resolveTop b builder a1 c1 = resolveTop b builder a2 c2 := by
    unfold resolveTop initialDisabled
    rw [hclone, hd]
  unfold configureBuild configureResolved
  rw [hb, ha, hc, hres, hclone]
  simp only [configureSelection_app hn hr he]

/-- C20 (select): `--select X` yields the same outcome — same `noBuild` reason or same `BuildInfo`
    (modules, envs, tasks, ninja statements), same error — as `X` put in front of the app's
    selects. -/
theorem select_equiv (ev : EvalExpr) (st : Settings) (b : Bag) (builder : Name) (app : Module)
    (cli : Cli) (X : List Dep) :
    configureBuild ev st b builder app { cli with select := some X } =
      configureBuild ev st b builder { app with selects := X ++ app.selects }
        { cli with select := none } :=
  configureBuild_congr ev st b builder _ _ _ _ rfl rfl rfl rfl rfl rfl rfl rfl

theorem select_nil_equiv (ev : EvalExpr) (st : Settings) (b : Bag) (builder : Name) (app : Module)
    (cli : Cli) :
    configureBuild ev st b builder app { cli with select := some [] } =
      configureBuild ev st b builder app { cli with select := none } :=
  configureBuild_congr ev st b builder _ _ _ _ rfl rfl rfl rfl rfl rfl rfl rfl

/-! ## 2. `--disable`

  ### 2a. the resolver only tests MEMBERSHIP in the disabled list -/

/-- resolver states that differ only in the representation of the disabled set (order,
    multiplicity, the `by` annotation) -/
structure Eqv (s t : RState) : Prop where
  sel : s.sel = t.sel
  pending : s.pending = t.pending
  providedBy : s.providedBy = t.providedBy
  disabled : ∀ n, s.isDisabled n = t.isDisabled n

theorem Eqv.refl (s : RState) : Eqv s s := ⟨rfl, rfl, rfl, fun _ => rfl⟩
theorem Eqv.symm {s t : RState} (h : Eqv s t) : Eqv t s :=
  ⟨h.sel.symm, h.pending.symm, h.providedBy.symm, fun n => (h.disabled n).symm⟩
theorem Eqv.trans {s t u : RState} (h : Eqv s t) (k : Eqv t u) : Eqv s u :=
  ⟨h.sel.trans k.sel, h.pending.trans k.pending, h.providedBy.trans k.providedBy,
   fun n => (h.disabled n).trans (k.disabled n)⟩

theorem Eqv.isSel {s t : RState} (h : Eqv s t) (n : Name) : s.isSel n = t.isSel n := by
  unfold RState.isSel; rw [h.sel]
theorem Eqv.isProvided {s t : RState} (h : Eqv s t) (n : Name) : s.isProvided n = t.isProvided n := by
  unfold RState.isProvided; rw [h.providedBy]

/-- "the disabled lists have the same first components as sets" -/
theorem isDisabled_iff (s : RState) (n : Name) : s.isDisabled n = true ↔ n ∈ s.disabled.map (·.1) := by
  simp [RState.isDisabled]

theorem eqv_of_mem {s t : RState} (h1 : s.sel = t.sel) (h2 : s.pending = t.pending)
    (h3 : s.providedBy = t.providedBy)
    (h4 : ∀ n, n ∈ s.disabled.map (·.1) ↔ n ∈ t.disabled.map (·.1)) : Eqv s t := by
  refine ⟨h1, h2, h3, fun n => ?_⟩
  rw [Bool.eq_iff_iff, isDisabled_iff, isDisabled_iff]
  exact h4 n

/-- results of the resolver up to `Eqv`: the same error, or equivalent states -/
def RelE : Except RErr RState → Except RErr RState → Prop
  | .ok s, .ok t => Eqv s t
  | .error e, .error f => e = f
  | _, _ => False

/-- the recursive callback respects `Eqv` -/
def RecEqv (rec : RRec) : Prop := ∀ (m : Mod) (s t : RState), Eqv s t → RelE (rec m s) (rec m t)

theorem enter_eqv (m : Mod) {s t : RState} (h : Eqv s t) : RelE (enter m s) (enter m t) := by
  have h1 : s.isDisabled m.name = t.isDisabled m.name := h.disabled _
  have h2 : m.conflicts.any (fun c => s.isSel c || s.isProvided c) =
      m.conflicts.any (fun c => t.isSel c || t.isProvided c) := by
    congr 1; funext c; rw [h.isSel, h.isProvided]
  have h3 : m.provides.any (fun p => s.isDisabled p) = m.provides.any (fun p => t.isDisabled p) := by
    congr 1; funext p; exact h.disabled p
  unfold enter
  rw [h1, h2, h3]
  split
  · exact rfl
  · split
    · exact rfl
    · split
      · exact rfl
      · refine ⟨by simp only [h.sel], h.pending, by simp only [h.providedBy], fun n => ?_⟩
        have := h.disabled n
        simp only [RState.isDisabled] at this ⊢
        rw [List.any_append, List.any_append, this]

theorem name_eqv (w : World) {rec : RRec} (hrec : RecEqv rec) (n : Name) {s t : RState} (h : Eqv s t) :
    RelE (resolveNameW w rec n s) (resolveNameW w rec n t) := by
  unfold resolveNameW
  split
  · exact rfl
  · exact hrec _ _ _ h

theorem list_eqv (w : World) {rec : RRec} (hrec : RecEqv rec) (f : Name) :
    ∀ (ps : List Name) (cnt : Nat) (s t : RState), Eqv s t →
      (resolveListW w rec ps f cnt s).1 = (resolveListW w rec ps f cnt t).1 ∧
      Eqv (resolveListW w rec ps f cnt s).2 (resolveListW w rec ps f cnt t).2 := by
  intro ps
  induction ps with
  | nil => intro cnt s t h; exact ⟨rfl, h⟩
  | cons p ps ih =>
    intro cnt s t h
    have hn := name_eqv w hrec p h
    unfold resolveListW
    rw [h.isSel p, h.disabled f]
    split
    · exact ih _ _ _ h
    · split
      · split
        · exact ⟨rfl, h⟩
        · exact ih _ _ _ h
      · revert hn
        cases resolveNameW w rec p s with
        | ok s' =>
          cases resolveNameW w rec p t with
          | ok t' => intro hn; exact ih _ _ _ hn
          | error e => intro hn; exact hn.elim
        | error e =>
          cases resolveNameW w rec p t with
          | ok t' => intro hn; exact hn.elim
          | error e' => intro _; exact ih _ _ _ h

theorem one_eqv (w : World) {rec : RRec} (hrec : RecEqv rec) (n : Name) (opt : Bool) {s t : RState}
    (h : Eqv s t) : RelE (resolveOneW w rec n opt s) (resolveOneW w rec n opt t) := by
  obtain ⟨hc, hs⟩ := list_eqv w hrec n (w.providers n) 0 s t h
  unfold resolveOneW
  generalize resolveListW w rec (w.providers n) n 0 s = r1 at hc hs
  generalize resolveListW w rec (w.providers n) n 0 t = r2 at hc hs
  obtain ⟨c1, s1⟩ := r1
  obtain ⟨c2, t1⟩ := r2
  simp only at hc hs
  subst hc
  simp only
  rw [hs.disabled n]
  have hn := name_eqv w hrec n hs
  split
  · exact hs
  · revert hn
    cases resolveNameW w rec n s1 with
    | ok s' =>
      cases resolveNameW w rec n t1 with
      | ok t' => intro hn; exact hn
      | error e => intro hn; exact hn.elim
    | error e =>
      cases resolveNameW w rec n t1 with
      | ok t' => intro hn; exact hn.elim
      | error e' =>
        intro _
        simp only
        split
        · exact hs
        · exact rfl

theorem pend_eqv {s t : RState} (h : Eqv s t) (e : Name × Dep) :
    Eqv { s with pending := s.pending ++ [e] } { t with pending := t.pending ++ [e] } :=
  ⟨h.sel, by simp only [h.pending], h.providedBy, h.disabled⟩

theorem deps_eqv (w : World) {rec : RRec} (hrec : RecEqv rec) :
    ∀ (ds : List Dep) (s t : RState), Eqv s t →
      RelE (resolveDepsW w rec ds s) (resolveDepsW w rec ds t) := by
  intro ds
  induction ds with
  | nil => intro s t h; exact h
  | cons d ds ih =>
    intro s t h
    have cont : ∀ (n : Name) (opt : Bool),
        RelE (match resolveOneW w rec n opt s with
              | .ok s' => resolveDepsW w rec ds s' | .error e => .error e)
             (match resolveOneW w rec n opt t with
              | .ok s' => resolveDepsW w rec ds s' | .error e => .error e) := by
      intro n opt
      have ho := one_eqv w hrec n opt h
      revert ho
      cases resolveOneW w rec n opt s with
      | ok s' =>
        cases resolveOneW w rec n opt t with
        | ok t' => intro ho; exact ih _ _ ho
        | error e => intro ho; exact ho.elim
      | error e =>
        cases resolveOneW w rec n opt t with
        | ok t' => intro ho; exact ho.elim
        | error e' => intro ho; exact ho
    cases d with
    | hard n => simp only [resolveDepsW]; exact cont n false
    | soft n => simp only [resolveDepsW]; exact cont n true
    | ifHard c n =>
      simp only [resolveDepsW]
      rw [h.isSel c]
      split
      · exact cont n false
      · exact ih _ _ (pend_eqv h _)
    | ifSoft c n =>
      simp only [resolveDepsW]
      rw [h.isSel c]
      split
      · exact cont n true
      · exact ih _ _ (pend_eqv h _)

theorem lateDeps_eqv {s t : RState} (h : Eqv s t) (n : Name) : lateDeps s n = lateDeps t n := by
  unfold lateDeps; rw [h.pending]

theorem step_eqv (w : World) {rec : RRec} (hrec : RecEqv rec) : RecEqv (resolveDeepStep w rec) := by
  intro m s t h
  unfold resolveDeepStep
  rw [h.isSel m.name]
  split
  · exact h
  · have he := enter_eqv m h
    revert he
    cases enter m s with
    | ok s1 =>
      cases enter m t with
      | ok t1 =>
        intro he
        simp only
        rw [lateDeps_eqv he]
        exact deps_eqv w hrec _ _ _ he
      | error e => intro he; exact he.elim
    | error e =>
      cases enter m t with
      | ok t1 => intro he; exact he.elim
      | error e' => intro he; exact he

/-- the resolver respects `Eqv`: it cannot distinguish two representations of the same disabled
    set — it fails with the same error or succeeds with equivalent states -/
theorem deep_eqv (w : World) : ∀ fuel, RecEqv (resolveDeep w fuel) := by
  intro fuel
  induction fuel with
  | zero => intro m s t _; exact rfl
  | succ f ih => exact step_eqv w ih

/-- the selection (modules and provider table) is a function of the `Eqv` class -/
theorem resolvedOf_eqv (b : Bag) (builder : Name) (app' : Module) {s t : RState} (h : Eqv s t) :
    resolvedOf b builder app' s = resolvedOf b builder app' t := by
  unfold resolvedOf; rw [h.sel, h.providedBy]

/-- two initial states whose disabled lists have the same elements give the same error or
    equivalent final states -/
theorem resolve_disabled_set (w : World) (fuel : Nat) (m : Mod) (d1 d2 : List Name)
    (h : ∀ n, n ∈ d1 ↔ n ∈ d2) :
    RelE (resolveDeep w fuel m ⟨[], [], d1.map (fun d => (d, none)), []⟩)
         (resolveDeep w fuel m ⟨[], [], d2.map (fun d => (d, none)), []⟩) := by
  apply deep_eqv w fuel m
  refine eqv_of_mem ?_ ?_ ?_ ?_
  · rfl
  · rfl
  · rfl
  intro n
  simp only [List.map_map, Function.comp_def, List.map_id']
  exact h n

/-! ### 2b. `dedup` -/
section Dedup
variable {α : Type} [BEq α] [LawfulBEq α]

def dstep (acc : List α) (x : α) : List α := if acc.contains x then acc else acc ++ [x]

omit [LawfulBEq α] in
theorem dedup_eq (l : List α) : dedup l = l.foldl dstep [] := rfl

theorem dstep_fold_nodup (l : List α) : ∀ acc : List α, acc.Nodup → (l.foldl dstep acc).Nodup := by
  induction l with
  | nil => intro acc h; exact h
  | cons x l ih =>
    intro acc h
    rw [List.foldl_cons]
    apply ih
    unfold dstep
    split
    · exact h
    · rename_i hx
      rw [List.nodup_append]
      refine ⟨h, List.nodup_cons.2 ⟨List.not_mem_nil, List.nodup_nil⟩, ?_⟩
      intro a ha b hb hab
      rw [List.mem_singleton] at hb
      subst hab
      subst hb
      exact hx (List.contains_iff_mem.2 ha)

theorem dstep_fold_fixed (l : List α) : ∀ pre : List α, (pre ++ l).Nodup → l.foldl dstep pre = pre ++ l := by
  induction l with
  | nil => intro pre _; simp
  | cons x l ih =>
    intro pre h
    have hx : ¬ (pre.contains x = true) := by
      intro hc
      have hm : x ∈ pre := List.contains_iff_mem.1 hc
      rw [List.nodup_append] at h
      exact h.2.2 x hm x List.mem_cons_self rfl
    have h' : (pre ++ [x] ++ l).Nodup := by simpa using h
    have hs : dstep pre x = pre ++ [x] := by unfold dstep; rw [if_neg hx]
    rw [List.foldl_cons, hs, ih _ h']
    simp

theorem dedup_nodup (l : List α) : (dedup l).Nodup := dstep_fold_nodup l [] List.nodup_nil

theorem dedup_idem (l : List α) : dedup (dedup l) = dedup l := by
  have := dstep_fold_fixed (dedup l) [] (by simpa using dedup_nodup l)
  simpa [dedup_eq] using this

/-- deduplicating a prefix first changes nothing -/
theorem dedup_dedup_append (l m : List α) : dedup (dedup l ++ m) = dedup (l ++ m) := by
  rw [dedup_eq (dedup l ++ m), dedup_eq (l ++ m), List.foldl_append, List.foldl_append,
    ← dedup_eq, ← dedup_eq, dedup_idem]

end Dedup

/-! ### 2c. appending `Y` to the `disable:` list of the builder's context -/

/-- a rewriting of contexts that only touches the `disable` list -/
structure OnlyDisable (f : Context → Context) : Prop where
  name : ∀ c, (f c).name = c.name
  parent : ∀ c, (f c).parent = c.parent
  modules : ∀ c, (f c).modules = c.modules
  rules : ∀ c, (f c).rules = c.rules
  env : ∀ c, (f c).env = c.env
  varOptions : ∀ c, (f c).varOptions = c.varOptions
  tasks : ∀ c, (f c).tasks = c.tasks

def _root_.Laze.Bag.mapCtx (b : Bag) (f : Context → Context) : Bag := { contexts := b.contexts.map f }

section MapCtx
variable {f : Context → Context} (hf : OnlyDisable f) (b : Bag)
include hf

theorem mapCtx_tree : (b.mapCtx f).tree = b.tree := by
  unfold Bag.tree Bag.mapCtx
  simp only [List.map_map]
  congr 1
  funext c
  simp only [Function.comp_def, hf.name, hf.parent]

theorem mapCtx_chain (n : Name) : (b.mapCtx f).chain n = b.chain n := by
  unfold Bag.chain; rw [mapCtx_tree hf]

theorem mapCtx_ctx? (n : Name) : (b.mapCtx f).ctx? n = (b.ctx? n).map f := by
  unfold Bag.ctx? Bag.mapCtx
  rw [List.find?_map]
  congr 2
  funext c
  simp only [Function.comp_def, hf.name]

theorem mapCtx_chainCtx (n : Name) : (b.mapCtx f).chainCtx n = (b.chainCtx n).map f := by
  unfold Bag.chainCtx
  rw [mapCtx_chain hf, List.map_filterMap]
  congr 1
  funext x
  exact mapCtx_ctx? hf b x

theorem f_module? (c : Context) (n : Name) : (f c).module? n = c.module? n := by
  unfold Context.module?; rw [hf.modules]

theorem mapCtx_resolveModule (c n : Name) : (b.mapCtx f).resolveModule c n = b.resolveModule c n := by
  unfold Bag.resolveModule
  rw [mapCtx_chainCtx hf, List.findSome?_map]
  congr 1
  funext x
  exact f_module? hf x n

theorem f_ownProvided (c : Context) : (f c).ownProvided = c.ownProvided := by
  unfold Context.ownProvided; rw [hf.modules]

theorem f_filterProvided (c : Context) (t : PTable) : (f c).filterProvided t = c.filterProvided t := by
  unfold Context.filterProvided
  simp only [f_module? hf]

theorem providedUp_map : ∀ l : List Context, providedUp (l.map f) = providedUp l
  | [] => rfl
  | [c] => by simp only [List.map_cons, List.map_nil, providedUp, f_ownProvided hf]
  | c :: d :: rest => by
    have ih := providedUp_map (d :: rest)
    simp only [List.map_cons] at ih ⊢
    simp only [providedUp, f_ownProvided hf, f_filterProvided hf, ih]

theorem mapCtx_provided (c : Name) : (b.mapCtx f).provided c = b.provided c := by
  unfold Bag.provided
  rw [mapCtx_chainCtx hf, providedUp_map hf]

theorem mapCtx_allModuleNames : allModuleNames (b.mapCtx f) = allModuleNames b := by
  unfold allModuleNames Bag.mapCtx
  simp only [List.map_map]
  congr 2
  funext c
  simp only [Function.comp_def, hf.modules]

theorem mapCtx_buildWorld (builder : Name) (app' : Module) :
    buildWorld (b.mapCtx f) builder app' = buildWorld b builder app' := by
  unfold buildWorld
  simp only [mapCtx_resolveModule hf, mapCtx_provided hf]

theorem mapCtx_resolvedOf (builder : Name) (app' : Module) (s : RState) :
    resolvedOf (b.mapCtx f) builder app' s = resolvedOf b builder app' s := by
  unfold resolvedOf
  simp only [mapCtx_resolveModule hf]

theorem mapCtx_collectRules (c : Name) : (b.mapCtx f).collectRules c = b.collectRules c := by
  unfold Bag.collectRules
  rw [mapCtx_chainCtx hf, ← List.map_reverse, List.foldl_map]
  simp only [hf.rules]

theorem mapCtx_builderVarOpts (builder : Name) :
    builderVarOpts (b.mapCtx f) builder = builderVarOpts b builder := by
  unfold builderVarOpts
  rw [mapCtx_ctx? hf]
  cases b.ctx? builder with
  | none => rfl
  | some c => simp only [Option.map_some, Option.bind_some, hf.varOptions]

theorem mapCtx_globalEnv (st : Settings) (builder : Name) (app : Module) (r : Resolved) (cli : Cli) :
    globalEnv st (b.mapCtx f) builder app r cli = globalEnv st b builder app r cli := by
  have h : ((b.mapCtx f).ctx? builder).bind (·.env) = (b.ctx? builder).bind (·.env) := by
    rw [mapCtx_ctx? hf]
    cases b.ctx? builder with
    | none => rfl
    | some c => simp only [Option.map_some, Option.bind_some, hf.env]
  unfold globalEnv
  rw [h, mapCtx_chain hf]

theorem contextsTasksLoop_map (ev : EvalExpr) (flat : Flat) (r : Resolved) :
    ∀ (l : List Context) (res : List (String × TaskAvail)),
      contextsTasksLoop ev flat r (l.map f) res = contextsTasksLoop ev flat r l res := by
  intro l
  induction l with
  | nil => intro res; rfl
  | cons c cs ih =>
    intro res
    simp only [List.map_cons, contextsTasksLoop, contextTasksStep, contextTaskList, hf.tasks, ih]

theorem mapCtx_collectTasks (ev : EvalExpr) (builder : Name) (flat : Flat) (r : Resolved) :
    collectTasks ev (b.mapCtx f) builder flat r = collectTasks ev b builder flat r := by
  unfold collectTasks
  rw [mapCtx_chainCtx hf, ← List.map_reverse, contextsTasksLoop_map hf]

theorem mapCtx_finishBuild {ev builder app r rules gflat outfile globals ls mflats} :
    finishBuild ev (b.mapCtx f) builder app r rules gflat outfile globals ls mflats =
      finishBuild ev b builder app r rules gflat outfile globals ls mflats := by
  unfold finishBuild
  simp only [mapCtx_collectTasks hf]

theorem mapCtx_configureOrdered {ev st builder app r rules opts gflat outfile menvs} :
    configureOrdered ev st (b.mapCtx f) builder app r rules opts gflat outfile menvs =
      configureOrdered ev st b builder app r rules opts gflat outfile menvs := by
  unfold configureOrdered
  simp only [mapCtx_finishBuild hf]

theorem mapCtx_configureWithEnv {ev st builder app r genv gflat} :
    configureWithEnv ev st (b.mapCtx f) builder app r genv gflat =
      configureWithEnv ev st b builder app r genv gflat := by
  unfold configureWithEnv
  simp only [mapCtx_configureOrdered hf, mapCtx_collectRules hf, mapCtx_builderVarOpts hf]

theorem mapCtx_configureSelection {ev st builder app cli r} :
    configureSelection ev st (b.mapCtx f) builder app cli r =
      configureSelection ev st b builder app cli r := by
  unfold configureSelection
  simp only [mapCtx_configureWithEnv hf, mapCtx_globalEnv hf, mapCtx_builderVarOpts hf]

/-- with the same set of initially disabled names, a bag that differs only in `disable:` lists
    gives the same outcome -/
theorem mapCtx_configureBuild (ev : EvalExpr) (st : Settings) (builder : Name) (app : Module)
    (c1 c2 : Cli) (hs : c1.select = c2.select) (he : c1.env = c2.env)
    (hd : initialDisabled (b.mapCtx f) builder c1 = initialDisabled b builder c2) :
    configureBuild ev st (b.mapCtx f) builder app c1 = configureBuild ev st b builder app c2 := by
  have hclone : appClone app builder c1 = appClone app builder c2 := by
    unfold appClone; rw [hs]
  have hres : resolveTop (b.mapCtx f) builder app c1 = resolveTop b builder app c2 := by
    unfold resolveTop
    simp only [hd, hclone, mapCtx_buildWorld hf, mapCtx_allModuleNames hf]
  unfold configureBuild configureResolved
  rw [mapCtx_tree hf, mapCtx_chain hf, hres, hclone]
  simp only [mapCtx_resolvedOf hf, mapCtx_configureSelection hf]
  simp only [configureSelection_app (a1 := app) (a2 := app) rfl rfl he]

end MapCtx

/-- the in-file counterpart of `--disable Y` (as far as the `disable:` list goes): `Y` appended to
    the `disable:` list of the context named `builder` -/
def ctxAddDisable (builder : Name) (Y : List Name) (c : Context) : Context :=
  if c.name == builder then { c with disable := some (c.disable.getD [] ++ Y) } else c

def _root_.Laze.Bag.addDisable (b : Bag) (builder : Name) (Y : List Name) : Bag :=
  b.mapCtx (ctxAddDisable builder Y)

theorem ctxAddDisable_only (builder : Name) (Y : List Name) : OnlyDisable (ctxAddDisable builder Y) := by
  refine ⟨?_, ?_, ?_, ?_, ?_, ?_, ?_⟩ <;> intro c <;> unfold ctxAddDisable <;> split <;> rfl

theorem ctx?_name {b : Bag} {n : Name} {c : Context} (h : b.ctx? n = some c) : c.name = n := by
  unfold Bag.ctx? at h
  have := List.find?_some h
  exact eq_of_beq this

theorem tree_ctx? (b : Bag) (n : Name) :
    b.tree.ctx? n = (b.ctx? n).map (fun c => ⟨c.name, c.parent⟩) := by
  unfold Bag.tree Tree.ctx? Bag.ctx?
  rw [List.find?_map]
  rfl

/-- the chain of an existing context starts with the context itself -/
theorem chain_head {b : Bag} {builder : Name} {c0 : Context} (h : b.ctx? builder = some c0) :
    b.chain builder = builder :: (b.chain builder).tail := by
  unfold Bag.chain Tree.chain Tree.chainUp
  rw [tree_ctx?, h]
  rfl

theorem chain_nil {b : Bag} {builder : Name} (h : b.ctx? builder = none) : b.chain builder = [] := by
  unfold Bag.chain Tree.chain Tree.chainUp
  rw [tree_ctx?, h]
  rfl

theorem chainCtx_head {b : Bag} {builder : Name} {c0 : Context} (h : b.ctx? builder = some c0) :
    b.chainCtx builder = c0 :: (b.chain builder).tail.filterMap b.ctx? := by
  unfold Bag.chainCtx
  rw [chain_head h, List.filterMap_cons, h]
  rfl

/-- `collect_disabled_modules` goes root → builder, so the builder's own list comes last: after
    `Y` is appended there, the collected list is the old one followed by `Y` (deduplicated) -/
theorem collectDisabled_addDisable (b : Bag) (builder : Name) (Y : List Name) (c0 : Context)
    (h0 : b.ctx? builder = some c0) (hacyc : builder ∉ (b.chain builder).tail) :
    (b.addDisable builder Y).collectDisabled builder = dedup (b.collectDisabled builder ++ Y) := by
  have hrest : ((b.chain builder).tail.filterMap b.ctx?).map (ctxAddDisable builder Y) =
      (b.chain builder).tail.filterMap b.ctx? := by
    conv => rhs; rw [← List.map_id ((b.chain builder).tail.filterMap b.ctx?)]
    apply List.map_congr_left
    intro c hc
    obtain ⟨n, hn, hcn⟩ := List.mem_filterMap.1 hc
    have hne : ¬ (c.name = builder) := by
      intro e
      rw [ctx?_name hcn] at e
      exact hacyc (e ▸ hn)
    unfold ctxAddDisable
    rw [if_neg (by simpa using hne)]
    rfl
  have hc0 : ctxAddDisable builder Y c0 = { c0 with disable := some (c0.disable.getD [] ++ Y) } := by
    unfold ctxAddDisable
    rw [if_pos (by simpa using ctx?_name h0)]
  unfold Bag.addDisable Bag.collectDisabled
  rw [mapCtx_chainCtx (ctxAddDisable_only builder Y), chainCtx_head h0, List.map_cons, hrest, hc0,
    dedup_dedup_append]
  simp only [List.reverse_cons, List.flatMap_append, List.flatMap_cons, List.flatMap_nil,
    List.append_nil, Option.getD_some, List.append_assoc]

/-- the set of initially disabled names: `--disable Y` ≙ `Y` appended to the builder context's
    `disable:` list — the same LIST, in the same order -/
theorem disable_equiv_initial (b : Bag) (builder : Name) (cli : Cli) (Y : List Name) (c0 : Context)
    (h0 : b.ctx? builder = some c0) (hacyc : builder ∉ (b.chain builder).tail) :
    initialDisabled (b.addDisable builder Y) builder { cli with disable := none } =
      initialDisabled b builder { cli with disable := some Y } := by
  unfold initialDisabled
  rw [collectDisabled_addDisable b builder Y c0 h0 hacyc]
  simp only [Option.getD_none, Option.getD_some, List.append_nil, dedup_idem]

theorem disable_equiv_resolveTop (b : Bag) (builder : Name) (app : Module) (cli : Cli) (Y : List Name)
    (c0 : Context) (h0 : b.ctx? builder = some c0) (hacyc : builder ∉ (b.chain builder).tail) :
    resolveTop (b.addDisable builder Y) builder app { cli with disable := none } =
      resolveTop b builder app { cli with disable := some Y } := by
  have hd := disable_equiv_initial b builder cli Y c0 h0 hacyc
  have hf := ctxAddDisable_only builder Y
  unfold resolveTop
  rw [hd]
  unfold Bag.addDisable
  simp only [mapCtx_buildWorld hf, mapCtx_allModuleNames hf]
  rfl

/-- C20 (disable): `--disable Y` yields the same outcome (same `noBuild` reason or same
    `BuildInfo`, same error) as `Y` appended to the `disable:` list of the builder's context.
    `hacyc`: the builder is not its own ancestor (the context tree is acyclic).

    NOT covered: the loader (`convertContext`) additionally turns a context's `disable:` list into
    `conflicts` of the context module `context::<builder>`; that module is selected LAST (it is
    the last select of the app clone).  See `enter_extra_conflicts_partial` for the one-step
    argument that these extra conflicts are unobservable (the names are already disabled, hence
    neither selected nor provided), and `deep_eqv` / `disable_set_equiv` for the fact that the
    resolver only tests membership in the disabled set. -/
theorem disable_equiv (ev : EvalExpr) (st : Settings) (b : Bag) (builder : Name) (app : Module)
    (cli : Cli) (Y : List Name) (hacyc : builder ∉ (b.chain builder).tail) :
    configureBuild ev st (b.addDisable builder Y) builder app { cli with disable := none } =
      configureBuild ev st b builder app { cli with disable := some Y } := by
  have hf := ctxAddDisable_only builder Y
  cases h0 : b.ctx? builder with
  | some c0 =>
    exact mapCtx_configureBuild hf b ev st builder app { cli with disable := none }
      { cli with disable := some Y } rfl rfl
      (disable_equiv_initial b builder cli Y c0 h0 hacyc)
  | none =>
    -- no such builder: no build either way
    unfold configureBuild Bag.addDisable
    rw [mapCtx_tree hf, mapCtx_chain hf, chain_nil h0]
    simp

/-! ### 2c'. the part of the in-file spelling that is NOT modelled by `Bag.addDisable`

  The loader also makes the `disable:` names conflicts of the context module `context::<builder>`.
  One step of the argument that this is unobservable: entering a module with extra conflicts `Y`
  is equivalent to entering it without them when the names in `Y` are already disabled and
  neither selected nor provided (which is the case for initially disabled names:
  `C02.Excl.d0` / `C02.Excl.notD0`).  The lift of this step through the whole resolver (two
  worlds that differ in the conflicts of one module) is not done here. -/
theorem enter_extra_conflicts_partial (m : Mod) (Y : List Name) {s t : RState} (h : Eqv s t)
    (hY : ∀ y ∈ Y, s.isDisabled y = true ∧ s.isSel y = false ∧ s.isProvided y = false) :
    RelE (enter m s) (enter { m with conflicts := m.conflicts ++ Y } t) := by
  have h1 : s.isDisabled m.name = t.isDisabled m.name := h.disabled _
  have hYt : Y.any (fun c => t.isSel c || t.isProvided c) = false := by
    rw [List.any_eq_false]
    intro y hy
    rw [← h.isSel, ← h.isProvided, (hY y hy).2.1, (hY y hy).2.2]
    simp
  have h2 : m.conflicts.any (fun c => s.isSel c || s.isProvided c) =
      (m.conflicts ++ Y).any (fun c => t.isSel c || t.isProvided c) := by
    rw [List.any_append, hYt, Bool.or_false]
    congr 1; funext c; rw [h.isSel, h.isProvided]
  have h3 : m.provides.any (fun p => s.isDisabled p) = m.provides.any (fun p => t.isDisabled p) := by
    congr 1; funext p; exact h.disabled p
  unfold enter
  simp only
  rw [h1, h2, h3]
  split
  · exact rfl
  · split
    · exact rfl
    · split
      · exact rfl
      · refine ⟨by simp only [h.sel], h.pending, by simp only [h.providedBy], fun n => ?_⟩
        have hd := h.disabled n
        simp only [RState.isDisabled] at hd ⊢
        rw [List.any_append, List.any_append, List.map_append, List.any_append, hd]
        cases hyn : (Y.map (fun c => (c, some m.name))).any (fun x => x.1 == n) with
        | false => simp
        | true =>
          have : t.disabled.any (fun x => x.1 == n) = true := by
            rw [← hd]
            simp only [List.any_map, List.any_eq_true, Function.comp_def, beq_iff_eq] at hyn
            obtain ⟨y, hy, rfl⟩ := hyn
            exact (hY y hy).1
          rw [this]
          simp

/-! ### 2d. the order and multiplicity of the disabled names are unobservable -/

theorem resolveTop_disabled_set (b : Bag) (builder : Name) (app : Module) (c1 c2 : Cli)
    (hs : c1.select = c2.select)
    (h : ∀ n, n ∈ initialDisabled b builder c1 ↔ n ∈ initialDisabled b builder c2) :
    RelE (resolveTop b builder app c1) (resolveTop b builder app c2) := by
  have hclone : appClone app builder c1 = appClone app builder c2 := by
    unfold appClone; rw [hs]
  unfold resolveTop
  rw [hclone]
  exact resolve_disabled_set _ _ _ _ _ h

/-- two command lines (or, with `disable_equiv`, two spellings in the project files) that disable
    the same SET of names give the same outcome -/
theorem disable_set_equiv (ev : EvalExpr) (st : Settings) (b : Bag) (builder : Name) (app : Module)
    (c1 c2 : Cli) (hs : c1.select = c2.select) (he : c1.env = c2.env)
    (h : ∀ n, n ∈ c1.disable.getD [] ↔ n ∈ c2.disable.getD []) :
    configureBuild ev st b builder app c1 = configureBuild ev st b builder app c2 := by
  have hclone : appClone app builder c1 = appClone app builder c2 := by
    unfold appClone; rw [hs]
  have hrel := resolveTop_disabled_set b builder app c1 c2 hs (by
    intro n
    rw [C02.mem_initialDisabled, C02.mem_initialDisabled, h n])
  unfold configureBuild
  split
  · rfl
  · split
    · rfl
    · revert hrel
      cases resolveTop b builder app c1 with
      | error e =>
        cases resolveTop b builder app c2 with
        | error e' => intro _; rfl
        | ok t => intro hrel; exact hrel.elim
      | ok s =>
        cases resolveTop b builder app c2 with
        | error e' => intro hrel; exact hrel.elim
        | ok t =>
          intro hrel
          simp only
          unfold configureResolved
          rw [hclone, resolvedOf_eqv b builder _ hrel]
          exact configureSelection_app rfl rfl he

/-- `--disable a --disable b --disable a` ≙ `--disable b --disable a` -/
example (ev : EvalExpr) (st : Settings) (b : Bag) (builder : Name) (app : Module) :
    configureBuild ev st b builder app { disable := some ["a", "b", "a"] } =
      configureBuild ev st b builder app { disable := some ["b", "a"] } :=
  disable_set_equiv ev st b builder app _ _ rfl rfl (by intro n; simp [or_comm])

/-! ## 3. `-D`: parsing the assignment (`Env::assign_from_string`, `str::split_once`) -/

/-- `splitOnce` splits at an occurrence of the pattern, and at the FIRST one -/
theorem splitOnce_some (pat : List Char) : ∀ (s a b : List Char), splitOnce pat s = some (a, b) →
    s = a ++ pat ++ b ∧ ∀ a' b', s = a' ++ pat ++ b' → a.length ≤ a'.length := by
  intro s
  induction s with
  | nil =>
    intro a b h
    unfold splitOnce at h
    split at h
    · rename_i hp
      have hp' : pat = [] := by simpa using hp
      injection h with h; injection h with h1 h2
      subst h1; subst h2; subst hp'
      exact ⟨rfl, fun _ _ _ => Nat.zero_le _⟩
    · cases h
  | cons c tl ih =>
    intro a b h
    unfold splitOnce at h
    split at h
    · rename_i hp
      injection h with h; injection h with h1 h2
      subst h1; subst h2
      refine ⟨?_, fun _ _ _ => Nat.zero_le _⟩
      have := List.prefix_iff_eq_append.1 (List.isPrefixOf_iff_prefix.1 hp)
      simpa using this.symm
    · rename_i hp
      cases hr : splitOnce pat tl with
      | none => rw [hr] at h; cases h
      | some ab =>
        obtain ⟨a0, b0⟩ := ab
        rw [hr] at h
        injection h with h; injection h with h1 h2
        subst h1; subst h2
        obtain ⟨e, first⟩ := ih a0 b0 hr
        refine ⟨by rw [e]; simp, fun a' b' e' => ?_⟩
        cases a' with
        | nil =>
          exfalso
          apply hp
          rw [List.isPrefixOf_iff_prefix, e']
          simp
        | cons c' a'' =>
          simp only [List.cons_append, List.cons.injEq] at e'
          have := first a'' b' (by rw [e'.2])
          simp only [List.length_cons]
          omega

/-- it fails exactly when the pattern does not occur -/
theorem splitOnce_none (pat s : List Char) :
    splitOnce pat s = none ↔ ∀ a b, s ≠ a ++ pat ++ b := by
  constructor
  · intro h
    induction s with
    | nil =>
      intro a b e
      unfold splitOnce at h
      split at h
      · cases h
      · rename_i hp
        apply hp
        have : pat = [] := by
          have := congrArg List.length e
          simp only [List.length_nil, List.length_append] at this
          exact List.eq_nil_of_length_eq_zero (by omega)
        simp [this]
    | cons c tl ih =>
      intro a b e
      unfold splitOnce at h
      split at h
      · cases h
      · rename_i hp
        cases hr : splitOnce pat tl with
        | some ab => rw [hr] at h; cases h
        | none =>
          cases a with
          | nil =>
            apply hp
            rw [List.isPrefixOf_iff_prefix, e]
            simp
          | cons c' a' =>
            simp only [List.cons_append, List.cons.injEq] at e
            exact ih hr a' b (by rw [e.2])
  · intro h
    cases hr : splitOnce pat s with
    | none => rfl
    | some ab =>
      obtain ⟨a, b⟩ := ab
      exact absurd (splitOnce_some pat s a b hr).1 (h a b)

/-- conversely, the first occurrence is what `splitOnce` returns -/
theorem splitOnce_first (pat a b : List Char)
    (first : ∀ a' b', a ++ pat ++ b = a' ++ pat ++ b' → a.length ≤ a'.length) :
    splitOnce pat (a ++ pat ++ b) = some (a, b) := by
  cases hr : splitOnce pat (a ++ pat ++ b) with
  | none => exact absurd rfl ((splitOnce_none pat _).1 hr a b)
  | some ab =>
    obtain ⟨a0, b0⟩ := ab
    obtain ⟨e, f0⟩ := splitOnce_some pat _ a0 b0 hr
    have hlen : a.length = a0.length := Nat.le_antisymm (first a0 b0 e) (f0 a b rfl)
    rw [List.append_assoc, List.append_assoc] at e
    obtain ⟨e1, e2⟩ := List.append_inj e hlen
    have e3 := List.append_cancel_left e2
    rw [e1, e3]

theorem splitOnce_cons_neg {pat : List Char} {c : Char} {tl : List Char}
    (h : ¬ (pat.isPrefixOf (c :: tl) = true)) :
    splitOnce pat (c :: tl) = (splitOnce pat tl).map (fun x => (c :: x.1, x.2)) := by
  rw [splitOnce, if_neg h]

theorem splitOnce_cons_pos {pat : List Char} {c : Char} {tl : List Char}
    (h : pat.isPrefixOf (c :: tl) = true) :
    splitOnce pat (c :: tl) = some ([], (c :: tl).drop pat.length) := by
  rw [splitOnce, if_pos h]

/-- a prefix without the pattern's first character is skipped -/
theorem splitOnce_skip (p : Char) (ps : List Char) : ∀ (a s : List Char), p ∉ a →
    splitOnce (p :: ps) (a ++ s) = (splitOnce (p :: ps) s).map (fun x => (a ++ x.1, x.2)) := by
  intro a
  induction a with
  | nil => intro s _; rw [List.nil_append]; cases splitOnce (p :: ps) s <;> rfl
  | cons c a ih =>
    intro s h
    simp only [List.mem_cons, not_or] at h
    have hne : ¬ ((p :: ps).isPrefixOf (c :: (a ++ s)) = true) := by
      rw [List.isPrefixOf_iff_prefix]
      intro hp
      obtain ⟨t, ht⟩ := hp
      simp only [List.cons_append, List.cons.injEq] at ht
      exact h.1 ht.1
    rw [List.cons_append, splitOnce_cons_neg hne, ih s h.2]
    cases splitOnce (p :: ps) s <;> rfl

theorem splitOnce_hit (p : Char) (ps b : List Char) :
    splitOnce (p :: ps) ((p :: ps) ++ b) = some ([], b) := by
  have hp : (p :: ps).isPrefixOf (p :: (ps ++ b)) = true := by
    rw [List.isPrefixOf_iff_prefix]; exact ⟨b, rfl⟩
  rw [List.cons_append, splitOnce_cons_pos hp]
  have := List.drop_left (l₁ := p :: ps) (l₂ := b)
  simp only [List.cons_append] at this
  rw [this]

theorem splitOnce_at (p : Char) (ps a b : List Char) (h : p ∉ a) :
    splitOnce (p :: ps) (a ++ (p :: ps) ++ b) = some (a, b) := by
  rw [List.append_assoc, splitOnce_skip p ps a _ h, splitOnce_hit]
  simp

/-- `str::strip_suffix('+')` succeeds on `v ++ "+"` -/
theorem stripPlus_snoc (v : List Char) : stripPlus (v ++ ['+']) = some v := by
  unfold stripPlus
  rw [List.reverse_append]
  simp only [List.reverse_cons, List.reverse_nil, List.nil_append, List.cons_append,
    List.reverse_reverse]

/-- … and fails exactly when the last character is not `+` -/
theorem stripPlus_none (v : List Char) : stripPlus v = none ↔ v.getLast? ≠ some '+' := by
  unfold stripPlus
  rw [List.getLast?_eq_head?_reverse]
  cases v.reverse with
  | nil => simp
  | cons c r =>
    by_cases hc : c = '+'
    · subst hc; simp
    · simp only [List.head?_cons, ne_eq, Option.some.injEq, hc, not_false_eq_true, iff_true]
      split
      · rename_i h; injection h with h1 _; exact absurd h1 hc
      · rfl

/-- `-D V+=x` (no `=` in `V`): the list `[x]` is merged onto `V`, for EVERY `x`
    (`V` may contain or even end with `+`: only ONE trailing `+` is stripped) -/
theorem define_parse_append (e : Env) (V x : String) (hV : '=' ∉ V.toList) :
    Env.assignFromString e (V ++ "+=" ++ x) = some (e.merge [(V, .list [x])]) := by
  have hs : (V ++ "+=" ++ x).toList = (V.toList ++ ['+']) ++ ['='] ++ x.toList := by
    rw [String.toList_append, String.toList_append]
    show V.toList ++ ['+', '='] ++ x.toList = _
    simp
  have hV' : '=' ∉ V.toList ++ ['+'] := by
    simp only [List.mem_append, List.mem_singleton, not_or]
    exact ⟨hV, by decide⟩
  unfold Env.assignFromString
  rw [hs, splitOnce_at '=' [] _ _ hV']
  simp only [stripPlus_snoc, String.ofList_toList]

/-- `-D V=x` (no `=` in `V`, `V` does not end with `+`): the string `x` is merged onto `V`,
    for EVERY `x` (the first `=` separates variable and value) -/
theorem define_parse_single (e : Env) (V x : String) (hV1 : '=' ∉ V.toList)
    (hV2 : V.toList.getLast? ≠ some '+') :
    Env.assignFromString e (V ++ "=" ++ x) = some (e.merge [(V, .single x)]) := by
  have hs : (V ++ "=" ++ x).toList = V.toList ++ ['='] ++ x.toList := by
    rw [String.toList_append, String.toList_append]; rfl
  unfold Env.assignFromString
  rw [hs, splitOnce_at '=' [] _ _ hV1]
  simp only [(stripPlus_none _).2 hV2, String.ofList_toList]

/-- both hypotheses of `define_parse_single` are needed: with a `=` in `V` the split happens
    earlier, with a trailing `+` the assignment is an append (`define_parse_append`) -/
example : Env.assignFromString [] ("A=B" ++ "=" ++ "x") = some [("A", .single "B=x")] := by decide
example : Env.assignFromString [] ("V+" ++ "=" ++ "x") = some [("V", .list ["x"])] := by decide
/-- no hypothesis about `+` inside `V` is needed for the append form -/
example : Env.assignFromString [] ("V+" ++ "+=" ++ "x") = some [("V+", .list ["x"])] :=
  define_parse_append [] "V+" "x" (by decide)

/-- an argument is rejected exactly when it contains no `=` -/
theorem define_parse_none (e : Env) (a : String) :
    Env.assignFromString e a = none ↔ '=' ∉ a.toList := by
  unfold Env.assignFromString
  constructor
  · intro h hm
    obtain ⟨s, t, hst⟩ := List.append_of_mem hm
    have hn : splitOnce ['='] a.toList = none := by
      cases hr : splitOnce ['='] a.toList with
      | none => rfl
      | some ab =>
        rw [hr] at h
        dsimp only at h
        split at h <;> cases h
    exact (splitOnce_none _ _).1 hn s t (by rw [hst]; simp)
  · intro h
    have hn : splitOnce ['='] a.toList = none := by
      rw [splitOnce_none]
      intro s t hst
      apply h
      rw [hst]
      simp
    rw [hn]

/-- the former quirk is gone (the Rust `assign_from_string` now does `split_once('=')` first and
    `strip_suffix('+')` on the variable): `-D V=a+=b` defines `V` as `a+=b` -/
example : Env.assignFromString [] "V=a+=b" = some [("V", .single "a+=b")] :=
  define_parse_single [] "V" "a+=b" (by decide) (by decide)
example : Env.assignFromString [] "V=a+=b" = some (Env.merge [] [("V", .single "a+=b")]) := by decide

example : Env.assignFromString [("V", .list ["w"])] "V+=x" = some [("V", .list ["w", "x"])] :=
  define_parse_append _ "V" "x" (by decide)
example : Env.assignFromString [("V", .list ["w"])] "V=x" = some [("V", .single "x")] :=
  define_parse_single _ "V" "x" (by decide) (by decide)
/-- an argument without `=` is rejected -/
example : Env.assignFromString [] "V" = none := by decide
example : splitOnce ['='] "a=b=c".toList = some (['a'], "b=c".toList) := by decide

/-- what `-D V=x` / `-D V+=x` alone make of the (initially empty) CLI env -/
theorem cli_env_single (V x : String) (hV1 : '=' ∉ V.toList) (hV2 : V.toList.getLast? ≠ some '+') :
    Env.assignFromString [] (V ++ "=" ++ x) = some [(V, .single x)] :=
  define_parse_single [] V x hV1 hV2

theorem cli_env_append (V x : String) (hV : '=' ∉ V.toList) :
    Env.assignFromString [] (V ++ "+=" ++ x) = some [(V, .list [x])] :=
  define_parse_append [] V x hV

/-! ## 4. `-D`: where the CLI env enters the global env -/

/-- the variables `configure_build` sets itself after the module envs are merged -/
def reserved : List String := ["relpath", "relroot", "modules", "contexts"]

/-- the global env before the app's own global env is merged: laze's variables, the builder
    context's env, then the global envs of the other selected modules (in reverse selection order) -/
def preAppEnv (st : Settings) (b : Bag) (builder : Name) (app : Module) (rest : List Module) : Env :=
  rest.reverse.foldl (fun g m => g.merge m.envGlobal)
    ((lazeEnv st).merge
      (((((b.ctx? builder).bind (·.env)).getD []).insert "builder" (.single builder)).insert "app"
        (.single app.name)))

/-- the CLI env is merged LAST -/
theorem define_cli_last (st : Settings) (b : Bag) (builder : Name) (app : Module) (r : Resolved)
    (cli : Cli) (ce : Env) (hce : Env.WF ce) (k : String) :
    (globalEnv st b builder app r { cli with env := some ce }).get k =
      mergeOpt ((globalEnv st b builder app r { cli with env := none }).get k) (ce.get k) := by
  unfold globalEnv
  exact merge_get _ ce hce k

/-- the app (first in selection order) is the LAST module whose global env is merged, and only the
    four reserved variables are set after it -/
theorem globalEnv_get_app (st : Settings) (b : Bag) (builder : Name) (app : Module) (r : Resolved)
    (cli : Cli) (app' : Module) (rest : List Module) (hr : r.modules = app' :: rest)
    (hwf : Env.WF app'.envGlobal) (k : String) (hk : k ∉ reserved) :
    (globalEnv st b builder app r { cli with env := none }).get k =
      mergeOpt ((preAppEnv st b builder app rest).get k) (app'.envGlobal.get k) := by
  simp only [reserved, List.mem_cons, List.not_mem_nil, or_false, not_or] at hk
  unfold globalEnv preAppEnv
  simp only [insert_get, if_neg hk.1, if_neg hk.2.1, if_neg hk.2.2.1, if_neg hk.2.2.2]
  rw [hr, List.reverse_cons, List.foldl_append, List.foldl_cons, List.foldl_nil]
  exact merge_get _ _ hwf k

/-- `EnvKey.merge` is associative except on (list, single, list) (`C09.mergeOpt_assoc_fails`) -/
theorem mergeOpt_assoc (x y z : Option EnvKey)
    (h : ¬ ∃ a s c, x = some (.list a) ∧ y = some (.single s) ∧ z = some (.list c)) :
    mergeOpt (mergeOpt x y) z = mergeOpt x (mergeOpt y z) := by
  cases x with
  | none => rfl
  | some x =>
    cases y with
    | none => cases z <;> rfl
    | some y =>
      cases z with
      | none => rfl
      | some z =>
        cases x <;> cases y <;> cases z <;>
          first
          | rfl
          | exact absurd ⟨_, _, _, rfl, rfl, rfl⟩ h
          | simp only [mergeOpt, EnvKey.merge, List.append_assoc]

/-- the in-file counterpart of `-D`: the assignments merged at the end of the app's global env -/
def withAppEnv (r : Resolved) (app' : Module) (rest : List Module) (ce : Env) : Resolved :=
  { r with modules := { app' with envGlobal := app'.envGlobal.merge ce } :: rest }

/-- C20 (define), on lookups in the global env: for every variable `k` that is not one of the four
    reserved ones, `-D` assignments `ce` give the same value as `ce` merged at the end of the
    app's own global env, UNLESS the variable is a list before the app's env, a plain string in
    the app's env and appended to (`+=`) by `ce` (then `-D` gives the appended list only, the
    in-file spelling appends to the earlier list). -/
theorem define_equiv (st : Settings) (b : Bag) (builder : Name) (app : Module) (r : Resolved)
    (cli : Cli) (app' : Module) (rest : List Module) (hr : r.modules = app' :: rest)
    (hwf : Env.WF app'.envGlobal) (ce : Env) (hce : Env.WF ce) (k : String) (hk : k ∉ reserved)
    (hassoc : ¬ ∃ a s c, (preAppEnv st b builder app rest).get k = some (.list a) ∧
      app'.envGlobal.get k = some (.single s) ∧ ce.get k = some (.list c)) :
    (globalEnv st b builder app r { cli with env := some ce }).get k =
      (globalEnv st b builder app (withAppEnv r app' rest ce) { cli with env := none }).get k := by
  rw [define_cli_last st b builder app r cli ce hce,
    globalEnv_get_app st b builder app r cli app' rest hr hwf k hk,
    globalEnv_get_app st b builder app (withAppEnv r app' rest ce) cli _ rest rfl
      (merge_wf hwf ce) k hk]
  simp only [merge_get _ ce hce]
  exact mergeOpt_assoc _ _ _ hassoc

/-- `-D V=v`: for EVERY non-reserved variable the two spellings agree, and `V` is `v` -/
theorem define_equiv_single (st : Settings) (b : Bag) (builder : Name) (app : Module) (r : Resolved)
    (cli : Cli) (app' : Module) (rest : List Module) (hr : r.modules = app' :: rest)
    (hwf : Env.WF app'.envGlobal) (V v : String) (k : String) (hk : k ∉ reserved) :
    (globalEnv st b builder app r { cli with env := some [(V, .single v)] }).get k =
      (globalEnv st b builder app (withAppEnv r app' rest [(V, .single v)])
        { cli with env := none }).get k ∧
    (k = V → (globalEnv st b builder app r { cli with env := some [(V, .single v)] }).get k =
      some (.single v)) := by
  have hce : Env.WF [(V, EnvKey.single v)] := by simp [Env.WF]
  refine ⟨define_equiv st b builder app r cli app' rest hr hwf _ hce k hk ?_, fun hkV => ?_⟩
  · rintro ⟨a, s, c, _, _, h3⟩
    rw [get_eq_lk, lk_cons] at h3
    split at h3
    · cases h3
    · cases h3
  · subst hkV
    rw [define_cli_last st b builder app r cli _ hce, get_eq_lk [(k, EnvKey.single v)], lk_cons,
      if_pos rfl, mergeOpt_single]

/-- `-D V+=x` when the app's own global env does not define `V`: for every non-reserved variable
    the two spellings agree -/
theorem define_equiv_list (st : Settings) (b : Bag) (builder : Name) (app : Module) (r : Resolved)
    (cli : Cli) (app' : Module) (rest : List Module) (hr : r.modules = app' :: rest)
    (hwf : Env.WF app'.envGlobal) (V x : String) (hV : app'.envGlobal.get V = none)
    (k : String) (hk : k ∉ reserved) :
    (globalEnv st b builder app r { cli with env := some [(V, .list [x])] }).get k =
      (globalEnv st b builder app (withAppEnv r app' rest [(V, .list [x])])
        { cli with env := none }).get k := by
  have hce : Env.WF [(V, EnvKey.list [x])] := by simp [Env.WF]
  refine define_equiv st b builder app r cli app' rest hr hwf _ hce k hk ?_
  rintro ⟨a, s, c, _, h2, h3⟩
  rw [get_eq_lk [(V, EnvKey.list [x])], lk_cons] at h3
  split at h3
  · rename_i hVk
    subst hVk
    rw [hV] at h2
    cases h2
  · cases h3

/-! ### the app is first in selection order (so `hr` above holds for every configured build) -/

theorem filterMap_congr' {α β : Type} {f g : α → Option β} :
    ∀ {l : List α}, (∀ x ∈ l, f x = g x) → l.filterMap f = l.filterMap g
  | [], _ => rfl
  | x :: l, h => by
    rw [List.filterMap_cons, List.filterMap_cons, h x List.mem_cons_self,
      filterMap_congr' (fun y hy => h y (List.mem_cons_of_mem _ hy))]

/-- in every configured build the module list is the app clone followed by the other selected
    modules as the builder sees them (`C12.resolveTop_app_first`) -/
theorem resolved_app_first (b : Bag) (builder : Name) (app : Module) (cli : Cli) (rs : RState)
    (h : resolveTop b builder app cli = .ok rs) (app' : Module) (hn : app'.name = app.name) :
    (resolvedOf b builder app' rs).modules =
      app' :: rs.sel.tail.filterMap (b.resolveModule builder) := by
  obtain ⟨hhead, hnd⟩ := C12.resolveTop_app_first b builder app cli rs h
  cases hs : rs.sel with
  | nil => rw [hs] at hhead; cases hhead
  | cons x tl =>
    rw [hs] at hhead hnd
    simp only [List.head?_cons, Option.some.injEq] at hhead
    subst hhead
    rw [List.nodup_cons] at hnd
    unfold resolvedOf
    simp only [hs, List.tail_cons, List.filterMap_cons, hn, beq_self_eq_true, if_true]
    congr 1
    apply filterMap_congr'
    intro n hnmem
    have : ¬ (n = app.name) := fun e => hnd.1 (e ▸ hnmem)
    rw [if_neg (by simpa using this)]

/-- the resolver does not look at environments: defining variables in the app's global env
    leaves the resolution unchanged -/
theorem resolveTop_appEnv (b : Bag) (builder : Name) (app : Module) (cli : Cli) (e : Env) (o : Option Env) :
    resolveTop b builder { app with envGlobal := e } { cli with env := o } =
      resolveTop b builder app cli := rfl

/-- C20 (define) for a configured build. `rs` is the resolution of (builder, app); it is also the
    resolution when the `-D` assignments `ce` are instead merged at the end of the app's global
    env, and the global envs the two builds are configured with (the `globalEnv … (resolvedOf …)`
    of `configureResolved`) agree on every non-reserved variable, with the exception described at
    `define_equiv`. -/
theorem define_equiv_configured (st : Settings) (b : Bag) (builder : Name) (app : Module) (cli : Cli)
    (rs : RState) (ce : Env) (hres : resolveTop b builder app { cli with env := some ce } = .ok rs)
    (hwf : Env.WF app.envGlobal) (hce : Env.WF ce) :
    resolveTop b builder { app with envGlobal := app.envGlobal.merge ce } { cli with env := none } = .ok rs ∧
    ∀ k, k ∉ reserved →
      (¬ ∃ a s c,
        (preAppEnv st b builder app (rs.sel.tail.filterMap (b.resolveModule builder))).get k
          = some (.list a) ∧
        app.envGlobal.get k = some (.single s) ∧ ce.get k = some (.list c)) →
      (globalEnv st b builder app
          (resolvedOf b builder (appClone app builder { cli with env := some ce }) rs)
          { cli with env := some ce }).get k =
        (globalEnv st b builder { app with envGlobal := app.envGlobal.merge ce }
          (resolvedOf b builder
            (appClone { app with envGlobal := app.envGlobal.merge ce } builder { cli with env := none }) rs)
          { cli with env := none }).get k := by
  refine ⟨hres, fun k hk hassoc => ?_⟩
  have hm1 := resolved_app_first b builder app _ rs hres
    (appClone app builder { cli with env := some ce }) rfl
  have hm2 := resolved_app_first b builder app _ rs hres
    (appClone { app with envGlobal := app.envGlobal.merge ce } builder { cli with env := none }) rfl
  rw [define_cli_last st b builder app _ cli ce hce,
    globalEnv_get_app st b builder app _ cli _ _ hm1 hwf k hk,
    globalEnv_get_app st b builder _ _ cli _ _ hm2 (merge_wf hwf ce) k hk]
  show mergeOpt (mergeOpt _ (app.envGlobal.get k)) _ = mergeOpt _ ((app.envGlobal.merge ce).get k)
  rw [merge_get _ ce hce]
  exact mergeOpt_assoc _ _ _ hassoc

/-! ## concrete instances: the hypotheses are satisfiable, the exceptions are real -/
namespace Example

def lib : Module := { name := "lib", contextName := "default", envGlobal := [("W", .list ["l"])] }
def app : Module :=
  { name := "app", contextName := "default", selects := [.soft "lib"], envGlobal := [("V", .single "s")] }
def bag : Bag := { contexts := [
  { name := "default", parent := none,
    modules := [{ name := "context::default", contextName := "default" }, app, lib] },
  { name := "bld", parent := some "default", isBuilder := true, env := some [("V", .list ["a"])],
    disable := some ["other"],
    modules := [{ name := "context::bld", contextName := "bld", selects := [.hard "context::default"] }] }] }

def selOf : Except RErr RState → Option (List Name)
  | .ok r => some r.sel
  | .error _ => none

/-- `--select`: the CLI select is resolved before the app's own selects -/
example : selOf (resolveTop bag "bld" app { select := some [.hard "context::default"] }) =
    some ["app", "context::default", "lib", "context::bld"] := by decide
example : resolveTop bag "bld" app { select := some [.hard "context::default"] } =
    resolveTop bag "bld" { app with selects := [.hard "context::default"] ++ app.selects } {} :=
  select_equiv_resolveTop bag "bld" app {} _

/-- `--disable`: the builder exists and is not its own ancestor -/
example : bag.ctx? "bld" ≠ none ∧ "bld" ∉ (bag.chain "bld").tail := by decide
example : selOf (resolveTop bag "bld" app { disable := some ["lib"] }) =
    some ["app", "context::bld", "context::default"] := by decide
example : selOf (resolveTop (bag.addDisable "bld" ["lib"]) "bld" app {}) =
    some ["app", "context::bld", "context::default"] := by decide
example : initialDisabled (bag.addDisable "bld" ["lib", "other"]) "bld" {} = ["other", "lib"] ∧
    initialDisabled bag "bld" { disable := some ["lib", "other"] } = ["other", "lib"] := by decide
example (ev : EvalExpr) (st : Settings) :
    configureBuild ev st (bag.addDisable "bld" ["lib"]) "bld" app {} =
      configureBuild ev st bag "bld" app { disable := some ["lib"] } :=
  disable_equiv ev st bag "bld" app {} ["lib"] (by decide)

/-- `-D`: the resolved module list of this build -/
def res : Resolved := { modules := [app, lib], providers := [] }

example : Env.WF app.envGlobal ∧ "V" ∉ reserved ∧ "W" ∉ reserved := by decide

/-- `-D V=x`: the same value either way (here `V` is a list in the builder's env and a string in
    the app's) -/
example : (globalEnv {} bag "bld" app res { env := some [("V", .single "x")] }).get "V" =
    some (.single "x") :=
  (define_equiv_single {} bag "bld" app res {} app [lib] rfl (by decide) "V" "x" "V" (by decide)).2 rfl
example : (globalEnv {} bag "bld" app (withAppEnv res app [lib] [("V", .single "x")]) {}).get "V" =
    some (.single "x") := by decide

/-- `-D W+=x` for a variable the app does not define: appended to the other modules' values -/
example : (globalEnv {} bag "bld" app res { env := some [("W", .list ["x"])] }).get "W" =
      some (.list ["l", "x"]) ∧
    (globalEnv {} bag "bld" app (withAppEnv res app [lib] [("W", .list ["x"])]) {}).get "W" =
      some (.list ["l", "x"]) := by decide

/-- EXCEPTION 1 (why `define_equiv` has `hassoc`): `V` is a list before the app (`[a]` from the
    builder context), a string in the app's global env: `-D V+=c` yields `[c]`, whereas `[c]` merged
    into the app's env yields `[a, c]`.  (A YAML map cannot define `V` twice, so this in-file
    spelling only exists as a merge; with `V` absent from the app's env the two agree,
    `define_equiv_list`.) -/
example : (globalEnv {} bag "bld" app res { env := some [("V", .list ["c"])] }).get "V" =
      some (.list ["c"]) ∧
    (globalEnv {} bag "bld" app (withAppEnv res app [lib] [("V", .list ["c"])]) {}).get "V" =
      some (.list ["a", "c"]) := by decide

/-- EXCEPTION 2 (why `k ∉ reserved`): `-D relpath=x` overrides `relpath`; a `relpath` in the app's
    global env is overwritten by `configure_build` -/
example : (globalEnv {} bag "bld" app res { env := some [("relpath", .single "x")] }).get "relpath" =
      some (.single "x") ∧
    (globalEnv {} bag "bld" app (withAppEnv res app [lib] [("relpath", .single "x")]) {}).get "relpath" =
      some (.single ".") := by decide

/-- `define_equiv_configured` applies: the resolution succeeds -/
example : selOf (resolveTop bag "bld" app { env := some [("V", .single "x")] }) =
    some ["app", "lib", "context::bld", "context::default"] := by decide

end Example

end Laze.C20
