import LazeModel.Model.Build
/-! C01 — every successful resolution is closed under hard dependencies (`selects`, activated
    `if … then` selects): each is satisfied by a selected module of that name or a selected provider. -/
namespace Laze.C01
open Laze

variable (w : World)

def sat (s : RState) (n : Name) : Prop :=
  s.isSel n = true ∨ ∃ p ∈ w.providers n, s.isSel p = true

def processed (s : RState) : Dep → Prop
  | .hard n => sat w s n
  | .soft _ => True
  | .ifHard c n => sat w s n ∨ (c, Dep.hard n) ∈ s.pending
  | .ifSoft _ _ => True

/-- growth of resolver states -/
structure Le (s s' : RState) : Prop where
  sel : ∀ n, s.isSel n = true → s'.isSel n = true
  pend : ∀ e ∈ s.pending, e ∈ s'.pending
  pendNew : ∀ c d, (c, d) ∈ s'.pending → (c, d) ∈ s.pending ∨ s.isSel c = false

theorem Le.refl (s : RState) : Le s s := ⟨fun _ h => h, fun _ h => h, fun _ _ h => Or.inl h⟩

theorem Le.trans {a b c : RState} (h1 : Le a b) (h2 : Le b c) : Le a c := by
  refine ⟨fun n h => h2.sel n (h1.sel n h), fun e h => h2.pend e (h1.pend e h), fun x d h => ?_⟩
  rcases h2.pendNew x d h with h | h
  · exact h1.pendNew x d h
  · right
    cases hx : a.isSel x with
    | false => rfl
    | true => have := h1.sel x hx; simp_all

theorem sat_mono {s s' : RState} (h : Le s s') {n : Name} (hs : sat w s n) : sat w s' n := by
  rcases hs with hs | ⟨p, hp, hs⟩
  · exact Or.inl (h.sel n hs)
  · exact Or.inr ⟨p, hp, h.sel p hs⟩

theorem processed_mono {s s' : RState} (h : Le s s') {d : Dep} (hd : processed w s d) : processed w s' d := by
  cases d with
  | hard n => exact sat_mono w h hd
  | soft n => trivial
  | ifHard c n =>
    rcases hd with hd | hd
    · exact Or.inl (sat_mono w h hd)
    · exact Or.inr (h.pend _ hd)
  | ifSoft c n => trivial

/-- the invariant, relative to a set `O` of modules that are still being processed -/
structure G (O : Name → Prop) (s : RState) : Prop where
  g1 : ∀ x, s.isSel x = true → ¬ O x → ∀ m, w.lookup x = some m → ∀ d ∈ m.selects, processed w s d
  g2 : ∀ c, s.isSel c = true → ¬ O c → ∀ n, (c, Dep.hard n) ∈ s.pending → sat w s n

def World.WF (w : World) : Prop := ∀ n m, w.lookup n = some m → m.name = n

/-- what we assume of the recursive callback, and prove of `resolveDeepStep` -/
def RecSpec (rec : RRec) : Prop :=
  ∀ (m : Mod) (s s' : RState) (O : Name → Prop), w.lookup m.name = some m → G w O s → rec m s = .ok s' →
    G w O s' ∧ Le s s' ∧ s'.isSel m.name = true

theorem name_spec {rec : RRec} (wf : World.WF w) (hrec : RecSpec w rec) {n : Name} {s s' : RState} {O : Name → Prop}
    (hg : G w O s) (h : resolveNameW w rec n s = .ok s') : G w O s' ∧ Le s s' ∧ s'.isSel n = true := by
  unfold resolveNameW at h
  split at h
  · contradiction
  · rename_i m hm
    have hn : m.name = n := wf n m hm
    have := hrec m s s' O (by rw [hn]; exact hm) hg h
    rw [hn] at this; exact this

theorem list_spec {rec : RRec} (wf : World.WF w) (hrec : RecSpec w rec) (f : Name) {O : Name → Prop} :
    ∀ (ps : List Name) (cnt : Nat) (s : RState), G w O s →
      G w O (resolveListW w rec ps f cnt s).2 ∧ Le s (resolveListW w rec ps f cnt s).2 ∧
      ((resolveListW w rec ps f cnt s).1 > cnt → ∃ p ∈ ps, (resolveListW w rec ps f cnt s).2.isSel p = true) ∧
      (resolveListW w rec ps f cnt s).1 ≥ cnt := by
  intro ps
  induction ps with
  | nil => intro cnt s hg; simp [resolveListW, hg, Le.refl]
  | cons p ps ih =>
    intro cnt s hg
    unfold resolveListW
    split
    · rename_i hsel
      obtain ⟨g, le, ex, ge⟩ := ih (cnt+1) s hg
      refine ⟨g, le, fun _ => ⟨p, by simp, le.sel p hsel⟩, by omega⟩
    · split
      · split
        · simp [hg, Le.refl]
        · obtain ⟨g, le, ex, ge⟩ := ih cnt s hg
          refine ⟨g, le, fun h => ?_, ge⟩
          obtain ⟨q, hq, hs⟩ := ex h
          exact ⟨q, by simp [hq], hs⟩
      · split
        · rename_i s2 hok
          obtain ⟨g2, le2, sel2⟩ := name_spec w wf hrec hg hok
          obtain ⟨g, le, ex, ge⟩ := ih (cnt+1) s2 g2
          refine ⟨g, Le.trans le2 le, fun _ => ⟨p, by simp, le.sel p sel2⟩, by omega⟩
        · obtain ⟨g, le, ex, ge⟩ := ih cnt s hg
          refine ⟨g, le, fun h => ?_, ge⟩
          obtain ⟨q, hq, hs⟩ := ex h
          exact ⟨q, by simp [hq], hs⟩

theorem one_spec {rec : RRec} (wf : World.WF w) (hrec : RecSpec w rec) {n : Name} {opt : Bool} {s s' : RState}
    {O : Name → Prop} (hg : G w O s) (h : resolveOneW w rec n opt s = .ok s') :
    G w O s' ∧ Le s s' ∧ (opt = false → sat w s' n) := by
  unfold resolveOneW at h
  obtain ⟨g1, le1, ex1, _⟩ := list_spec w wf hrec n (w.providers n) 0 s hg
  generalize hr : resolveListW w rec (w.providers n) n 0 s = r at h g1 le1 ex1
  obtain ⟨cnt, s1⟩ := r
  simp only at h g1 le1 ex1
  have hprov : cnt > 0 → sat w s1 n := fun hc => Or.inr (ex1 hc)
  split at h
  · rename_i hc
    simp at hc
    injection h with h; subst h
    exact ⟨g1, le1, fun _ => hprov hc.1⟩
  · split at h
    · rename_i s2 hok
      injection h with h; subst h
      obtain ⟨g2, le2, sel2⟩ := name_spec w wf hrec g1 hok
      exact ⟨g2, Le.trans le1 le2, fun _ => Or.inl sel2⟩
    · split at h
      · rename_i hc
        injection h with h; subst h
        refine ⟨g1, le1, fun ho => ?_⟩
        subst ho
        simp at hc
        exact hprov hc
      · contradiction

theorem g_pend {O : Name → Prop} {s : RState} (hg : G w O s) (c : Name) (d : Dep) (hc : s.isSel c = false) :
    G w O { s with pending := s.pending ++ [(c, d)] } ∧ Le s { s with pending := s.pending ++ [(c, d)] } := by
  have le : Le s { s with pending := s.pending ++ [(c, d)] } := by
    refine ⟨fun n h => h, fun e h => by simp [h], fun x y h => ?_⟩
    simp at h
    rcases h with h | ⟨rfl, rfl⟩
    · exact Or.inl h
    · exact Or.inr hc
  refine ⟨⟨fun x hx hO m hm d' hd' => processed_mono w le (hg.g1 x hx hO m hm d' hd'), fun c' hc' hO n hn => ?_⟩, le⟩
  simp at hn
  rcases hn with hn | ⟨rfl, _⟩
  · exact sat_mono w le (hg.g2 c' hc' hO n hn)
  · have : s.isSel c' = true := hc'
    simp_all

theorem deps_spec {rec : RRec} (wf : World.WF w) (hrec : RecSpec w rec) {O : Name → Prop} :
    ∀ (ds : List Dep) (s s' : RState), G w O s → resolveDepsW w rec ds s = .ok s' →
      G w O s' ∧ Le s s' ∧ ∀ d ∈ ds, processed w s' d := by
  intro ds
  induction ds with
  | nil => intro s s' hg h; simp [resolveDepsW] at h; subst h; simp [hg, Le.refl]
  | cons d ds ih =>
    intro s s' hg h
    -- helper for the "resolve one, then continue" shape
    have cont : ∀ (n : Name) (opt : Bool) (dd : Dep), (opt = false → sat w s' n → processed w s' dd) → (opt = true → processed w s' dd) →
        (match resolveOneW w rec n opt s with | .ok s1 => resolveDepsW w rec ds s1 | .error e => .error e) = .ok s' →
        G w O s' ∧ Le s s' ∧ ∀ d' ∈ dd :: ds, processed w s' d' := by
      intro n opt dd hp1 hp2 h
      split at h
      · rename_i s1 hone
        obtain ⟨g1, le1, sat1⟩ := one_spec w wf hrec hg hone
        obtain ⟨g2, le2, pr⟩ := ih s1 s' g1 h
        refine ⟨g2, Le.trans le1 le2, fun d' hd' => ?_⟩
        simp at hd'
        rcases hd' with rfl | hd'
        · cases opt with
          | false => exact hp1 rfl (sat_mono w le2 (sat1 rfl))
          | true => exact hp2 rfl
        · exact pr d' hd'
      · contradiction
    cases d with
    | hard n =>
      simp only [resolveDepsW] at h
      exact cont n false (.hard n) (fun _ hs => hs) (fun h => by cases h) h
    | soft n =>
      simp only [resolveDepsW] at h
      exact cont n true (.soft n) (fun h => by cases h) (fun _ => trivial) h
    | ifHard c n =>
      simp only [resolveDepsW] at h
      split at h
      · exact cont n false (.ifHard c n) (fun _ hs => Or.inl hs) (fun h => by cases h) h
      · rename_i hc
        simp at hc
        obtain ⟨g1, le1⟩ := g_pend w hg c (.hard n) hc
        obtain ⟨g2, le2, pr⟩ := ih _ s' g1 h
        refine ⟨g2, Le.trans le1 le2, fun d' hd' => ?_⟩
        simp at hd'
        rcases hd' with rfl | hd'
        · exact Or.inr (le2.pend _ (by simp))
        · exact pr d' hd'
    | ifSoft c n =>
      simp only [resolveDepsW] at h
      split at h
      · exact cont n true (.ifSoft c n) (fun h => by cases h) (fun _ => trivial) h
      · rename_i hc
        simp at hc
        obtain ⟨g1, le1⟩ := g_pend w hg c (.soft n) hc
        obtain ⟨g2, le2, pr⟩ := ih _ s' g1 h
        refine ⟨g2, Le.trans le1 le2, fun d' hd' => ?_⟩
        simp at hd'
        rcases hd' with rfl | hd'
        · trivial
        · exact pr d' hd'


theorem enter_shape {m : Mod} {s s1 : RState} (h : enter m s = .ok s1) :
    s1.sel = s.sel ++ [m.name] ∧ s1.pending = s.pending := by
  unfold enter at h
  split at h <;> try contradiction
  split at h <;> try contradiction
  split at h <;> try contradiction
  injection h with h; subst h; simp

theorem isSel_iff (s : RState) (n : Name) : s.isSel n = true ↔ n ∈ s.sel := by
  simp [RState.isSel]

theorem mem_lateDeps {s : RState} {c : Name} {d : Dep} (h : (c, d) ∈ s.pending) : d ∈ lateDeps s c := by
  simp only [lateDeps, List.mem_map, List.mem_filter]
  exact ⟨(c, d), ⟨h, by simp⟩, rfl⟩

theorem step_spec {rec : RRec} (wf : World.WF w) (hrec : RecSpec w rec) : RecSpec w (resolveDeepStep w rec) := by
  intro m s s' O hm hg h
  unfold resolveDeepStep at h
  split at h
  · rename_i hsel
    injection h with h; subst h
    exact ⟨hg, Le.refl _, hsel⟩
  · rename_i hnsel
    split at h
    · contradiction
    · rename_i s1 hent
      obtain ⟨hsel1, hpend1⟩ := enter_shape hent
      have sel1 : ∀ n, s1.isSel n = true ↔ (s.isSel n = true ∨ n = m.name) := by
        intro n; simp [isSel_iff, hsel1]
      have le1 : Le s s1 := by
        refine ⟨fun n hn => (sel1 n).2 (Or.inl hn), fun e he => by rw [hpend1]; exact he, fun c d hcd => ?_⟩
        rw [hpend1] at hcd; exact Or.inl hcd
      -- invariant with `m` added to the open set
      let O' : Name → Prop := fun x => O x ∨ x = m.name
      have g1 : G w O' s1 := by
        refine ⟨fun x hx hO mx hmx d hd => ?_, fun c hc hO n hn => ?_⟩
        · have hx' : s.isSel x = true := by
            rcases (sel1 x).1 hx with h | h
            · exact h
            · exact absurd (Or.inr h) hO
          exact processed_mono w le1 (hg.g1 x hx' (fun h => hO (Or.inl h)) mx hmx d hd)
        · have hc' : s.isSel c = true := by
            rcases (sel1 c).1 hc with h | h
            · exact h
            · exact absurd (Or.inr h) hO
          rw [hpend1] at hn
          exact sat_mono w le1 (hg.g2 c hc' (fun h => hO (Or.inl h)) n hn)
      obtain ⟨g2, le2, pr⟩ := deps_spec w wf hrec (O := O') _ s1 s' g1 h
      have hmsel : s'.isSel m.name = true := le2.sel _ ((sel1 _).2 (Or.inr rfl))
      refine ⟨⟨fun x hx hO mx hmx d hd => ?_, fun c hc hO n hn => ?_⟩, Le.trans le1 le2, hmsel⟩
      · by_cases hxm : x = m.name
        · subst hxm
          have : mx = m := by rw [hm] at hmx; exact (Option.some.inj hmx).symm
          subst this
          exact pr d (by simp [hd])
        · exact g2.g1 x hx (fun h => h.elim hO hxm) mx hmx d hd
      · by_cases hcm : c = m.name
        · subst hcm
          rcases le2.pendNew _ _ hn with hn1 | hn1
          · exact pr (.hard n) (by simp [mem_lateDeps hn1])
          · have := (sel1 m.name).2 (Or.inr rfl); simp_all
        · exact g2.g2 c hc (fun h => h.elim hO hcm) n hn

theorem deep_spec (wf : World.WF w) : ∀ fuel, RecSpec w (resolveDeep w fuel) := by
  intro fuel
  induction fuel with
  | zero => intro m s s' O _ _ h; simp [resolveDeep] at h
  | succ f ih => exact step_spec w wf ih

/-- C01 on the model: every successful resolution is closed under hard dependencies. -/
theorem closure (wf : World.WF w) (fuel : Nat) (app : Mod) (s0 r : RState)
    (happ : w.lookup app.name = some app) (h0 : s0.sel = [])
    (h : resolveDeep w fuel app s0 = .ok r) :
    ∀ x, r.isSel x = true → ∀ m, w.lookup x = some m → ∀ d ∈ m.selects,
      match d with
      | .hard n => sat w r n
      | .ifHard c n => r.isSel c = true → sat w r n
      | _ => True := by
  have g0 : G w (fun _ => False) s0 := by
    refine ⟨fun x hx => ?_, fun c hc => ?_⟩ <;> simp [RState.isSel, h0] at *
  obtain ⟨g, _, _⟩ := deep_spec w wf fuel app s0 r (fun _ => False) happ g0 h
  intro x hx m hm d hd
  have hp := g.g1 x hx (fun h => h) m hm d hd
  cases d with
  | hard n => exact hp
  | soft n => trivial
  | ifHard c n =>
    intro hc
    rcases hp with hp | hp
    · exact hp
    · exact g.g2 c hc (fun h => h) n hp
  | ifSoft c n => trivial


/-! ### the world of one (builder, app) pair is well-formed -/

theorem module?_name {c : Context} {n : Name} {m : Module} (h : c.module? n = some m) : m.name = n := by
  unfold Context.module? at h
  have := List.find?_some h
  exact eq_of_beq this

theorem resolveModule_name {b : Bag} {c n : Name} {m : Module} (h : b.resolveModule c n = some m) :
    m.name = n := by
  unfold Bag.resolveModule at h
  obtain ⟨ctx, _, hctx⟩ := List.exists_of_findSome?_eq_some h
  exact module?_name hctx

theorem buildWorld_lookup_app (b : Bag) (builder : Name) (app' : Module) :
    (buildWorld b builder app').lookup app'.name = some app'.toMod := by
  simp [buildWorld]

theorem buildWorld_wf (b : Bag) (builder : Name) (app' : Module) :
    World.WF (buildWorld b builder app') := by
  intro n m h
  simp only [buildWorld] at h
  split at h
  · rename_i hn
    injection h with h; subst h
    exact (eq_of_beq hn).symm
  · cases hr : b.resolveModule builder n with
    | none => rw [hr] at h; cases h
    | some m' =>
      rw [hr] at h
      injection h with h; subst h
      exact resolveModule_name hr

/-! ### C01 for `resolveTop` -/

theorem clone_selects (app : Module) (builder : Name) (cli : Cli) :
    (appClone app builder cli).selects
      = cli.select.getD [] ++ app.selects ++ [Dep.hard ("context::" ++ builder)] := rfl

theorem clone_name (app : Module) (builder : Name) (cli : Cli) :
    (appClone app builder cli).name = app.name := rfl

/-- C01: the result of a successful top-level resolution is closed under hard dependencies. The
    app clone's selects (`clone_selects`) are the CLI selects, the app's own selects and the
    builder's context module. -/
theorem closure_top (b : Bag) (builder : Name) (app : Module) (cli : Cli) (rs : RState)
    (h : resolveTop b builder app cli = .ok rs) :
    ∀ x, rs.isSel x = true → ∀ m,
      (buildWorld b builder (appClone app builder cli)).lookup x = some m → ∀ d ∈ m.selects,
      match d with
      | .hard n => sat (buildWorld b builder (appClone app builder cli)) rs n
      | .ifHard c n => rs.isSel c = true → sat (buildWorld b builder (appClone app builder cli)) rs n
      | _ => True :=
  closure (buildWorld b builder (appClone app builder cli)) (buildWorld_wf _ _ _) _
    (appClone app builder cli).toMod _ rs (buildWorld_lookup_app _ _ _) rfl h

/-- the app itself is selected -/
theorem app_selected (b : Bag) (builder : Name) (app : Module) (cli : Cli) (rs : RState)
    (h : resolveTop b builder app cli = .ok rs) : rs.isSel app.name = true := by
  have g0 : G (buildWorld b builder (appClone app builder cli)) (fun _ => False)
      ⟨[], [], (initialDisabled b builder cli).map (fun d => (d, none)), []⟩ := by
    refine ⟨fun x hx => ?_, fun c hc => ?_⟩ <;> simp [RState.isSel] at *
  exact (deep_spec _ (buildWorld_wf _ _ _) _ (appClone app builder cli).toMod _ rs (fun _ => False)
    (buildWorld_lookup_app _ _ _) g0 h).2.2

/-! ### non-vacuity: resolutions with a rollback and an `if … then` activation succeed -/

def exWorld (appSelects : List Dep) : World where
  lookup := fun n =>
    if n = "app" then some ⟨"app", appSelects, [], []⟩
    else if n = "x" then some ⟨"x", [.hard "z", .hard "missing"], [], []⟩
    else if n = "y" then some ⟨"y", [.hard "q"], ["x"], []⟩
    else if n = "q" then some ⟨"q", [], [], []⟩
    else if n = "z" then some ⟨"z", [], [], []⟩
    else none
  providers := fun _ => []

def selOf : Except RErr RState → Option (List Name × List (Name × Dep))
  | .ok r => some (r.sel, r.pending)
  | .error _ => none

/-- `x` is tried first (selecting `x`, `z`), fails on `missing` and is rolled back; `y` then
    selects `q`, and `q ⇒ z` is found active when it is reached. -/
example : selOf (resolveDeep (exWorld [.soft "x", .hard "y", .ifHard "q" "z"]) 5
      ⟨"app", [.soft "x", .hard "y", .ifHard "q" "z"], [], []⟩ ⟨[], [], [], []⟩)
    = some (["app", "y", "q", "z"], []) := by decide

/-- late activation: `q ⇒ z` is registered as pending before `q` is selected, and is picked up
    from `lateDeps` when `q` is entered (via `y`). The rolled-back subtree of `x` leaves nothing. -/
example : selOf (resolveDeep (exWorld [.soft "x", .ifHard "q" "z", .hard "y"]) 5
      ⟨"app", [.soft "x", .ifHard "q" "z", .hard "y"], [], []⟩ ⟨[], [], [], []⟩)
    = some (["app", "y", "q", "z"], [("q", .hard "z")]) := by decide

/-- and the resolver does reject: with `x` required, the unsatisfiable `missing` fails the whole
    resolution, so `closure` is not about a resolver that accepts everything -/
example : selOf (resolveDeep (exWorld [.hard "x"]) 5 ⟨"app", [.hard "x"], [], []⟩ ⟨[], [], [], []⟩)
    = none := by decide

end Laze.C01
