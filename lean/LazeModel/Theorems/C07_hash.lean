import LazeModel.Generated.RuleHash
import LazeModel.Theorems.C07
/-! # C07 / C06 — translator obligations on what a rule's name is a hash of

`translators/rulehash.py` reads `impl Hash for NinjaRule`, `impl Display for NinjaRule`, `struct NinjaRule`, `NinjaRule::get_hash` and
`utils::calculate_hash` from /repo/src on every run. The model's `NinjaRule.hash` (Model/Ninja.lean) spells out the hash *input*;
`C07.hashInj` proves that equal model hashes force equal name, command, description, deps, rspfile, rspfile_content, pool and `always`,
and `C06.rule_names_functional` that two rules with one hashed name print one block. Both rest on the source hashing what the model
hashes and printing nothing it does not hash. That is what is required here of the source text. -/
namespace Laze.C07hash
open Laze

/-- reviewed: the hashed items of `impl Hash for NinjaRule`, with the model's counterpart -/
def reviewedHashed : List ((String × String) × String) := [
  (("name", ""), "enc r.name"),
  (("command", ""), "enc r.command (the expanded command, `export` prefix included: `NinjaRule::expand` folds it into `command`)"),
  (("description", ""), "optS r.description"),
  (("deps", "if let NinjaRuleDeps::GCC(_) = self.deps"), "optS r.deps: the discriminant, hashed only for GCC"),
  (("pool", "if self.pool.is_some()"), "optS r.pool"),
  (("always", "if self.always"), "`|always` suffix when set"),
  (("rspfile", ""), "optS r.rspfile"),
  (("rspfile_content", ""), "optS r.rspfileContent"),
  (("deps.payload", "match deps"), "optS r.deps: the depfile text")
]

/-- reviewed: what a rule block prints (`NinjaRule.render` prints exactly these) -/
def reviewedPrinted : List String := ["name", "command", "description", "deps", "rspfile", "rspfile_content", "pool"]

/-- reviewed: fields of the struct. `export` is consumed by `expand` (folded into `command`) and neither hashed nor printed; `always`
    is hashed and reaches the *build statements* (`| ALWAYS`), not the rule block. A new field has to be classified. -/
def reviewedFields : List String := ["name", "command", "description", "export", "deps", "rspfile", "rspfile_content", "pool", "always"]

/-- OBLIGATION: the source hashes exactly the reviewed items, in the reviewed order and under the reviewed guards -/
theorem rule_hash_fields_reviewed : Generated.ruleHashed = reviewedHashed.map (·.1) := by decide +kernel

/-- OBLIGATION: the source prints exactly the reviewed fields … -/
theorem rule_printed_fields_reviewed : Generated.rulePrinted = reviewedPrinted := by decide +kernel

/-- … and every printed field is hashed (unconditionally, or under a guard that is the same test the printing uses): two rules with
    one hashed name cannot print two different blocks -/
theorem printed_fields_are_hashed :
    Generated.rulePrinted.all (fun f => Generated.ruleHashed.any (fun h => h.1 == f)) = true := by decide +kernel

/-- OBLIGATION: no unclassified field -/
theorem rule_struct_fields_reviewed : Generated.ruleStructFields = reviewedFields := by decide +kernel

/-- OBLIGATION: both hashers are `DefaultHasher::new()` — fixed keys, the same value in every process (C09); a `RandomState` would
    make every hashed rule name and object path differ from run to run -/
theorem hashers_have_fixed_keys :
    Generated.hasherCtors = [("NinjaRule::get_hash", "DefaultHasher::new()"), ("utils::calculate_hash", "DefaultHasher::new()")] := by
  decide +kernel

/-- the model's hash input mentions exactly the reviewed fields: changing any one of them changes the token (a restatement of
    `C07.hashInj` field by field, kept here next to the table it justifies) -/
theorem model_hash_covers_reviewed (r1 r2 : NinjaRule) (h : r1.hash = r2.hash) :
    r1.name = r2.name ∧ r1.command = r2.command ∧ r1.description = r2.description ∧ r1.deps = r2.deps ∧
    r1.rspfile = r2.rspfile ∧ r1.rspfileContent = r2.rspfileContent ∧ r1.pool = r2.pool ∧ r1.always = r2.always :=
  C07.hashInj r1 r2 h

end Laze.C07hash
