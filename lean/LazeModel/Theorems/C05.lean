import LazeModel.Model.Gen
import LazeModel.Theorems.C04
/-! C05 — locality of a module's variables.

  * `local_no_leak`  : changing a module's LOCAL env does not change the env (nor the build
                       deps) computed for any other module.
  * `export_no_leak` : changing a module's EXPORTED env does not change the env of a module whose
                       import closure does not contain it.
  * `stmts_depend_on_env` : the statements of a module depend on its env only through the
                       flattened env, so both results lift to the generated statements
                       (`local_no_leak_stmts`, `export_no_leak_stmts`), and the global env (link
                       command, tasks) is not affected either (`globalEnv_mapModules`). -/
namespace Laze.C05
open Laze Laze.C09 Laze.C04

/-- apply `g` to every selected module (same positions, same provider tables) -/
def mapModules (r : Resolved) (g : Module → Module) : Resolved :=
  { r with modules := r.modules.map g }

/-- replace the module(s) called `n` by `f` of it, at the same position -/
def updateModule (r : Resolved) (n : Name) (f : Module → Module) : Resolved :=
  mapModules r (fun x => if x.name == n then f x else x)

def setLocal (e : Env) (m : Module) : Module := { m with envLocal := e }
def setExport (e : Env) (m : Module) : Module := { m with envExport := e }

/-- `g` keeps everything the import closure reads -/
structure KeepsShape (g : Module → Module) : Prop where
  name : ∀ x, (g x).name = x.name
  imports : ∀ x, (g x).imports = x.imports

/-- `g` keeps everything `build_env` reads from OTHER modules -/
structure KeepsDepView (g : Module → Module) : Prop extends KeepsShape g where
  envExport : ∀ x, (g x).envExport = x.envExport
  contextName : ∀ x, (g x).contextName = x.contextName
  isBuildDep : ∀ x, (g x).isBuildDep = x.isBuildDep

theorem keepsShape_update {f : Module → Module} (n : Name) (hf : KeepsShape f) :
    KeepsShape (fun x => if x.name == n then f x else x) := by
  constructor
  · intro x; split
    · exact hf.name x
    · rfl
  · intro x; split
    · exact hf.imports x
    · rfl

theorem keepsDepView_update {f : Module → Module} (n : Name) (hf : KeepsDepView f) :
    KeepsDepView (fun x => if x.name == n then f x else x) := by
  refine { toKeepsShape := keepsShape_update n hf.toKeepsShape, envExport := ?_, contextName := ?_,
           isBuildDep := ?_ }
  · intro x; split
    · exact hf.envExport x
    · rfl
  · intro x; split
    · exact hf.contextName x
    · rfl
  · intro x; split
    · exact hf.isBuildDep x
    · rfl

theorem keepsDepView_setLocal (e : Env) : KeepsDepView (setLocal e) :=
  { name := fun _ => rfl, imports := fun _ => rfl, envExport := fun _ => rfl,
    contextName := fun _ => rfl, isBuildDep := fun _ => rfl }

theorem keepsShape_setExport (e : Env) : KeepsShape (setExport e) :=
  { name := fun _ => rfl, imports := fun _ => rfl }

/-! ## what the generator reads from `Resolved` -/

theorem find_map_name (g : Module → Module) (hn : ∀ x, (g x).name = x.name) (l : List Module)
    (k : Name) : (l.map g).find? (·.name == k) = (l.find? (·.name == k)).map g := by
  induction l with
  | nil => rfl
  | cons a t ih =>
    rw [List.map_cons, List.find?_cons, List.find?_cons, hn a]
    split
    · rfl
    · exact ih

theorem module?_map (r : Resolved) {g : Module → Module} (hg : KeepsShape g) (k : Name) :
    (mapModules r g).module? k = (r.module? k).map g :=
  find_map_name g hg.name r.modules k

theorem has_map (r : Resolved) {g : Module → Module} (hg : KeepsShape g) :
    (mapModules r g).has = r.has := by
  funext k
  unfold Resolved.has mapModules
  dsimp only
  rw [List.any_map]
  congr 1
  funext x
  show ((g x).name == k) = (x.name == k)
  rw [hg.name]

theorem providersOf_map (r : Resolved) (g : Module → Module) :
    (mapModules r g).providersOf = r.providersOf := rfl

theorem importName_map (r : Resolved) {g : Module → Module} (hg : KeepsShape g) :
    importName (mapModules r g) = importName r := by
  funext d
  cases d <;> simp only [importName, has_map r hg]

theorem importsStep_map (r : Resolved) {g : Module → Module} (hg : KeepsShape g) (rec : IRec) :
    importsStep (mapModules r g) rec = importsStep r rec := by
  funext n seen
  unfold importsStep
  simp only [importName_map r hg, has_map r hg, providersOf_map, module?_map r hg]
  cases r.module? n with
  | none => rfl
  | some m => simp only [Option.map_some, hg.imports]

theorem importsRec_map (r : Resolved) {g : Module → Module} (hg : KeepsShape g) (fuel : Nat) :
    importsRec (mapModules r g) fuel = importsRec r fuel := by
  induction fuel with
  | zero => rfl
  | succ f ih =>
    show importsStep (mapModules r g) (importsRec (mapModules r g) f) = importsStep r (importsRec r f)
    rw [ih, importsStep_map r hg]

/-- the import closure reads only names, `imports` and the provider tables -/
theorem importsOf_map (r : Resolved) {g : Module → Module} (hg : KeepsShape g) (n : Name) :
    importsOf (mapModules r g) n = importsOf r n := by
  unfold importsOf
  rw [importsRec_map r hg]
  unfold mapModules
  rw [List.length_map]

theorem importedModules_map (r : Resolved) {g : Module → Module} (hg : KeepsShape g) (x : Module) :
    importedModules (mapModules r g) x = (importedModules r x).map g := by
  unfold importedModules
  rw [importsOf_map r hg, List.map_filterMap]
  congr 1
  funext k
  exact module?_map r hg k

theorem filter_map_keep {β : Type _} (g : Module → Module) (p : Module → Bool) (h : Module → β)
    (hp : ∀ x, p (g x) = p x) (hh : ∀ x, h (g x) = h x) (l : List Module) :
    ((l.map g).filter p).map h = (l.filter p).map h := by
  induction l with
  | nil => rfl
  | cons a t ih =>
    rw [List.map_cons, List.filter_cons, List.filter_cons, hp a]
    split
    · rw [List.map_cons, List.map_cons, ih, hh a]
    · exact ih

theorem isContextModule_keep {g : Module → Module} (hg : KeepsShape g) (x : Module) :
    (g x).isContextModule = x.isContextModule := by
  unfold Module.isContextModule
  rw [hg.name]

theorem finishEnv_map (r : Resolved) {g : Module → Module} (hg : KeepsShape g) (m : Module)
    (env : Env) : finishEnv (mapModules r g) m env = finishEnv r m env := by
  unfold finishEnv notifyAllEnv mapModules
  dsimp only
  rw [filter_map_keep g (fun x => !x.isContextModule) (fun x => defineName x.name)
    (fun x => by rw [isContextModule_keep hg]) (fun x => by rw [hg.name])]

theorem depEnvStep_keep {g : Module → Module} (hg : KeepsDepView g) (m d : Module) (env : Env) :
    depEnvStep m (g d) env = depEnvStep m d env := by
  unfold depEnvStep notifyAppend
  rw [hg.envExport, hg.name]

theorem addBuildDep_keep {g : Module → Module} (hg : KeepsDepView g) (m d : Module)
    (bd : Option (List Name)) : addBuildDep m (g d) bd = addBuildDep m d bd := by
  unfold addBuildDep isBuildDepOf
  rw [hg.name, hg.contextName, hg.isBuildDep]

theorem buildEnvLoop_keep {g : Module → Module} (hg : KeepsDepView g) (deps : List Module)
    (m : Module) (env : Env) (bd : Option (List Name)) :
    buildEnvLoop (deps.map g) m env bd = buildEnvLoop deps m env bd := by
  induction deps generalizing env bd with
  | nil => rfl
  | cons d ds ih =>
    rw [List.map_cons]
    unfold buildEnvLoop
    rw [depEnvStep_keep hg, addBuildDep_keep hg]
    split
    · rfl
    · exact ih _ _

/-- `build_env` of `x` reads from the other selected modules only their name, context, imports,
    exported env and build-dep flag -/
theorem buildEnv_map (r : Resolved) {g : Module → Module} (hg : KeepsDepView g) (x : Module)
    (genv : Env) : buildEnv (mapModules r g) x genv = buildEnv r x genv := by
  unfold buildEnv
  rw [importedModules_map r hg.toKeepsShape, buildEnvLoop_keep hg]
  simp only [finishEnv_map r hg.toKeepsShape]

/-! ## 5. a local variable does not leak -/

theorem mem_update_of_ne {r : Resolved} {n : Name} {f : Module → Module} {x : Module}
    (hx : x ∈ r.modules) (hne : x.name ≠ n) : x ∈ (updateModule r n f).modules := by
  unfold updateModule mapModules
  dsimp only
  refine List.mem_map.2 ⟨x, hx, ?_⟩
  rw [if_neg (by simpa using hne)]

/-- **C05 (local).**  Let `r'` be the selection `r` with the local env of the module called `n`
    replaced by `e` (same position).  Every other selected module `x` is still selected, and its
    env and build deps are the same: `buildEnv r' x genv = buildEnv r x genv`. -/
theorem local_no_leak (r : Resolved) (n : Name) (e : Env) (x : Module) (genv : Env)
    (hx : x ∈ r.modules) (hne : x.name ≠ n) :
    x ∈ (updateModule r n (setLocal e)).modules ∧
      buildEnv (updateModule r n (setLocal e)) x genv = buildEnv r x genv :=
  ⟨mem_update_of_ne hx hne, buildEnv_map r (keepsDepView_update n (keepsDepView_setLocal e)) x genv⟩

/-- the import closures are unchanged as well -/
theorem local_imports_same (r : Resolved) (n : Name) (e : Env) (k : Name) :
    importsOf (updateModule r n (setLocal e)) k = importsOf r k :=
  importsOf_map r (keepsShape_update n (keepsDepView_setLocal e).toKeepsShape) k

theorem buildEnvLoop_setLocal (e : Env) (deps : List Module) (m : Module) (env : Env)
    (bd : Option (List Name)) :
    buildEnvLoop deps (setLocal e m) env bd = buildEnvLoop deps m env bd := by
  induction deps generalizing env bd with
  | nil => rfl
  | cons d ds ih =>
    unfold buildEnvLoop
    have h1 : depEnvStep (setLocal e m) d env = depEnvStep m d env := rfl
    have h2 : addBuildDep (setLocal e m) d bd = addBuildDep m d bd := rfl
    rw [h1, h2]
    split
    · rfl
    · exact ih _ _

/-- the module itself: only the last layer of its env changes -/
theorem local_own (r : Resolved) (n : Name) (e : Env) (m : Module) (genv : Env) :
    buildEnv (updateModule r n (setLocal e)) (setLocal e m) genv =
      match buildEnvLoop (importedModules r m) m genv none with
      | .error err => .error err
      | .ok p => .ok ((notifyAllEnv r m p.1).merge e, p.2) := by
  have hg := keepsDepView_update n (keepsDepView_setLocal e)
  unfold updateModule buildEnv
  rw [importedModules_map r hg.toKeepsShape, buildEnvLoop_keep hg]
  simp only [finishEnv_map r hg.toKeepsShape]
  have h3 : importedModules r (setLocal e m) = importedModules r m := rfl
  rw [h3, buildEnvLoop_setLocal]
  rfl

/-! ## 6. an exported variable reaches only the importers -/

theorem module?_name {r : Resolved} {k : Name} {d : Module} (h : r.module? k = some d) :
    d.name = k := by
  unfold Resolved.module? at h
  have := List.find?_some h
  simpa using this

theorem importedModules_names {r : Resolved} {x d : Module} (h : d ∈ importedModules r x) :
    d.name ∈ importsOf r x.name := by
  unfold importedModules at h
  rcases List.mem_filterMap.1 h with ⟨k, hk, hd⟩
  rw [module?_name hd]
  exact hk

/-- `f` keeps what `build_env` reads from other modules, except possibly the exported env -/
structure KeepsButExport (f : Module → Module) : Prop extends KeepsShape f where
  contextName : ∀ x, (f x).contextName = x.contextName
  isBuildDep : ∀ x, (f x).isBuildDep = x.isBuildDep

theorem buildEnv_update_not_imported (r : Resolved) (n : Name) {f : Module → Module}
    (hf : KeepsShape f) (x : Module) (genv : Env) (hni : n ∉ importsOf r x.name) :
    buildEnv (updateModule r n f) x genv = buildEnv r x genv := by
  have hg := keepsShape_update n hf
  unfold updateModule buildEnv
  rw [importedModules_map r hg]
  have hid : (importedModules r x).map (fun y => if y.name == n then f y else y) =
      importedModules r x := by
    conv => rhs; rw [← List.map_id (importedModules r x)]
    apply List.map_congr_left
    intro d hd
    have : d.name ≠ n := fun e => hni (e ▸ importedModules_names hd)
    rw [if_neg (by simpa using this)]
    rfl
  rw [hid]
  simp only [finishEnv_map r hg]

/-- **C05 (export).**  Let `r'` be `r` with the exported env of the module called `n` replaced by
    `e`.  For every module `x` whose import closure does not contain `n` (i.e. which does not
    transitively use / depend on `n`), env and build deps are unchanged. -/
theorem export_no_leak (r : Resolved) (n : Name) (e : Env) (x : Module) (genv : Env)
    (hni : n ∉ importsOf r x.name) :
    buildEnv (updateModule r n (setExport e)) x genv = buildEnv r x genv :=
  buildEnv_update_not_imported r n (keepsShape_setExport e) x genv hni

theorem export_imports_same (r : Resolved) (n : Name) (e : Env) (k : Name) :
    importsOf (updateModule r n (setExport e)) k = importsOf r k :=
  importsOf_map r (keepsShape_update n (keepsShape_setExport e)) k

/-- in particular a module that is not `n` and does not import `n` is still selected in `r'` -/
theorem export_no_leak_mem (r : Resolved) (n : Name) (e : Env) (x : Module)
    (hx : x ∈ r.modules) (hsel : r.module? x.name = some x) (hni : n ∉ importsOf r x.name) :
    x ∈ (updateModule r n (setExport e)).modules := by
  apply mem_update_of_ne hx
  intro hxn
  obtain ⟨pre, hpre, _⟩ := imports_self_last r x hsel
  apply hni
  rw [hpre, ← hxn]
  exact List.mem_append_right _ List.mem_cons_self

/-! ## 7. from envs to statements -/

/-- the statements of a module depend on its env only through the flattened env -/
theorem stmts_depend_on_env (ev : EvalExpr) (st : Settings) (builder : Name) (app : Module)
    (r : Resolved) (rules : List (String × Rule)) (opts : Option VarOpts) (globals : List Name)
    (m : Module) (menv menv' : Env) (bdeps : Option (List Name)) (ls : LoopState)
    (h : moduleFlat opts menv = moduleFlat opts menv') :
    moduleStep ev st builder app r rules opts globals m menv bdeps ls =
      moduleStep ev st builder app r rules opts globals m menv' bdeps ls := by
  unfold moduleStep
  rw [h]

theorem effSources_map (r : Resolved) {g : Module → Module} (hg : KeepsShape g) (x : Module) :
    effSources (mapModules r g) x = effSources r x := by
  unfold effSources optionalSourcesOf
  rw [has_map r hg]

/-- `moduleStep` reads the selection only to know which modules are selected -/
theorem moduleStep_map (ev : EvalExpr) (st : Settings) (builder : Name) (app : Module)
    (r : Resolved) {g : Module → Module} (hg : KeepsShape g) (rules : List (String × Rule))
    (opts : Option VarOpts) (globals : List Name) (x : Module) (menv : Env)
    (bdeps : Option (List Name)) (ls : LoopState) :
    moduleStep ev st builder app (mapModules r g) rules opts globals x menv bdeps ls =
      moduleStep ev st builder app r rules opts globals x menv bdeps ls := by
  unfold moduleStep moduleStmts
  rw [effSources_map r hg]

theorem globalBuildDeps_map (r : Resolved) {g : Module → Module}
    (hn : ∀ x, (g x).name = x.name) (hb : ∀ x, (g x).isGlobalBuildDep = x.isGlobalBuildDep) :
    globalBuildDeps (mapModules r g) = globalBuildDeps r := by
  unfold globalBuildDeps mapModules
  dsimp only
  exact filter_map_keep g (fun x => x.isGlobalBuildDep) (fun x => x.name) hb hn r.modules

/-- the global env (link command, tasks) reads only names and global envs of the selection -/
theorem globalEnv_mapModules (st : Settings) (b : Bag) (builder : Name) (app : Module)
    (r : Resolved) (cli : Cli) {g : Module → Module} (hg : KeepsShape g)
    (hglob : ∀ x, (g x).envGlobal = x.envGlobal) :
    globalEnv st b builder app (mapModules r g) cli = globalEnv st b builder app r cli := by
  have h1 : ∀ init : Env, (r.modules.map g).reverse.foldl (fun acc m => acc.merge m.envGlobal) init =
      r.modules.reverse.foldl (fun acc m => acc.merge m.envGlobal) init := by
    intro init
    rw [← List.map_reverse, List.foldl_map]
    congr 1
    funext acc m
    rw [hglob]
  have h2 : ((r.modules.map g).filter (!·.isContextModule)).map (·.name) =
      (r.modules.filter (!·.isContextModule)).map (·.name) :=
    filter_map_keep g (fun x => !x.isContextModule) (fun x => x.name)
      (fun x => by rw [isContextModule_keep hg]) hg.name r.modules
  unfold globalEnv mapModules
  dsimp only
  rw [h1, h2]

/-- **C05 (local), statement level.**  After changing the local env of the module called `n`, for
    every other selected module `x`: the module env and build deps are the same, hence — from the
    same loop state — `moduleStep` produces exactly the same statements (compile statements,
    objects, build-dep files) and the same flattened env; and the global env is the same. -/
theorem local_no_leak_stmts (ev : EvalExpr) (st : Settings) (b : Bag) (builder : Name)
    (app : Module) (cli : Cli) (r : Resolved) (rules : List (String × Rule)) (opts : Option VarOpts)
    (globals : List Name) (n : Name) (e : Env) (x : Module) (genv : Env) (ls : LoopState)
    (hne : x.name ≠ n) (hx : x ∈ r.modules) :
    let r' := updateModule r n (setLocal e)
    x ∈ r'.modules ∧
    globalEnv st b builder app r' cli = globalEnv st b builder app r cli ∧
    globalBuildDeps r' = globalBuildDeps r ∧
    (match buildEnv r' x genv, buildEnv r x genv with
      | .ok p', .ok p =>
          p' = p ∧ moduleStep ev st builder app r' rules opts globals x p'.1 p'.2 ls =
            moduleStep ev st builder app r rules opts globals x p.1 p.2 ls
      | .error e', .error e => e' = e
      | _, _ => False) := by
  intro r'
  have hshape := keepsShape_update n (keepsDepView_setLocal e).toKeepsShape
  refine ⟨mem_update_of_ne hx hne, ?_, ?_, ?_⟩
  · apply globalEnv_mapModules st b builder app r cli hshape
    intro y; split <;> rfl
  · apply globalBuildDeps_map r hshape.name
    intro y; split <;> rfl
  · have hb : buildEnv r' x genv = buildEnv r x genv := (local_no_leak r n e x genv hx hne).2
    rw [hb]
    cases buildEnv r x genv with
    | error e0 => rfl
    | ok p => exact ⟨rfl, moduleStep_map ev st builder app r hshape rules opts globals x p.1 p.2 ls⟩

/-- **C05 (export), statement level.**  After changing the exported env of the module called `n`,
    for every module `x` that does not (transitively) import `n`: same env, same build deps, same
    statements from the same loop state; and the global env is the same. -/
theorem export_no_leak_stmts (ev : EvalExpr) (st : Settings) (b : Bag) (builder : Name)
    (app : Module) (cli : Cli) (r : Resolved) (rules : List (String × Rule)) (opts : Option VarOpts)
    (globals : List Name) (n : Name) (e : Env) (x : Module) (genv : Env) (ls : LoopState)
    (hni : n ∉ importsOf r x.name) :
    let r' := updateModule r n (setExport e)
    globalEnv st b builder app r' cli = globalEnv st b builder app r cli ∧
    globalBuildDeps r' = globalBuildDeps r ∧
    (match buildEnv r' x genv, buildEnv r x genv with
      | .ok p', .ok p =>
          p' = p ∧ moduleStep ev st builder app r' rules opts globals x p'.1 p'.2 ls =
            moduleStep ev st builder app r rules opts globals x p.1 p.2 ls
      | .error e', .error e => e' = e
      | _, _ => False) := by
  intro r'
  have hshape := keepsShape_update n (keepsShape_setExport e)
  refine ⟨?_, ?_, ?_⟩
  · apply globalEnv_mapModules st b builder app r cli hshape
    intro y; split <;> rfl
  · apply globalBuildDeps_map r hshape.name
    intro y; split <;> rfl
  · have hb : buildEnv r' x genv = buildEnv r x genv := export_no_leak r n e x genv hni
    rw [hb]
    cases buildEnv r x genv with
    | error e0 => rfl
    | ok p => exact ⟨rfl, moduleStep_map ev st builder app r hshape rules opts globals x p.1 p.2 ls⟩

/-! ## concrete, non-vacuous instances (the selection of `C04`: `app` imports `lib`) -/
section Examples

/-- changing `lib`'s local env: `app` sees nothing of it … -/
example := local_no_leak exR "lib" [("CFLAGS", .list ["-DCHANGED"])] exApp [] List.mem_cons_self
  (by decide)
example : (buildEnv (updateModule exR "lib" (setLocal [("CFLAGS", .list ["-DCHANGED"])])) exApp
    []).toOption.map (fun p => p.1.get "CFLAGS") = some none := by decide
/-- … while `lib` itself does -/
example : (buildEnv (updateModule exR "lib" (setLocal [("CFLAGS", .list ["-DCHANGED"])]))
    (setLocal [("CFLAGS", .list ["-DCHANGED"])] exLib) []).toOption.map (fun p => p.1.get "CFLAGS") =
      some (some (.list ["-DCHANGED"])) := by decide

/-- changing `app`'s exported env: `lib` does not import `app`, so it is unaffected … -/
example : "app" ∉ importsOf exR exLib.name := by decide
example := export_no_leak exR "app" [("INC", .list ["-Inew"])] exLib [] (by decide)
/-- … but the importer hypothesis is needed: changing `lib`'s exports does change `app`'s env -/
example : (buildEnv (updateModule exR "lib" (setExport [("INC", .list ["-Inew"])])) exApp
    []).toOption.map (fun p => p.1.get "INC") ≠
    (buildEnv exR exApp []).toOption.map (fun p => p.1.get "INC") := by decide

end Examples

end Laze.C05
