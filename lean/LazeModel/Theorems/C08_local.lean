import LazeModel.Model.Select
/-! C08, local mode: the cache of a run in a start directory records the names of the binaries DEFINED in that directory
    (`known_apps`) and serves a later `--apps as` whose names are all among them. That answer is the one a cold run gives only if the
    cold run accepts such a list. On the code as it was it did not: a name defined in the start directory and ALSO in another
    directory (another context) made the cold run fail ("not defined in the current directory") while the cache served it. After the
    repair the cold run succeeds exactly on the lists the cache serves, and selects the start directory's binaries of those names. -/
namespace Laze.C08
open Laze

/-- what `Generator::execute` records as `known_apps` in local mode: the names of the binaries of the start directory -/
def knownAppsLocal (b : Bag) (dir : String) : List String := (b.bins.filter (fun m => m.relpath == dir)).map (·.name)

/-- **C08 (local apps)** a list of app names that the cache of a local run would serve (every name among `known_apps`) is accepted by
    a cold run in that directory -/
theorem local_served_list_is_accepted_cold (b : Bag) (as : List String) (dir : String)
    (hknown : ∀ a ∈ as, a ∈ knownAppsLocal b dir) :
    selectedBins b (.some as) (.local dir) = .ok ((b.bins.filter (fun m => as.contains m.name)).filter (fun m => m.relpath == dir)) := by
  have hk : ∀ a ∈ as, ∃ m ∈ b.bins, m.relpath = dir ∧ m.name = a := by
    intro a ha
    obtain ⟨m, hm, hn⟩ := List.mem_map.mp (hknown a ha)
    obtain ⟨hm1, hm2⟩ := List.mem_filter.mp hm
    exact ⟨m, hm1, by simpa using hm2, hn⟩
  unfold selectedBins
  dsimp only
  have h1 : (as.any fun a => !b.bins.any fun x => x.name == a) = false := by
    rw [List.any_eq_false]
    intro a ha
    obtain ⟨m, hm, _, hn⟩ := hk a ha
    simp only [Bool.not_eq_true, Bool.not_eq_false', List.any_eq_true, beq_iff_eq]
    exact ⟨m, hm, hn⟩
  rw [h1]
  have h2 : List.filter (fun m => m.relpath != dir && !((List.filter (fun m => (Selector.some as).selects m.name) b.bins).any
        (fun m' => m'.relpath == dir && m'.name == m.name))) (List.filter (fun m => (Selector.some as).selects m.name) b.bins) = [] := by
    rw [List.filter_eq_nil_iff]
    intro m hm hc
    obtain ⟨_, hsel⟩ := List.mem_filter.mp hm
    have hin : m.name ∈ as := by simpa [Selector.selects] using hsel
    obtain ⟨m', hm', hd, hn⟩ := hk m.name hin
    have hany : (List.filter (fun m => (Selector.some as).selects m.name) b.bins).any (fun m' => m'.relpath == dir && m'.name == m.name) = true := by
      rw [List.any_eq_true]
      refine ⟨m', List.mem_filter.mpr ⟨hm', ?_⟩, ?_⟩
      · rw [hn]; exact hsel
      · simp [hd, hn]
    rw [hany] at hc
    simp at hc
  simp only [Bool.false_eq_true, ↓reduceIte, bind, Except.bind, pure, Except.pure]
  split
  · rename_i hout
    rw [h2] at hout
    cases hout
  · rfl

/-- non-vacuity / the defect as it was: app `x` in the start directory and in `sub`; `--apps x` in the start directory selects the
    start directory's `x` -/
private def mx (ctx rel : String) : Module := { name := "x", contextName := ctx, isBinary := true, relpath := rel }
private def bag2 : Bag := { contexts := [{ name := "default", parent := none, modules := [mx "default" ""] }, { name := "other", parent := some "default", modules := [mx "other" "sub"] }] }
example : (selectedBins bag2 (.some ["x"]) (.local "")).toOption.map (·.map (·.relpath)) = some [""] := by decide +kernel
example : knownAppsLocal bag2 "" = ["x"] := by decide +kernel

end Laze.C08
