import LazeModel.Model.Build
/-! C02 — exclusion: no configured build contains a disabled module (or a module providing a
    disabled name), two modules in conflict (by name or by provided feature, in either direction),
    or two providers of a `provides_unique` feature.

    Proof style: an invariant `Excl` of resolver states, preserved by `enter` and by appending to
    `pending`, lifted through the open recursion of `Resolver.lean` with a specification of the
    recursive callback (`RecSpec`) and an induction on fuel. -/
namespace Laze.C02
open Laze

/-- lookups return a module of the looked-up name -/
def World.WF (w : World) : Prop := ∀ n m, w.lookup n = some m → m.name = n

/-- the exclusion invariant; `D0` are the names disabled from outside (context chain, `--disable`) -/
structure Excl (w : World) (D0 : List Name) (s : RState) : Prop where
  /-- every selected name is the name of a module of the world -/
  known : ∀ x ∈ s.sel, ∃ m, w.lookup x = some m
  /-- conflicts of selected modules are registered as disabled names -/
  confReg : ∀ x ∈ s.sel, ∀ m, w.lookup x = some m → ∀ c ∈ m.conflicts, s.isDisabled c = true
  /-- provides of selected modules are registered as provided names -/
  provReg : ∀ x ∈ s.sel, ∀ m, w.lookup x = some m → ∀ f ∈ m.provides, s.isProvided f = true
  /-- initially disabled names stay disabled -/
  d0 : ∀ d ∈ D0, s.isDisabled d = true
  /-- no selected module is disabled from outside, nor provides such a name -/
  notD0 : ∀ x ∈ s.sel, ∀ m, w.lookup x = some m → x ∉ D0 ∧ ∀ f ∈ m.provides, f ∉ D0
  /-- pairwise exclusion -/
  pair : ∀ x ∈ s.sel, ∀ y ∈ s.sel, x ≠ y → ∀ mx my, w.lookup x = some mx → w.lookup y = some my →
          ∀ c ∈ mx.conflicts, c ≠ y ∧ c ∉ my.provides

/-! ### `enter` -/

theorem enter_ok {m : Mod} {s s' : RState} (h : enter m s = .ok s') :
    s.isDisabled m.name = false ∧
    (∀ c ∈ m.conflicts, s.isSel c = false ∧ s.isProvided c = false) ∧
    (∀ p ∈ m.provides, s.isDisabled p = false) ∧
    s' = { s with
      sel := s.sel ++ [m.name]
      disabled := s.disabled ++ m.conflicts.map (fun c => (c, some m.name))
      providedBy := s.providedBy ++ m.provides.map (fun p => (p, m.name)) } := by
  unfold enter at h
  split at h
  · contradiction
  · split at h
    · contradiction
    · split at h
      · contradiction
      · injection h with h
        simp_all

theorem isDisabled_enter (m : Mod) (s : RState) (n : Name) :
    RState.isDisabled { s with
      sel := s.sel ++ [m.name]
      disabled := s.disabled ++ m.conflicts.map (fun c => (c, some m.name))
      providedBy := s.providedBy ++ m.provides.map (fun p => (p, m.name)) } n
      = (s.isDisabled n || m.conflicts.contains n) := by
  rw [Bool.eq_iff_iff]
  simp [RState.isDisabled, List.any_append, List.any_map]

theorem isProvided_enter (m : Mod) (s : RState) (n : Name) :
    RState.isProvided { s with
      sel := s.sel ++ [m.name]
      disabled := s.disabled ++ m.conflicts.map (fun c => (c, some m.name))
      providedBy := s.providedBy ++ m.provides.map (fun p => (p, m.name)) } n
      = (s.isProvided n || m.provides.contains n) := by
  rw [Bool.eq_iff_iff]
  simp [RState.isProvided, List.any_append, List.any_map]

/-- `enter` preserves the invariant -/
theorem excl_enter {w : World} {D0 : List Name} {m : Mod} {s s' : RState}
    (hm : w.lookup m.name = some m) (inv : Excl w D0 s) (h : enter m s = .ok s') : Excl w D0 s' := by
  obtain ⟨hd, hc, hp, rfl⟩ := enter_ok h
  have lk : ∀ {mx : Mod}, w.lookup m.name = some mx → mx = m := by
    intro mx hmx; rw [hm] at hmx; exact (Option.some.inj hmx).symm
  refine ⟨?_, ?_, ?_, ?_, ?_, ?_⟩
  · intro x hx
    simp only [List.mem_append, List.mem_singleton] at hx
    rcases hx with hx | rfl
    · exact inv.known x hx
    · exact ⟨m, hm⟩
  · intro x hx mx hmx c hcx
    rw [isDisabled_enter]
    simp only [List.mem_append, List.mem_singleton] at hx
    rcases hx with hx | rfl
    · simp [inv.confReg x hx mx hmx c hcx]
    · cases lk hmx; simp [hcx]
  · intro x hx mx hmx f hfx
    rw [isProvided_enter]
    simp only [List.mem_append, List.mem_singleton] at hx
    rcases hx with hx | rfl
    · simp [inv.provReg x hx mx hmx f hfx]
    · cases lk hmx; simp [hfx]
  · intro d hd0
    rw [isDisabled_enter]
    simp [inv.d0 d hd0]
  · intro x hx mx hmx
    simp only [List.mem_append, List.mem_singleton] at hx
    rcases hx with hx | rfl
    · exact inv.notD0 x hx mx hmx
    · cases lk hmx
      refine ⟨fun hin => ?_, fun f hf hin => ?_⟩
      · have := inv.d0 _ hin; rw [hd] at this; cases this
      · have := inv.d0 _ hin; rw [hp f hf] at this; cases this
  · intro x hx y hy hxy mx my hmx hmy c hcx
    simp only [List.mem_append, List.mem_singleton] at hx hy
    rcases hx with hx | rfl
    · rcases hy with hy | rfl
      · exact inv.pair x hx y hy hxy mx my hmx hmy c hcx
      · -- `x` was selected before, `m` is new: `c` is a disabled name
        cases lk hmy
        have hdc := inv.confReg x hx mx hmx c hcx
        refine ⟨fun hcy => ?_, fun hcp => ?_⟩
        · subst hcy; rw [hd] at hdc; cases hdc
        · rw [hp c hcp] at hdc; cases hdc
    · rcases hy with hy | rfl
      · -- `m` is new, `y` was selected before: `c` is neither selected nor provided
        cases lk hmx
        obtain ⟨hsel, hprov⟩ := hc c hcx
        refine ⟨fun hcy => ?_, fun hcp => ?_⟩
        · subst hcy; simp [RState.isSel] at hsel; exact hsel hy
        · rw [inv.provReg y hy my hmy c hcp] at hprov; cases hprov
      · exact absurd rfl hxy

/-- queueing an if-then dependency preserves the invariant -/
theorem excl_pend {w : World} {D0 : List Name} {s : RState} (inv : Excl w D0 s) (c : Name) (d : Dep) :
    Excl w D0 { s with pending := s.pending ++ [(c, d)] } :=
  ⟨inv.known, inv.confReg, inv.provReg, inv.d0, inv.notD0, inv.pair⟩

/-! ### lifting through the open recursion -/

/-- what is assumed of the recursive callback, and proved of `resolveDeepStep` -/
def RecSpec (w : World) (D0 : List Name) (rec : RRec) : Prop :=
  ∀ (m : Mod) (s s' : RState), w.lookup m.name = some m → Excl w D0 s → rec m s = .ok s' → Excl w D0 s'

variable {w : World} {D0 : List Name}

theorem name_spec {rec : RRec} (wf : World.WF w) (hrec : RecSpec w D0 rec) {n : Name} {s s' : RState}
    (inv : Excl w D0 s) (h : resolveNameW w rec n s = .ok s') : Excl w D0 s' := by
  unfold resolveNameW at h
  split at h
  · contradiction
  · rename_i m hm
    have hn : m.name = n := wf n m hm
    exact hrec m s s' (by rw [hn]; exact hm) inv h

theorem list_spec {rec : RRec} (wf : World.WF w) (hrec : RecSpec w D0 rec) (f : Name) :
    ∀ (ps : List Name) (cnt : Nat) (s : RState), Excl w D0 s →
      Excl w D0 (resolveListW w rec ps f cnt s).2 := by
  intro ps
  induction ps with
  | nil => intro cnt s inv; simpa [resolveListW] using inv
  | cons p ps ih =>
    intro cnt s inv
    unfold resolveListW
    split
    · exact ih _ s inv
    · split
      · split
        · exact inv
        · exact ih _ s inv
      · split
        · rename_i s2 hok
          exact ih _ s2 (name_spec wf hrec inv hok)
        · exact ih _ s inv

theorem one_spec {rec : RRec} (wf : World.WF w) (hrec : RecSpec w D0 rec) {n : Name} {opt : Bool}
    {s s' : RState} (inv : Excl w D0 s) (h : resolveOneW w rec n opt s = .ok s') : Excl w D0 s' := by
  unfold resolveOneW at h
  have inv1 := list_spec wf hrec n (w.providers n) 0 s inv
  generalize resolveListW w rec (w.providers n) n 0 s = r at h inv1
  obtain ⟨cnt, s1⟩ := r
  simp only at h inv1
  split at h
  · injection h with h; subst h; exact inv1
  · split at h
    · rename_i s2 hok
      injection h with h; subst h
      exact name_spec wf hrec inv1 hok
    · split at h
      · injection h with h; subst h; exact inv1
      · contradiction

theorem deps_spec {rec : RRec} (wf : World.WF w) (hrec : RecSpec w D0 rec) :
    ∀ (ds : List Dep) (s s' : RState), Excl w D0 s → resolveDepsW w rec ds s = .ok s' → Excl w D0 s' := by
  intro ds
  induction ds with
  | nil => intro s s' inv h; simp [resolveDepsW] at h; subst h; exact inv
  | cons d ds ih =>
    intro s s' inv h
    have cont : ∀ (n : Name) (opt : Bool),
        (match resolveOneW w rec n opt s with
          | .ok s1 => resolveDepsW w rec ds s1 | .error e => .error e) = .ok s' → Excl w D0 s' := by
      intro n opt h
      split at h
      · rename_i s1 hone
        exact ih s1 s' (one_spec wf hrec inv hone) h
      · contradiction
    cases d with
    | hard n => simp only [resolveDepsW] at h; exact cont n false h
    | soft n => simp only [resolveDepsW] at h; exact cont n true h
    | ifHard c n =>
      simp only [resolveDepsW] at h
      split at h
      · exact cont n false h
      · exact ih _ s' (excl_pend inv c (.hard n)) h
    | ifSoft c n =>
      simp only [resolveDepsW] at h
      split at h
      · exact cont n true h
      · exact ih _ s' (excl_pend inv c (.soft n)) h

theorem step_spec {rec : RRec} (wf : World.WF w) (hrec : RecSpec w D0 rec) :
    RecSpec w D0 (resolveDeepStep w rec) := by
  intro m s s' hm inv h
  unfold resolveDeepStep at h
  split at h
  · injection h with h; subst h; exact inv
  · split at h
    · contradiction
    · rename_i s1 hent
      exact deps_spec wf hrec _ s1 s' (excl_enter hm inv hent) h

theorem deep_spec (wf : World.WF w) : ∀ fuel, RecSpec w D0 (resolveDeep w fuel) := by
  intro fuel
  induction fuel with
  | zero => intro m s s' _ _ h; simp [resolveDeep] at h
  | succ f ih => exact step_spec wf ih

theorem excl_init (w : World) (D0 : List Name) :
    Excl w D0 ⟨[], [], D0.map (fun d => (d, none)), []⟩ := by
  refine ⟨?_, ?_, ?_, ?_, ?_, ?_⟩
  · intro x hx; cases hx
  · intro x hx; cases hx
  · intro x hx; cases hx
  · intro d hd
    simp only [RState.isDisabled, List.any_map, List.any_eq_true]
    exact ⟨d, hd, by simp⟩
  · intro x hx; cases hx
  · intro x hx; cases hx

/-- C02 on the model: every successful resolution from the initial state satisfies `Excl`. -/
theorem excl (w : World) (wf : World.WF w) (D0 : List Name) (fuel : Nat) (app : Mod) (s0 r : RState)
    (happ : w.lookup app.name = some app) (h0 : s0 = ⟨[], [], D0.map (fun d => (d, none)), []⟩)
    (h : resolveDeep w fuel app s0 = .ok r) : Excl w D0 r := by
  subst h0
  exact deep_spec wf fuel app _ r happ (excl_init w D0) h

/-! ### the property in its own words (for any state satisfying `Excl`) -/

/-- no selected module is disabled from outside -/
theorem no_disabled_selected {s : RState} (inv : Excl w D0 s) : ∀ x ∈ s.sel, x ∉ D0 := by
  intro x hx
  obtain ⟨m, hl⟩ := inv.known x hx
  exact (inv.notD0 x hx m hl).1

/-- no selected module provides a name that is disabled from outside -/
theorem no_disabled_provided {s : RState} (inv : Excl w D0 s) :
    ∀ x ∈ s.sel, ∀ m, w.lookup x = some m → ∀ f ∈ m.provides, f ∉ D0 :=
  fun x hx m hm => (inv.notD0 x hx m hm).2

/-- no two selected modules are in conflict, by name or via a provided feature, in either
    direction (conflict is symmetric) -/
theorem no_conflict_pair {s : RState} (inv : Excl w D0 s) {x y : Name} (hx : x ∈ s.sel) (hy : y ∈ s.sel)
    (hxy : x ≠ y) {mx my : Mod} (hmx : w.lookup x = some mx) (hmy : w.lookup y = some my) :
    y ∉ mx.conflicts ∧ x ∉ my.conflicts ∧
    (∀ f ∈ my.provides, f ∉ mx.conflicts) ∧ (∀ f ∈ mx.provides, f ∉ my.conflicts) := by
  refine ⟨fun h => ?_, fun h => ?_, fun f hf h => ?_, fun f hf h => ?_⟩
  · exact (inv.pair x hx y hy hxy mx my hmx hmy y h).1 rfl
  · exact (inv.pair y hy x hx (Ne.symm hxy) my mx hmy hmx x h).1 rfl
  · exact (inv.pair x hx y hy hxy mx my hmx hmy f h).2 hf
  · exact (inv.pair y hy x hx (Ne.symm hxy) my mx hmy hmx f h).2 hf

/-- a `provides_unique` feature (in both `provides` and `conflicts` of `mx`) has no second
    selected provider -/
theorem unique_provider {s : RState} (inv : Excl w D0 s) {x y : Name} (hx : x ∈ s.sel) (hy : y ∈ s.sel)
    (hxy : y ≠ x) {mx my : Mod} (hmx : w.lookup x = some mx) (hmy : w.lookup y = some my)
    {f : Name} (_hfp : f ∈ mx.provides) (hfc : f ∈ mx.conflicts) : f ∉ my.provides :=
  (inv.pair x hx y hy (Ne.symm hxy) mx my hmx hmy f hfc).2

/-! ### the top level (`Build::new`) -/

theorem buildWorld_wf (b : Bag) (builder : Name) (app' : Module) :
    World.WF (buildWorld b builder app') := by
  intro n m h
  simp only [buildWorld] at h
  split at h
  · rename_i hn
    injection h with h; subst h
    simp at hn
    simp [Module.toMod, hn]
  · simp only [Option.map_eq_some_iff] at h
    obtain ⟨M, hM, rfl⟩ := h
    unfold Bag.resolveModule at hM
    obtain ⟨c, _, hc⟩ := List.exists_of_findSome?_eq_some hM
    unfold Context.module? at hc
    have := List.find?_some hc
    simpa [Module.toMod] using this

theorem buildWorld_app (b : Bag) (builder : Name) (app' : Module) :
    (buildWorld b builder app').lookup app'.toMod.name = some app'.toMod := by
  simp [buildWorld, Module.toMod]

/-- C02 for a configured build: the state returned by `resolveTop` satisfies `Excl` with respect
    to the names disabled by the builder's context chain and by `--disable`. -/
theorem excl_top (b : Bag) (builder : Name) (app : Module) (cli : Cli) (rs : RState)
    (h : resolveTop b builder app cli = .ok rs) :
    Excl (buildWorld b builder (appClone app builder cli)) (initialDisabled b builder cli) rs := by
  unfold resolveTop at h
  exact excl _ (buildWorld_wf b builder _) _ _ _ _ rs (buildWorld_app b builder _) rfl h

theorem mem_dedup_aux {α} [BEq α] [LawfulBEq α] (x : α) (l : List α) : ∀ acc : List α,
    x ∈ l.foldl (fun acc x => if acc.contains x then acc else acc ++ [x]) acc ↔ x ∈ acc ∨ x ∈ l := by
  induction l with
  | nil => intro acc; simp
  | cons a l ih =>
    intro acc
    rw [List.foldl_cons, ih]
    by_cases ha : acc.contains a = true
    · simp only [ha, if_true, List.mem_cons]
      constructor
      · rintro (h | h)
        · exact Or.inl h
        · exact Or.inr (Or.inr h)
      · rintro (h | rfl | h)
        · exact Or.inl h
        · exact Or.inl (by simpa using ha)
        · exact Or.inr h
    · simp only [ha, List.mem_cons]
      simp only [Bool.false_eq_true, if_false, List.mem_append, List.mem_singleton]
      constructor
      · rintro ((h | h) | h)
        · exact Or.inl h
        · exact Or.inr (Or.inl h)
        · exact Or.inr (Or.inr h)
      · rintro (h | h | h)
        · exact Or.inl (Or.inl h)
        · exact Or.inl (Or.inr h)
        · exact Or.inr h

theorem mem_dedup {α} [BEq α] [LawfulBEq α] (x : α) (l : List α) : x ∈ dedup l ↔ x ∈ l := by
  unfold dedup; rw [mem_dedup_aux]; simp

/-- a name is disabled from outside iff some context on the builder's chain disables it or it is
    given with `--disable` -/
theorem mem_initialDisabled (b : Bag) (builder : Name) (cli : Cli) (x : Name) :
    x ∈ initialDisabled b builder cli ↔
      (∃ c ∈ b.chainCtx builder, x ∈ c.disable.getD []) ∨ x ∈ cli.disable.getD [] := by
  unfold initialDisabled Bag.collectDisabled
  rw [mem_dedup, List.mem_append, mem_dedup]
  simp [List.mem_flatMap]

/-- no configured build contains a module that is disabled by the builder's context chain or by
    `--disable`, nor a module that provides such a name -/
theorem top_no_disabled (b : Bag) (builder : Name) (app : Module) (cli : Cli) (rs : RState)
    (h : resolveTop b builder app cli = .ok rs) :
    ∀ x ∈ rs.sel, ∃ m, (buildWorld b builder (appClone app builder cli)).lookup x = some m ∧
      ∀ n, n = x ∨ n ∈ m.provides →
        (∀ c ∈ b.chainCtx builder, n ∉ c.disable.getD []) ∧ n ∉ cli.disable.getD [] := by
  intro x hx
  have inv := excl_top b builder app cli rs h
  obtain ⟨m, hm⟩ := inv.known x hx
  refine ⟨m, hm, fun n hn => ?_⟩
  have hnot : n ∉ initialDisabled b builder cli := by
    rcases hn with rfl | hn
    · exact (inv.notD0 n hx m hm).1
    · exact (inv.notD0 x hx m hm).2 n hn
  rw [mem_initialDisabled] at hnot
  exact ⟨fun c hc hin => hnot (Or.inl ⟨c, hc, hin⟩), fun hin => hnot (Or.inr hin)⟩

/-- no configured build contains two modules in conflict (either direction, by name or by a
    provided feature) -/
theorem top_no_conflict_pair (b : Bag) (builder : Name) (app : Module) (cli : Cli) (rs : RState)
    (h : resolveTop b builder app cli = .ok rs) {x y : Name} (hx : x ∈ rs.sel) (hy : y ∈ rs.sel)
    (hxy : x ≠ y) {mx my : Mod}
    (hmx : (buildWorld b builder (appClone app builder cli)).lookup x = some mx)
    (hmy : (buildWorld b builder (appClone app builder cli)).lookup y = some my) :
    y ∉ mx.conflicts ∧ x ∉ my.conflicts ∧
    (∀ f ∈ my.provides, f ∉ mx.conflicts) ∧ (∀ f ∈ mx.provides, f ∉ my.conflicts) :=
  no_conflict_pair (excl_top b builder app cli rs h) hx hy hxy hmx hmy

/-- no configured build contains two providers of a feature one of them `provides_unique` -/
theorem top_unique_provider (b : Bag) (builder : Name) (app : Module) (cli : Cli) (rs : RState)
    (h : resolveTop b builder app cli = .ok rs) {x y : Name} (hx : x ∈ rs.sel) (hy : y ∈ rs.sel)
    (hxy : y ≠ x) {mx my : Mod}
    (hmx : (buildWorld b builder (appClone app builder cli)).lookup x = some mx)
    (hmy : (buildWorld b builder (appClone app builder cli)).lookup y = some my)
    {f : Name} (hfp : f ∈ mx.provides) (hfc : f ∈ mx.conflicts) : f ∉ my.provides :=
  unique_provider (excl_top b builder app cli rs h) hx hy hxy hmx hmy hfp hfc

/-! ### non-vacuity: concrete worlds -/

section Examples

/-- `y` conflicts with `x`; `u` provides `f` uniquely; `p` also provides `f`; `q` provides `z` -/
def exMods (appSelects : List Dep) : List Mod :=
  [ ⟨"app", appSelects, [], []⟩,
    ⟨"x", [], [], []⟩,
    ⟨"y", [], ["x"], []⟩,
    ⟨"u", [], ["f"], ["f"]⟩,
    ⟨"p", [], [], ["f"]⟩,
    ⟨"z", [], [], []⟩,
    ⟨"q", [], [], ["z"]⟩ ]

def exWorld (appSelects : List Dep) : World :=
  { lookup := fun n => (exMods appSelects).find? (·.name == n)
    providers := fun f => if f == "f" then ["u", "p"] else if f == "z" then ["q"] else [] }

def exApp (appSelects : List Dep) : Mod := ⟨"app", appSelects, [], []⟩
def exS0 (D0 : List Name) : RState := ⟨[], [], D0.map (fun d => (d, none)), []⟩

def exRun (D0 : List Name) (appSelects : List Dep) : Except RErr RState :=
  resolveDeep (exWorld appSelects) 6 (exApp appSelects) (exS0 D0)

def selIs (r : Except RErr RState) (l : List Name) : Bool :=
  match r with | .ok s => s.sel == l | .error _ => false
def errIs (r : Except RErr RState) (e : RErr) : Bool :=
  match r with | .ok _ => false | .error e' => e == e'

theorem exWorld_wf (sel : List Dep) : World.WF (exWorld sel) := by
  intro n m h
  have := List.find?_some h
  simpa using this

/-- the hypotheses of `excl` are jointly satisfiable with a non-trivial result: `y` (conflicts
    with `x`) is reached first, the soft dependency on `x` is then dropped -/
example : selIs (exRun [] [.hard "y", .soft "x"]) ["app", "y"] = true := by decide
example : ∀ r, exRun [] [.hard "y", .soft "x"] = .ok r → Excl (exWorld [.hard "y", .soft "x"]) [] r :=
  fun r h => excl _ (exWorld_wf _) [] 6 _ _ r rfl rfl h
/-- symmetric: with `x` reached first, `y` is the one that is left out -/
example : selIs (exRun [] [.soft "x", .soft "y"]) ["app", "x"] = true := by decide
example : selIs (exRun [] [.soft "y", .soft "x"]) ["app", "y"] = true := by decide
/-- … and a hard dependency on the excluded module rejects the build, in either order -/
example : errIs (exRun [] [.soft "x", .hard "y"]) .dep = true := by decide
example : errIs (exRun [] [.hard "y", .hard "x"]) .dep = true := by decide
/-- `provides_unique`: only one provider of `f` is selected, whichever comes first -/
example : selIs (exRun [] [.hard "u", .soft "p"]) ["app", "u"] = true := by decide
example : selIs (exRun [] [.hard "p", .soft "u"]) ["app", "p"] = true := by decide
/-- a dependency on the feature itself: the first provider is taken, the second is not tried -/
example : selIs (exRun [] [.hard "f"]) ["app", "u"] = true := by decide
/-- names disabled from outside: the module `z` and the provider `q` of `z` are not selected -/
example : selIs (exRun ["z"] [.soft "z", .soft "q", .soft "x"]) ["app", "x"] = true := by decide
example : errIs (exRun ["z"] [.hard "q"]) .dep = true := by decide

end Examples

end Laze.C02
