import LazeModel.Generated.ExecuteOrder
import LazeModel.Model.Cache

/-! # C08 — translator obligations: the order of disk effects in `Generator::execute`, and the tests of the cache reader

`translators/steporder.py` reads /repo/src/generate.rs on every run and writes `Generated/ExecuteOrder.lean`.
The theorems here tie two things in the *source text* to the model in `Model/Cache.lean`:

* the order in which `execute` removes the cache, truncates, writes and flushes the ninja file and (under the
  "no build file changed while loading" guard) writes the cache is the order of the model's micro-steps
  (`Cache.next _ .step`) — this order is what `C08.inv_next` relies on;
* the reader `try_from` performs exactly the reviewed list of tests, each of which is a conjunct of `Cache.keyValid`
  or of `Cache.hit` — deleting one of them (the property's "key change is not noticed") breaks the obligation even
  when no generated scenario exercises that key component. -/

namespace Laze.C08order
open Laze Laze.Cache

/-- the effect on the disk of the micro-step taken from phase `p` (names as the translator prints them) -/
def effectOf : Proc → Option String
  | .statted .. => some "remove_cache"
  | .removed .. => some "ninja_create"
  | .created .. => some "ninja_write"
  | .written .. => some "ninja_flush"
  | .flushed .. => some "to_cache"
  | _ => none

/-- the names are what the steps do (`ok` = the outcome of `load`'s comparison pass: no build file changed while
    it was being loaded) -/
theorem effect_remove_cache (s : State) (k sn st ok) (h : s.proc = .statted k sn st ok) :
    (next s .step).cache = .absent ∧ (next s .step).ninja = s.ninja := by simp [next, h]
theorem effect_ninja_create (s : State) (k sn st ok) (h : s.proc = .removed k sn st ok) :
    (next s .step).ninja = .short ∧ (next s .step).cache = s.cache := by simp [next, h]
theorem effect_ninja_write (s : State) (k sn st ok) (h : s.proc = .created k sn st ok) :
    (next s .step).ninja = s.ninja ∧ (next s .step).cache = s.cache := by simp [next, h]
theorem effect_ninja_flush (s : State) (k sn st ok) (h : s.proc = .written k sn st ok) :
    (next s .step).ninja = .complete sn k ∧ (next s .step).cache = s.cache := by simp [next, h]
/-- `to_cache` is guarded: the record is written when the comparison pass found no change, and nothing is written
    (the cache stays as it is — removed) when it did -/
theorem effect_to_cache (s : State) (k sn st ok) (h : s.proc = .flushed k sn st ok) :
    (ok = true → (next s .step).cache = .record k st sn) ∧ (ok = false → (next s .step).cache = s.cache) ∧
    (next s .step).ninja = s.ninja := by
  cases ok <;> simp [next, h]

/-- the effects of a run of the model from `load` returning to the end, in order -/
def modelEffects : Nat → State → List String
  | 0, _ => []
  | n+1, s => match effectOf s.proc with
      | some e => e :: modelEffects n (next s .step)
      | none => if s.proc == .idle then [] else modelEffects n (next s .step)

def sampleKey : Key := { uuid := 0, partition := none, builders := .all, apps := .all, mode := "global", select := none, disable := none, define := [] }

/-- from any state in phase `statted` the model performs the five effects in this order, whatever the key and files -/
theorem modelEffects_statted (s : State) (k sn st ok) (h : s.proc = .statted k sn st ok) (n : Nat) :
    modelEffects (n + 6) s = ["remove_cache", "ninja_create", "ninja_write", "ninja_flush", "to_cache"] := by
  simp [modelEffects, effectOf, next, h]

/-- how a step of `execute` (name, brace depth) counts as a disk effect of a cache-missing run: the removal of the
    cache and the ninja-file steps must be straight-line code (depth 0); `to_cache` must sit exactly one level deep —
    inside the `if load_stats.changed_while_loading { … } else { to_cache }` guard, the model's `if ok`. A `to_cache`
    at any other depth (in particular an unguarded one at depth 0: the protocol `C08.nextNoCheck`) is reported under
    another name, so that the obligation below fails. -/
def sourceEffect (p : String × Nat) : Option String :=
  if p.1 == "to_cache" then (if p.2 == 1 then some "to_cache" else some ("to_cache@depth" ++ toString p.2))
  else if p.2 == 0 && ["remove_cache", "ninja_create", "ninja_write", "ninja_flush", "ninja_flush_unchecked"].contains p.1
  then some p.1 else none

/-- the disk effects of `execute` after `load`, as found in the source now -/
def sourceEffects : List String :=
  (Generated.executeSteps.dropWhile (fun p => p.1 != "load")).filterMap sourceEffect

/-- OBLIGATION (order): the source performs the disk effects in the model's order: cache removed before the ninja file is
    truncated; the ninja file flushed, with the error checked, before the cache is written; the cache written under a
    guard. -/
theorem execute_order_matches_model (s : State) (k sn st ok) (h : s.proc = .statted k sn st ok) :
    sourceEffects = modelEffects 6 s := by
  rw [modelEffects_statted s k sn st ok h 0]
  decide +kernel

/-- the guard is the last thing: nothing is written to the ninja file or the cache after the (guarded) `to_cache` -/
theorem to_cache_is_last :
    ((Generated.executeSteps.dropWhile (fun p => p.1 != "to_cache")).map (·.1)) = ["to_cache"] := by
  decide +kernel

/-- OBLIGATION (order): nothing touches the cache or the ninja file before `load` has returned except the read, and a
    cache hit returns before anything is written -/
theorem execute_prefix :
    (Generated.executeSteps.takeWhile (fun p => p.1 != "load")).map (·.1) = ["try_from", "return_ok_cached"] := by
  decide +kernel

/-- the reviewed table: each test of the reader and the conjunct of the model it is -/
def reviewedTests : List (String × String) := [
  ("reject:cache disabled", "the model's `run` is only used with the cache enabled (the harness never passes --no-cache... it is compared as a miss)"),
  ("open?", "CacheFile.absent => hit = false"),
  ("deserialize?", "CacheFile.torn => hit = false"),
  ("reject:cache from different laze version", "keyValid: r.uuid == k.uuid"),
  ("deserialize?", "CacheFile.torn => hit = false"),
  ("reject:partition values don't match", "keyValid: r.partition == k.partition"),
  ("reject:partitioned builders/apps don't match", "keyValid: partitionOk r k (with a partition: the same builders in the same order, the same set of apps)"),
  ("reject:builders don't match", "keyValid: r.builders.isSuperset k.builders"),
  ("reject:apps don't match", "keyValid: r.apps.isSuperset k.apps"),
  ("reject:unknown builders requested", "keyValid: k.namesKnown"),
  ("reject:unknown apps requested", "keyValid: k.namesKnown"),
  ("reject:local paths don't match", "keyValid: r.mode == k.mode"),
  ("reject:CLI selects don't match", "keyValid: r.select == k.select"),
  ("reject:CLI disables don't match", "keyValid: r.disable == k.disable"),
  ("reject:laze: CLI env doesn't match", "keyValid: r.define == k.define"),
  ("reject:laze: build files have changed", "hit: stampsMatchB st s.tree")
]

/-- OBLIGATION (reader): the tests `try_from` performs today are exactly the reviewed ones, in order -/
theorem try_from_tests_reviewed : Generated.tryFromTests = reviewedTests.map (·.1) := by
  decide +kernel

/-- the reviewed conditions, verbatim: a test that is still present but whose condition was changed is also flagged -/
def reviewedConds : List String := [
  "if generator.disable_cache {",
  "if &build_uuid != build_uuid::get().as_bytes() {",
  "if generator.partitioner != res.partitioner {",
  "if generator.partitioner.is_some() && (!res.builders.same_sequence(&generator.builders) || res.apps != generator.apps) {",
  "if !res.builders.is_superset(&generator.builders) {",
  "if !res.apps.is_superset(&generator.apps) {",
  "if let Selector::Some(builders) = &generator.builders {",
  "if !builders.is_subset(&res.known_builders) {",
  "if let Selector::Some(apps) = &generator.apps {",
  "if !apps.is_subset(&res.known_apps) {",
  "if let GenerateMode::Local(path) = &generator.mode {",
  "if let GenerateMode::Local(cached_path) = &res.mode {",
  "if path != cached_path {",
  "if !res.select.as_ref().eq(&generator.select.as_ref()) {",
  "if !res.disable.as_ref().eq(&generator.disable.as_ref()) {",
  "if res.cli_env_hash != cli_env_hash(generator.cli_env.as_ref()) {",
  "if res.treestate.has_changed() {"
]

theorem try_from_conds_reviewed : Generated.tryFromConds = reviewedConds := by
  decide +kernel

/-- every conjunct of `keyValid` is necessary: dropping any component changes some verdict (so the table above is not
    padded: each listed test distinguishes two keys) -/
theorem keyValid_components_matter :
    keyValid sampleKey { sampleKey with uuid := 1 } = false ∧
    keyValid sampleKey { sampleKey with partition := some "0:2" } = false ∧
    keyValid { sampleKey with builders := .some ["a"] } { sampleKey with builders := .some ["b"] } = false ∧
    keyValid { sampleKey with apps := .some ["a"] } { sampleKey with apps := .some ["b"] } = false ∧
    keyValid sampleKey { sampleKey with mode := "local:d" } = false ∧
    keyValid sampleKey { sampleKey with select := some ["a:b"] } = false ∧
    keyValid sampleKey { sampleKey with disable := some ["m"] } = false ∧
    keyValid sampleKey { sampleKey with define := ["A=1"] } = false ∧
    keyValid sampleKey { sampleKey with namesKnown := false } = false ∧
    keyValid { sampleKey with partition := some "1:2" } { sampleKey with partition := some "1:2", apps := .some ["a"] } = false ∧
    keyValid { sampleKey with partition := some "1:2", builders := .some ["x", "y"] }
             { sampleKey with partition := some "1:2", builders := .some ["y", "x"] } = false ∧
    keyValid { sampleKey with builders := .some ["x", "y"] } { sampleKey with builders := .some ["y", "x"] } = true ∧
    keyValid sampleKey { sampleKey with apps := .some ["a"] } = true ∧
    keyValid sampleKey sampleKey = true := by
  decide

end Laze.C08order
