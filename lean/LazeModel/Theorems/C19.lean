import LazeModel.Model.Gen
import LazeModel.Model.Loader
/-! # C19 — build dependencies

"Every compile statement of a module that uses/depends (transitively) on a selected module marked
`is_build_dep` (downloaded modules always are) lists that module's download tag file, declared
build-dep files and custom build outputs as order-only dependencies, and the outputs of
`is_global_build_dep` modules are order-only dependencies of every other module's compile statements
and of the link. Sources inside a download directory are declared as produced by the download step,
and a cycle among build dependencies drops the build instead of emitting it." -/
namespace Laze.C19
open Laze

/-! ## 0. generic helpers -/

theorem mem_dedup_aux {α} [BEq α] [LawfulBEq α] (x : α) (l : List α) : ∀ acc : List α,
    x ∈ l.foldl (fun acc x => if acc.contains x then acc else acc ++ [x]) acc ↔ x ∈ acc ∨ x ∈ l := by
  induction l with
  | nil => intro acc; simp
  | cons a l ih =>
    intro acc
    rw [List.foldl_cons, ih]
    by_cases ha : acc.contains a = true
    · simp only [ha, if_true, List.mem_cons]
      constructor
      · rintro (h | h)
        · exact Or.inl h
        · exact Or.inr (Or.inr h)
      · rintro (h | rfl | h)
        · exact Or.inl h
        · exact Or.inl (by simpa using ha)
        · exact Or.inr h
    · simp only [ha, List.mem_cons]
      simp only [Bool.false_eq_true, if_false, List.mem_append, List.mem_singleton]
      constructor
      · rintro ((h | h) | h)
        · exact Or.inl h
        · exact Or.inr (Or.inl h)
        · exact Or.inr (Or.inr h)
      · rintro (h | h | h)
        · exact Or.inl (Or.inl h)
        · exact Or.inl (Or.inr h)
        · exact Or.inr h

theorem mem_dedup {α} [BEq α] [LawfulBEq α] (x : α) (l : List α) : x ∈ dedup l ↔ x ∈ l := by
  unfold dedup; rw [mem_dedup_aux]; simp

/-! ## 1. the build-dep modules collected by `buildEnv` -/

theorem mem_bdepInsert (bdeps : Option (List Name)) (n d : Name) :
    d ∈ (bdepInsert bdeps n).getD [] ↔ d ∈ bdeps.getD [] ∨ d = n := by
  unfold bdepInsert
  by_cases h : (bdeps.getD []).contains n = true
  · simp only [h, if_true, Option.getD_some]
    constructor
    · exact Or.inl
    · rintro (h' | rfl)
      · exact h'
      · simpa using h
  · simp only [h, Bool.false_eq_true, if_false, Option.getD_some, List.mem_append, List.mem_singleton]

theorem isBuildDepOf_iff (m x : Module) :
    isBuildDepOf m x = true ↔
      x.isBuildDep = true ∧ ¬(x.name = m.name ∧ x.contextName = m.contextName) := by
  unfold isBuildDepOf
  simp only [Bool.and_eq_true, Bool.not_eq_true', Bool.and_eq_false_iff, beq_eq_false_iff_ne, ne_eq]
  constructor
  · rintro ⟨h1, h2⟩
    refine ⟨h2, ?_⟩
    rintro ⟨ha, hb⟩
    cases h1 with
    | inl h => exact h ha
    | inr h => exact h hb
  · rintro ⟨h2, h1⟩
    refine ⟨?_, h2⟩
    by_cases ha : x.name = m.name
    · right; intro hb; exact h1 ⟨ha, hb⟩
    · left; exact ha

theorem mem_addBuildDep (m x : Module) (bdeps : Option (List Name)) (d : Name) :
    d ∈ (addBuildDep m x bdeps).getD [] ↔ d ∈ bdeps.getD [] ∨ (x.name = d ∧ isBuildDepOf m x = true) := by
  unfold addBuildDep
  by_cases h : isBuildDepOf m x = true
  · simp only [h, if_true, mem_bdepInsert, and_true]
    constructor
    · rintro (h' | rfl)
      · exact Or.inl h'
      · exact Or.inr rfl
    · rintro (h' | rfl)
      · exact Or.inl h'
      · exact Or.inr rfl
  · simp only [h, Bool.false_eq_true, if_false, and_false, or_false]

/-- the build-dep set after the loop: what was there, plus every build-dep module of the list -/
theorem buildEnvLoop_bdeps {deps : List Module} {m : Module} {env : Env} {bdeps : Option (List Name)}
    {p : Env × Option (List Name)} (h : buildEnvLoop deps m env bdeps = .ok p) (d : Name) :
    d ∈ p.2.getD [] ↔ d ∈ bdeps.getD [] ∨ ∃ x ∈ deps, x.name = d ∧ isBuildDepOf m x = true := by
  induction deps generalizing env bdeps with
  | nil =>
    unfold buildEnvLoop at h
    cases h
    simp
  | cons x xs ih =>
    unfold buildEnvLoop at h
    split at h
    · cases h
    · rw [ih h, mem_addBuildDep]
      constructor
      · rintro ((h' | ⟨h1, h2⟩) | ⟨y, hy, h1, h2⟩)
        · exact Or.inl h'
        · exact Or.inr ⟨x, List.mem_cons_self, h1, h2⟩
        · exact Or.inr ⟨y, List.mem_cons_of_mem _ hy, h1, h2⟩
      · rintro (h' | ⟨y, hy, h1, h2⟩)
        · exact Or.inl (Or.inl h')
        · cases hy with
          | head => exact Or.inl (Or.inr ⟨h1, h2⟩)
          | tail _ hy => exact Or.inr ⟨y, hy, h1, h2⟩

/-- **C19.1** the build-dep modules of `m` are exactly the imported modules marked `is_build_dep`,
    except `m` itself -/
theorem buildEnv_bdeps {r : Resolved} {m : Module} {genv env : Env} {bdeps : Option (List Name)}
    (h : buildEnv r m genv = .ok (env, bdeps)) (d : Name) :
    d ∈ bdeps.getD [] ↔
      ∃ x ∈ importedModules r m, x.name = d ∧ x.isBuildDep = true ∧
        ¬(x.name = m.name ∧ x.contextName = m.contextName) := by
  unfold buildEnv at h
  split at h
  · cases h
  · rename_i p hp
    cases h
    rw [buildEnvLoop_bdeps hp]
    simp only [Option.getD_none, List.not_mem_nil, false_or, isBuildDepOf_iff]

/-- the build-dep set has no duplicates -/
theorem bdepInsert_nodup (bdeps : Option (List Name)) (n : Name) (h : (bdeps.getD []).Nodup) :
    ((bdepInsert bdeps n).getD []).Nodup := by
  unfold bdepInsert
  by_cases hc : (bdeps.getD []).contains n = true
  · simpa only [hc, if_true, Option.getD_some] using h
  · simp only [hc, Bool.false_eq_true, if_false, Option.getD_some]
    rw [List.nodup_append]
    refine ⟨h, by simp, ?_⟩
    intro a ha b hb
    simp only [List.mem_singleton] at hb
    subst hb
    intro hab
    subst hab
    exact hc (by simpa using ha)

theorem buildEnvLoop_nodup {deps : List Module} {m : Module} {env : Env} {bdeps : Option (List Name)}
    {p : Env × Option (List Name)} (h : buildEnvLoop deps m env bdeps = .ok p)
    (hn : (bdeps.getD []).Nodup) : (p.2.getD []).Nodup := by
  induction deps generalizing env bdeps with
  | nil => unfold buildEnvLoop at h; cases h; exact hn
  | cons x xs ih =>
    unfold buildEnvLoop at h
    split at h
    · cases h
    · refine ih h ?_
      unfold addBuildDep
      split
      · exact bdepInsert_nodup _ _ hn
      · exact hn

theorem buildEnv_bdeps_nodup {r : Resolved} {m : Module} {genv env : Env} {bdeps : Option (List Name)}
    (h : buildEnv r m genv = .ok (env, bdeps)) : (bdeps.getD []).Nodup := by
  unfold buildEnv at h
  split at h
  · cases h
  · rename_i p hp
    cases h
    exact buildEnvLoop_nodup hp (by simp)

example :
    let dl : Module := { name := "dl", contextName := "default", isBuildDep := true }
    let app : Module := { name := "app", contextName := "default", imports := [.hard "dl"] }
    let r : Resolved := { modules := [app, dl], providers := [] }
    (buildEnv r app []).toOption.map (·.2) = some (some ["dl"]) := by decide

/-! ## 2. `effBuildDeps`: the global build deps come first -/

/-- **C19.2** a non-global module gets every global build dep and every imported build dep -/
theorem effBuildDeps_mem {globals : List Name} {m : Module} {bdeps : Option (List Name)}
    (hg : globals ≠ []) (hm : m.isGlobalBuildDep = false) (d : Name) :
    d ∈ (effBuildDeps globals m bdeps).getD [] ↔ d ∈ globals ∨ d ∈ bdeps.getD [] := by
  unfold effBuildDeps
  have : globals.isEmpty = false := by cases globals with | nil => exact absurd rfl hg | cons _ _ => rfl
  simp only [this, hm, Bool.not_false, Bool.and_self, if_true, Option.getD_some, mem_dedup, List.mem_append]

theorem effBuildDeps_globals {globals : List Name} {m : Module} {bdeps : Option (List Name)}
    (hg : globals ≠ []) (hm : m.isGlobalBuildDep = false) :
    globals ⊆ (effBuildDeps globals m bdeps).getD [] :=
  fun d hd => (effBuildDeps_mem hg hm d).2 (Or.inl hd)

/-- the imported build deps are always kept (global module or not, globals or not) -/
theorem effBuildDeps_bdeps (globals : List Name) (m : Module) (bdeps : Option (List Name)) :
    bdeps.getD [] ⊆ (effBuildDeps globals m bdeps).getD [] := by
  intro d hd
  unfold effBuildDeps
  split
  · simp only [Option.getD_some, mem_dedup, List.mem_append]; exact Or.inr hd
  · exact hd

/-- a global build dep itself (or a build without global build deps) only has its imported ones -/
theorem effBuildDeps_global (globals : List Name) (m : Module) (bdeps : Option (List Name))
    (h : globals = [] ∨ m.isGlobalBuildDep = true) : effBuildDeps globals m bdeps = bdeps := by
  unfold effBuildDeps
  cases h with
  | inl h => subst h; simp
  | inr h => simp [h]

example : effBuildDeps ["g"] { name := "m", contextName := "c" } (some ["d"]) = some ["g", "d"] := by decide

/-! ## 3. the order-only dependencies of compile statements -/

theorem insertSorted_perm (x : String) (l : List String) : (insertSorted x l).Perm (x :: l) := by
  induction l with
  | nil => exact List.Perm.refl _
  | cons y ys ih =>
    unfold insertSorted
    split
    · exact ((List.Perm.cons y ih).trans (List.Perm.swap x y ys))
    · exact List.Perm.refl _

theorem pathSort_aux_perm (l acc : List String) :
    (l.foldl (fun acc x => insertSorted x acc) acc).Perm (l ++ acc) := by
  induction l generalizing acc with
  | nil => exact List.Perm.refl _
  | cons x xs ih =>
    rw [List.foldl_cons]
    refine (ih _).trans ?_
    refine (List.Perm.append_left xs (insertSorted_perm x acc)).trans ?_
    simp

/-- **C19.3a** sorting the dependency list loses and adds nothing -/
theorem pathSort_perm (l : List String) : (pathSort l).Perm l := by
  unfold pathSort
  simpa using pathSort_aux_perm l []

theorem mem_pathSort (l : List String) (f : String) : f ∈ pathSort l ↔ f ∈ l := (pathSort_perm l).mem_iff

/-- **C19.3b** the files collected from the build deps: the accumulator, every registered file of
    every dep, and nothing else -/
theorem importedDepFiles_mem {files : FileTable} {deps : List Name} {acc l : List String}
    (h : importedDepFiles files deps acc = .ok l) (f : String) :
    f ∈ l ↔ f ∈ acc ∨ ∃ d ∈ deps, f ∈ (files.get? d).getD [] := by
  induction deps generalizing acc with
  | nil => unfold importedDepFiles at h; cases h; simp
  | cons x xs ih =>
    unfold importedDepFiles at h
    split at h
    · rename_i fs hfs
      rw [ih h, mem_dedup, List.mem_append]
      constructor
      · rintro ((h' | h') | ⟨d, hd, hf⟩)
        · exact Or.inl h'
        · exact Or.inr ⟨x, List.mem_cons_self, by simpa [hfs] using h'⟩
        · exact Or.inr ⟨d, List.mem_cons_of_mem _ hd, hf⟩
      · rintro (h' | ⟨d, hd, hf⟩)
        · exact Or.inl (Or.inl h')
        · cases hd with
          | head => exact Or.inl (Or.inr (by simpa [hfs] using hf))
          | tail _ hd => exact Or.inr ⟨d, hd, hf⟩
    · -- a dep without an entry in the table is skipped: it contributes `(none).getD [] = []`
      rename_i hnone
      rw [ih h]
      constructor
      · rintro (h' | ⟨d, hd, hf⟩)
        · exact Or.inl h'
        · exact Or.inr ⟨d, List.mem_cons_of_mem _ hd, hf⟩
      · rintro (h' | ⟨d, hd, hf⟩)
        · exact Or.inl h'
        · cases hd with
          | head => rw [hnone] at hf; cases hf
          | tail _ hd => exact Or.inr ⟨d, hd, hf⟩

/-- the loop over the build deps can no longer fail (a dep without registered files is skipped;
    it used to be a panic, the former finding C19-F1) -/
theorem importedDepFiles_total (files : FileTable) (deps : List Name) (acc : List String) :
    ∃ l, importedDepFiles files deps acc = .ok l := by
  induction deps generalizing acc with
  | nil => exact ⟨acc, rfl⟩
  | cons x xs ih =>
    unfold importedDepFiles
    split
    · exact ih _
    · exact ih _

theorem importedOf_total (files : FileTable) (deps : Option (List Name)) :
    ∃ i, importedOf files deps = .ok i := by
  unfold importedOf
  split
  · exact ⟨none, rfl⟩
  · rename_i l
    obtain ⟨out, hout⟩ := importedDepFiles_total files l []
    exact ⟨some out, by rw [hout]; rfl⟩

/-- `acc ⊆ l`; every file of every dep that has an entry in the table is in `l` (a dep without an
    entry has `(files.get? d).getD [] = []`, see `importedDepFiles_spec'` for the explicit form);
    every element of `l` comes from `acc` or from some dep's files -/
theorem importedDepFiles_spec {files : FileTable} {deps : List Name} {acc l : List String}
    (h : importedDepFiles files deps acc = .ok l) :
    acc ⊆ l ∧ (∀ d ∈ deps, ∀ f ∈ (files.get? d).getD [], f ∈ l) ∧
      ∀ f ∈ l, f ∈ acc ∨ ∃ d ∈ deps, f ∈ (files.get? d).getD [] :=
  ⟨fun f hf => (importedDepFiles_mem h f).2 (Or.inl hf),
   fun d hd f hf => (importedDepFiles_mem h f).2 (Or.inr ⟨d, hd, hf⟩),
   fun f hf => (importedDepFiles_mem h f).1 hf⟩

/-- the same with the table entries explicit -/
theorem importedDepFiles_spec' {files : FileTable} {deps : List Name} {acc l : List String}
    (h : importedDepFiles files deps acc = .ok l) :
    acc ⊆ l ∧ (∀ d ∈ deps, ∀ fs, files.get? d = some fs → fs ⊆ l) ∧
      ∀ f ∈ l, f ∈ acc ∨ ∃ d ∈ deps, ∃ fs, files.get? d = some fs ∧ f ∈ fs := by
  obtain ⟨h1, h2, h3⟩ := importedDepFiles_spec h
  refine ⟨h1, fun d hd fs hfs f hf => h2 d hd f (by rw [hfs]; exact hf), fun f hf => ?_⟩
  rcases h3 f hf with h' | ⟨d, hd, hf'⟩
  · exact Or.inl h'
  · cases hg : files.get? d with
    | none => rw [hg] at hf'; cases hf'
    | some fs => rw [hg] at hf'; exact Or.inr ⟨d, hd, fs, hg, hf'⟩

example : importedDepFiles [("d", ["t1", "t2"]), ("g", ["t2", "o"])] ["g", "d"] [] = .ok ["t2", "o", "t1"] := by
  decide

/-- a dep without an entry ("plain") is skipped -/
example : importedDepFiles [("d", ["t1", "t2"]), ("g", ["t2", "o"])] ["g", "plain", "d"] ["a"] =
    .ok ["a", "t2", "o", "t1"] := by
  decide

/-- the optional version used by `moduleStmts` -/
theorem importedOf_mem {files : FileTable} {deps : Option (List Name)} {imported : Option (List String)}
    (h : importedOf files deps = .ok imported) (f : String) :
    f ∈ imported.getD [] ↔ ∃ d ∈ deps.getD [], f ∈ (files.get? d).getD [] := by
  unfold importedOf at h
  split at h
  · cases h; simp
  · rename_i l
    cases hi : importedDepFiles files l [] with
    | error e => rw [hi] at h; cases h
    | ok out =>
      rw [hi] at h
      cases h
      simp only [Option.getD_some]
      rw [importedDepFiles_mem hi]
      simp

theorem importedOf_isSome {files : FileTable} {deps : Option (List Name)} {imported : Option (List String)}
    (h : importedOf files deps = .ok imported) : imported.isSome = deps.isSome := by
  unfold importedOf at h
  split at h
  · cases h; rfl
  · rename_i l
    cases hi : importedDepFiles files l [] with
    | error e => rw [hi] at h; cases h
    | ok out => rw [hi] at h; cases h; rfl

theorem mem_combinedDeps (imported localDeps : Option (List String)) (f : String) :
    f ∈ (combinedDeps imported localDeps).getD [] ↔ f ∈ imported.getD [] ∨ f ∈ localDeps.getD [] := by
  unfold combinedDeps
  split
  · rename_i h
    rw [List.isEmpty_iff] at h
    have h' := List.append_eq_nil_iff.1 h
    simp [h'.1, h'.2]
  · simp

/-- an empty list of build-dep files is no list: `none` exactly when there is nothing to wait for -/
theorem combinedDeps_isSome (imported localDeps : Option (List String)) :
    (combinedDeps imported localDeps).isSome = !(imported.getD [] ++ localDeps.getD []).isEmpty := by
  unfold combinedDeps
  split <;> rename_i h <;> simp [h]

/-- the order-only dependencies of a statement made by `buildFromRule` are exactly the given files -/
theorem buildFromRule_deps (nr : NinjaRule) (inputs : Option (List String)) (outs : List String)
    (c : Option (List String)) : (buildFromRule nr inputs outs c).deps = c.map pathSort := rfl

theorem buildFromRule_deps_some (nr : NinjaRule) (srcpath obj : String) (c : List String) :
    (buildFromRule nr (some [srcpath]) [obj] (some c)).deps = some (pathSort c) := rfl

theorem mem_buildFromRule_deps (nr : NinjaRule) (inputs : Option (List String)) (outs : List String)
    (c : Option (List String)) (f : String) :
    f ∈ (buildFromRule nr inputs outs c).deps.getD [] ↔ f ∈ c.getD [] := by
  rw [buildFromRule_deps]
  cases c with
  | none => simp
  | some l => simp [mem_pathSort]

/-! ### entries are only ever added -/

theorem mem_addEntries (es l : List String) (e : String) : e ∈ addEntries es l ↔ e ∈ es ∨ e ∈ l := by
  unfold addEntries
  have : addEntry = fun (acc : List String) x => if acc.contains x then acc else acc ++ [x] := rfl
  rw [this]
  exact mem_dedup_aux e l es

theorem mem_addEntry (es : List String) (x e : String) : e ∈ addEntry es x ↔ e ∈ es ∨ e = x := by
  have := mem_addEntries es [x] e
  simpa [addEntries] using this

theorem moduleRulesLoop_entries {ev rules flat} {ss : List String} {entries : List String}
    {mrules : List (String × NinjaRule)} {em : List String × List (String × NinjaRule)}
    (h : moduleRulesLoop ev rules flat ss entries mrules = .ok em) : entries ⊆ em.1 := by
  induction ss generalizing entries mrules with
  | nil => unfold moduleRulesLoop at h; cases h; exact fun _ h => h
  | cons s ss ih =>
    unfold moduleRulesLoop at h
    split at h
    · cases h
    · exact fun e he => ih h ((mem_addEntry _ _ _).2 (Or.inl he))

/-- the shape of what one source contributes -/
theorem compileSource_shape {ev st builder appName rules mrules flat srcdir combined localDeps srcTagfile s}
    {os : String × List String}
    (h : compileSource ev st builder appName rules mrules flat srcdir combined localDeps srcTagfile s = .ok os) :
    ∃ nr srcpath, expandSrcPath ev flat srcdir s = .ok srcpath ∧
      os.2 = (buildFromRule nr (some [srcpath]) [os.1] combined).render ::
               sourceDepStmts localDeps srcTagfile srcpath := by
  unfold compileSource at h
  split at h
  · cases h
  · rename_i srcpath hsp
    unfold compileStmts at h
    split at h
    · cases h
    · split at h
      · cases h
      · split at h
        · cases h
        · rename_i rn _ _ _ _
          cases h
          exact ⟨rn.2, srcpath, hsp, rfl⟩

theorem compileSourcesLoop_spec {ev st builder appName rules mrules flat srcdir combined localDeps srcTagfile}
    {ss entries objects : List String} {eo : List String × List String}
    (h : compileSourcesLoop ev st builder appName rules mrules flat srcdir combined localDeps srcTagfile
           ss entries objects = .ok eo) :
    entries ⊆ eo.1 ∧ objects ⊆ eo.2 ∧
      ∀ s ∈ ss, ∃ os, compileSource ev st builder appName rules mrules flat srcdir combined localDeps
                        srcTagfile s = .ok os ∧ os.2 ⊆ eo.1 ∧ os.1 ∈ eo.2 := by
  induction ss generalizing entries objects with
  | nil =>
    unfold compileSourcesLoop at h; cases h
    exact ⟨fun _ h => h, fun _ h => h, fun s hs => by cases hs⟩
  | cons s ss ih =>
    unfold compileSourcesLoop at h
    split at h
    · cases h
    · rename_i os hos
      obtain ⟨h1, h2, h3⟩ := ih h
      refine ⟨fun e he => h1 ((mem_addEntries _ _ _).2 (Or.inl he)),
              fun o ho => h2 (List.mem_append_left _ ho), ?_⟩
      intro s' hs'
      cases hs' with
      | head =>
        exact ⟨os, hos, fun e he => h1 ((mem_addEntries _ _ _).2 (Or.inr he)),
               h2 (List.mem_append_right _ List.mem_cons_self)⟩
      | tail _ hs' => exact h3 s' hs'

/-- a module without `build:`: statements are only added, the file table is untouched, and every
    source gets its statements -/
theorem defaultBuildStep_spec {ev st builder appName rules flat srcdir sources combined localDeps srcTagfile}
    {ls ls' : LoopState}
    (h : defaultBuildStep ev st builder appName rules flat srcdir sources combined localDeps srcTagfile ls
           = .ok ls') :
    ls.entries ⊆ ls'.entries ∧ ls.objects ⊆ ls'.objects ∧ ls'.files = ls.files ∧
      ls'.downloadDirs = ls.downloadDirs ∧
      ∃ mrules, ∀ s ∈ sources, ∃ os, compileSource ev st builder appName rules mrules flat srcdir combined
                        localDeps srcTagfile s = .ok os ∧ os.2 ⊆ ls'.entries ∧ os.1 ∈ ls'.objects := by
  unfold defaultBuildStep at h
  split at h
  · cases h
  · rename_i em hem
    split at h
    · cases h
    · rename_i eo heo
      cases h
      obtain ⟨h1, h2, h3⟩ := compileSourcesLoop_spec heo
      exact ⟨fun e he => h1 (moduleRulesLoop_entries hem he), h2, rfl, rfl, em.2, h3⟩

theorem downloadStep_files {ev m srcdir rules flat} {ls : LoopState} {lt : LoopState × Option String}
    (h : downloadStep ev m srcdir rules flat ls = .ok lt) :
    lt.1.files = ls.files ∧ lt.1.objects = ls.objects ∧ ls.entries ⊆ lt.1.entries := by
  unfold downloadStep at h
  split at h
  · split at h
    · cases h
    · cases h
      exact ⟨rfl, rfl, fun e he => (mem_addEntries _ _ _).2 (Or.inl he)⟩
  · split at h
    · cases h
    · cases h; exact ⟨rfl, rfl, fun _ h => h⟩

/-- `moduleStmts` is its three steps in sequence -/
theorem moduleStmts_steps {ev st builder app r rules globals m bdeps srcdir flat} {ls ls' : LoopState}
    (h : moduleStmts ev st builder app r rules globals m bdeps srcdir flat ls = .ok ls') :
    ∃ lt imported, downloadStep ev m srcdir rules flat ls = .ok lt ∧
      importedOf lt.1.files (effBuildDeps globals m bdeps) = .ok imported ∧
      buildStep ev st builder app.name rules flat m srcdir (effSources r m)
        (combinedDeps imported m.buildDepFiles) lt.2 (registerLocalDeps m lt.1) = .ok ls' := by
  unfold moduleStmts at h
  split at h
  · cases h
  · rename_i lt hlt
    split at h
    · cases h
    · rename_i imported himp
      exact ⟨lt, imported, hlt, himp, h⟩

/-- **C19.3c** the `combined` list handed to `buildStep`: exactly the files registered (when the module
    is reached) for the module's effective build deps, and the module's own `buildDepFiles` -/
theorem moduleStmts_combined {ev st builder app r rules globals m bdeps srcdir flat} {ls ls' : LoopState}
    (h : moduleStmts ev st builder app r rules globals m bdeps srcdir flat ls = .ok ls') :
    ∃ lt combined,
      buildStep ev st builder app.name rules flat m srcdir (effSources r m) combined lt.2
        (registerLocalDeps m lt.1) = .ok ls' ∧
      downloadStep ev m srcdir rules flat ls = .ok lt ∧
      (combined.isSome = !(combined.getD []).isEmpty) ∧
      ∀ f, f ∈ combined.getD [] ↔
        (∃ d ∈ (effBuildDeps globals m bdeps).getD [], f ∈ (ls.files.get? d).getD []) ∨
          f ∈ m.buildDepFiles.getD [] := by
  obtain ⟨lt, imported, hlt, himp, hbs⟩ := moduleStmts_steps h
  refine ⟨lt, combinedDeps imported m.buildDepFiles, hbs, hlt, ?_, ?_⟩
  · unfold combinedDeps
    split <;> rename_i hc <;> simp [hc]
  · intro f
    rw [mem_combinedDeps, importedOf_mem himp, (downloadStep_files hlt).1]

/-- **C19.3d** every compile statement of a module (without a `build:` section) lists, as order-only
    dependencies, exactly the files registered for its effective build deps and its own build-dep
    files.  The statement is in the entries, its object among the objects. -/
theorem moduleStmts_compile_deps {ev st builder app r rules globals m bdeps srcdir flat} {ls ls' : LoopState}
    (h : moduleStmts ev st builder app r rules globals m bdeps srcdir flat ls = .ok ls')
    (hb : m.build = none) :
    ∀ s ∈ effSources r m, ∃ nr srcpath obj combined,
      expandSrcPath ev flat srcdir s = .ok srcpath ∧
      (buildFromRule nr (some [srcpath]) [obj] combined).render ∈ ls'.entries ∧
      obj ∈ ls'.objects ∧
      ∀ f, f ∈ (buildFromRule nr (some [srcpath]) [obj] combined).deps.getD [] ↔
        (∃ d ∈ (effBuildDeps globals m bdeps).getD [], f ∈ (ls.files.get? d).getD []) ∨
          f ∈ m.buildDepFiles.getD [] := by
  obtain ⟨lt, combined, hbs, _, _, hmem⟩ := moduleStmts_combined h
  unfold buildStep at hbs
  rw [hb] at hbs
  dsimp only at hbs
  obtain ⟨_, _, _, _, mrules, hsrc⟩ := defaultBuildStep_spec hbs
  intro s hs
  obtain ⟨os, hos, hsub, hobj⟩ := hsrc s hs
  obtain ⟨nr, srcpath, hsp, hshape⟩ := compileSource_shape hos
  refine ⟨nr, srcpath, os.1, combined, hsp, hsub (by rw [hshape]; exact List.mem_cons_self), hobj, ?_⟩
  intro f
  rw [mem_buildFromRule_deps, hmem]

/-! ## 4. what a module registers in the file table -/

/-- updating the entries of key `n` commutes with looking a key up -/
theorem find?_map_keyed {β} (t : List (String × β)) (n x : String) (g : String × β → β) :
    (t.map (fun e => if e.1 == n then (n, g e) else e)).find? (·.1 == x) =
      (t.find? (·.1 == x)).map (fun e => if e.1 == n then (n, g e) else e) := by
  induction t with
  | nil => rfl
  | cons e t ih =>
    have hfe : ((if e.1 == n then (n, g e) else e) : String × β).1 = e.1 := by
      split
      · rename_i h; exact (by simpa using h : e.1 = n).symm
      · rfl
    simp only [List.map_cons, List.find?_cons, hfe]
    cases (e.1 == x) with
    | true => rfl
    | false => exact ih

theorem FileTable.mem_extend_self (t : FileTable) (n : Name) (l : List String) (f : String) :
    f ∈ (t.extend n l).getD n ↔ f ∈ t.getD n ∨ f ∈ l := by
  unfold FileTable.getD FileTable.get? FileTable.extend
  split
  · rename_i hany
    rw [find?_map_keyed t n n (fun e => dedup (e.2 ++ l))]
    cases hf : t.find? (·.1 == n) with
    | none =>
      rw [List.find?_eq_none] at hf
      rw [List.any_eq_true] at hany
      obtain ⟨e, he, hen⟩ := hany
      exact absurd hen (hf e he)
    | some e =>
      have : e.1 = n := by simpa using List.find?_some hf
      simp [this, mem_dedup]
  · rename_i hany
    have hnone : t.find? (·.1 == n) = none := by
      rw [List.find?_eq_none]
      intro e he hen
      exact hany (List.any_eq_true.2 ⟨e, he, hen⟩)
    rw [List.find?_append, hnone]
    simp [mem_dedup]

theorem FileTable.extend_get_other (t : FileTable) (n x : Name) (l : List String) (h : x ≠ n) :
    (t.extend n l).get? x = t.get? x := by
  unfold FileTable.get? FileTable.extend
  split
  · rw [find?_map_keyed t n x (fun e => dedup (e.2 ++ l))]
    cases hf : t.find? (·.1 == x) with
    | none => rfl
    | some e =>
      have h1 : e.1 = x := by simpa using List.find?_some hf
      have : e.1 ≠ n := by rw [h1]; exact h
      simp [this]
  · rw [List.find?_append]
    have : (n == x) = false := by simpa using (Ne.symm h)
    simp [this]

/-- the file table only grows -/
def FilesLe (t t' : FileTable) : Prop := ∀ n f, f ∈ t.getD n → f ∈ t'.getD n

theorem FilesLe.refl (t : FileTable) : FilesLe t t := fun _ _ h => h
theorem FilesLe.trans {a b c : FileTable} (h1 : FilesLe a b) (h2 : FilesLe b c) : FilesLe a c :=
  fun n f h => h2 n f (h1 n f h)

theorem FilesLe.extend (t : FileTable) (n : Name) (l : List String) : FilesLe t (t.extend n l) := by
  intro x f hf
  by_cases hx : x = n
  · subst hx; exact (FileTable.mem_extend_self t x l f).2 (Or.inl hf)
  · unfold FileTable.getD at hf ⊢
    rw [FileTable.extend_get_other t n x l hx]; exact hf

theorem registerLocalDeps_le (m : Module) (ls : LoopState) : FilesLe ls.files (registerLocalDeps m ls).files := by
  unfold registerLocalDeps
  split
  · exact FilesLe.extend _ _ _
  · exact FilesLe.refl _

theorem registerLocalDeps_entries (m : Module) (ls : LoopState) :
    (registerLocalDeps m ls).entries = ls.entries := by
  unfold registerLocalDeps; split <;> rfl

theorem registerLocalDeps_mem (m : Module) (ls : LoopState) (l : List String) (h : m.buildDepFiles = some l) :
    l ⊆ (registerLocalDeps m ls).files.getD m.name := by
  unfold registerLocalDeps
  rw [h]
  exact fun f hf => (FileTable.mem_extend_self _ _ _ f).2 (Or.inr hf)

/-- the parts of a successful custom build -/
theorem customBuildStep_spec {ev flat m srcdir sources combined cb} {ls ls' : LoopState}
    (h : customBuildStep ev flat m srcdir sources combined cb ls = .ok ls') :
    ∃ cmd0 cmd srcs outs,
      unwrapX "generate.rs:custom build cmd" (expandEvalS ev flat .empty (" && ".intercalate (cb.cmd.map trimLineEnd))) = .ok cmd0 ∧
      customCmd cb cmd0 = .ok cmd ∧
      sources.mapM (customSource ev flat srcdir) = .ok srcs ∧
      (cb.out.getD []).mapM (customOut ev flat) = .ok outs ∧
      ls' = { ls with files := ls.files.extend m.name [outsAlias outs],
                      entries := addEntries ls.entries (customStmts cb cmd srcs outs combined) } := by
  unfold customBuildStep at h
  split at h
  · cases h
  unfold customBuildStepCore at h
  simp only [bind, Except.bind, pure, Except.pure] at h
  split at h
  · cases h
  · split at h
    · cases h
    · split at h
      · cases h
      · split at h
        · cases h
        · rename_i _ cmd0 hcmd0 _ cmd hcmd _ srcs hsrcs _ outs houts
          cases h
          exact ⟨cmd0, cmd, srcs, outs, hcmd0, hcmd, hsrcs, houts, rfl⟩

/-- **C19.4b** a custom-build module registers the alias of its outputs under its name, emits the
    alias statement (`build outs_<hash>: phony <outs>`), and its build statement lists `combined` as
    order-only dependencies -/
theorem customBuildStep_registers {ev flat m srcdir sources combined cb} {ls ls' : LoopState}
    (h : customBuildStep ev flat m srcdir sources combined cb ls = .ok ls') :
    ∃ cmd srcs outs, (cb.out.getD []).mapM (customOut ev flat) = .ok outs ∧
      outsAlias outs ∈ ls'.files.getD m.name ∧ FilesLe ls.files ls'.files ∧
      ninjaAliasMultiple outs (outsAlias outs) ∈ ls'.entries ∧
      (buildFromRule (customRule cb cmd) (some srcs) (pathSort outs) combined).render ∈ ls'.entries ∧
      ls.entries ⊆ ls'.entries := by
  obtain ⟨_, cmd, srcs, outs, _, _, _, houts, rfl⟩ := customBuildStep_spec h
  refine ⟨cmd, srcs, outs, houts, ?_, FilesLe.extend _ _ _, ?_, ?_, ?_⟩
  · exact (FileTable.mem_extend_self _ _ _ _).2 (Or.inr List.mem_cons_self)
  · exact (mem_addEntries _ _ _).2 (Or.inr (by simp [customStmts]))
  · exact (mem_addEntries _ _ _).2 (Or.inr (by simp [customStmts]))
  · exact fun e he => (mem_addEntries _ _ _).2 (Or.inl he)

theorem buildStep_le {ev st builder appName rules flat m srcdir sources combined srcTagfile} {ls ls' : LoopState}
    (h : buildStep ev st builder appName rules flat m srcdir sources combined srcTagfile ls = .ok ls') :
    FilesLe ls.files ls'.files ∧ ls.entries ⊆ ls'.entries := by
  unfold buildStep at h
  split at h
  · obtain ⟨_, _, _, _, _, hle, _, _, hsub⟩ := customBuildStep_registers h
    exact ⟨hle, hsub⟩
  · obtain ⟨h1, _, h3, _⟩ := defaultBuildStep_spec h
    rw [h3]; exact ⟨FilesLe.refl _, h1⟩

/-- the file table and the entries only grow in `moduleStmts` -/
theorem moduleStmts_le {ev st builder app r rules globals m bdeps srcdir flat} {ls ls' : LoopState}
    (h : moduleStmts ev st builder app r rules globals m bdeps srcdir flat ls = .ok ls') :
    FilesLe ls.files ls'.files ∧ ls.entries ⊆ ls'.entries := by
  obtain ⟨lt, imported, hlt, _, hbs⟩ := moduleStmts_steps h
  obtain ⟨hf, _, he⟩ := downloadStep_files hlt
  obtain ⟨h1, h2⟩ := buildStep_le hbs
  refine ⟨FilesLe.trans ?_ h1, fun e h => h2 (by rw [registerLocalDeps_entries]; exact he h)⟩
  rw [← hf]; exact registerLocalDeps_le m lt.1

/-- **C19.4a** after `moduleStmts`, the module's own `buildDepFiles` are registered under its name -/
theorem moduleStmts_registers_local {ev st builder app r rules globals m bdeps srcdir flat} {ls ls' : LoopState}
    (h : moduleStmts ev st builder app r rules globals m bdeps srcdir flat ls = .ok ls')
    {l : List String} (hl : m.buildDepFiles = some l) : l ⊆ ls'.files.getD m.name := by
  obtain ⟨lt, imported, _, _, hbs⟩ := moduleStmts_steps h
  exact fun f hf => (buildStep_le hbs).1 _ _ (registerLocalDeps_mem m lt.1 l hl hf)

/-- **C19.4b'** after `moduleStmts` of a custom-build module, the alias of its (expanded) outputs is
    registered under its name -/
theorem moduleStmts_registers_outs {ev st builder app r rules globals m bdeps srcdir flat} {ls ls' : LoopState}
    (h : moduleStmts ev st builder app r rules globals m bdeps srcdir flat ls = .ok ls')
    {cb : CustomBuild} (hb : m.build = some cb) :
    ∃ outs, (cb.out.getD []).mapM (customOut ev flat) = .ok outs ∧
      outsAlias outs ∈ ls'.files.getD m.name ∧ ninjaAliasMultiple outs (outsAlias outs) ∈ ls'.entries := by
  obtain ⟨lt, imported, _, _, hbs⟩ := moduleStmts_steps h
  unfold buildStep at hbs
  rw [hb] at hbs
  dsimp only at hbs
  obtain ⟨_, _, outs, houts, hmem, _, halias, _⟩ := customBuildStep_registers hbs
  exact ⟨outs, houts, hmem, halias⟩

/-- **C19.3d'** the build statement of a custom-build module lists the same order-only dependencies -/
theorem moduleStmts_custom_deps {ev st builder app r rules globals m bdeps srcdir flat} {ls ls' : LoopState}
    (h : moduleStmts ev st builder app r rules globals m bdeps srcdir flat ls = .ok ls')
    {cb : CustomBuild} (hb : m.build = some cb) :
    ∃ nr srcs outs combined,
      (buildFromRule nr (some srcs) outs combined).render ∈ ls'.entries ∧
      ∀ f, f ∈ (buildFromRule nr (some srcs) outs combined).deps.getD [] ↔
        (∃ d ∈ (effBuildDeps globals m bdeps).getD [], f ∈ (ls.files.get? d).getD []) ∨
          f ∈ m.buildDepFiles.getD [] := by
  obtain ⟨lt, combined, hbs, _, _, hmem⟩ := moduleStmts_combined h
  unfold buildStep at hbs
  rw [hb] at hbs
  dsimp only at hbs
  obtain ⟨cmd, srcs, outs, _, _, _, _, hstmt, _⟩ := customBuildStep_registers hbs
  refine ⟨customRule cb cmd, srcs, pathSort outs, combined, hstmt, ?_⟩
  intro f
  rw [mem_buildFromRule_deps, hmem]

/-! ### sources inside a download directory -/

/-- **C19.4c** a downloading module registers its source directory with its tag file -/
theorem downloadStep_registers {ev m srcdir rules flat} {ls : LoopState} {lt : LoopState × Option String}
    {d : Download} (hd : m.download = some d)
    (h : downloadStep ev m srcdir rules flat ls = .ok lt) :
    lt.1.downloadDirs = insertKeyed ls.downloadDirs srcdir (d.tagfile srcdir) ∧ lt.2 = none ∧
      ∃ es, downloadEntries ev m d rules flat = .ok es ∧ ∀ e ∈ es, e ∈ lt.1.entries := by
  unfold downloadStep at h
  rw [hd] at h
  dsimp only at h
  split at h
  · cases h
  · rename_i es hes
    cases h
    exact ⟨rfl, rfl, es, hes, fun e he => (mem_addEntries _ _ _).2 (Or.inr he)⟩

/-- any other module looks its (expanded) source directory up among the download directories -/
theorem downloadStep_lookup {ev m srcdir rules flat} {ls : LoopState} {lt : LoopState × Option String}
    (hd : m.download = none) (h : downloadStep ev m srcdir rules flat ls = .ok lt) :
    lt.1 = ls ∧ ∃ sd, unwrapX "generate.rs:srcdir" (expandEvalS ev flat .ignore srcdir) = .ok sd ∧
      lt.2 = containingPath ls.downloadDirs sd := by
  unfold downloadStep at h
  rw [hd] at h
  dsimp only at h
  split at h
  · cases h
  · rename_i sd hsd
    cases h
    exact ⟨rfl, sd, hsd, rfl⟩

/-- **C19.4d** a source of a module without own build-dep files whose source directory lies inside a
    download directory is declared as produced by the download step: `build <src>: phony <tagfile>` -/
theorem compileSource_tag_alias {ev st builder appName rules mrules flat srcdir combined s tag}
    {os : String × List String}
    (h : compileSource ev st builder appName rules mrules flat srcdir combined none (some tag) s = .ok os) :
    ∃ srcpath, expandSrcPath ev flat srcdir s = .ok srcpath ∧ ninjaAlias tag srcpath ∈ os.2 := by
  obtain ⟨nr, srcpath, hsp, hshape⟩ := compileSource_shape h
  refine ⟨srcpath, hsp, ?_⟩
  rw [hshape]
  simp [sourceDepStmts]

/-- with own build-dep files, the source is instead made to depend on those (which, for a downloading
    module, contain the tag file) -/
theorem compileSource_local_phony {ev st builder appName rules mrules flat srcdir combined srcTagfile s l}
    {os : String × List String}
    (h : compileSource ev st builder appName rules mrules flat srcdir combined (some l) srcTagfile s = .ok os) :
    ∃ srcpath, expandSrcPath ev flat srcdir s = .ok srcpath ∧
      ({ rule := "phony", outs := [srcpath], deps := some (pathSort l) } : NinjaBuild).render ∈ os.2 := by
  obtain ⟨nr, srcpath, hsp, hshape⟩ := compileSource_shape h
  refine ⟨srcpath, hsp, ?_⟩
  rw [hshape]
  simp [sourceDepStmts]

/-- end to end for one module: every source of a non-downloading default-build module without own
    build-dep files whose source directory is inside a registered download directory gets the alias -/
theorem moduleStmts_tag_alias {ev st builder app r rules globals m bdeps srcdir flat} {ls ls' : LoopState}
    (h : moduleStmts ev st builder app r rules globals m bdeps srcdir flat ls = .ok ls')
    (hb : m.build = none) (hd : m.download = none) (hl : m.buildDepFiles = none)
    {sd tag : String} (hsd : unwrapX "generate.rs:srcdir" (expandEvalS ev flat .ignore srcdir) = .ok sd)
    (htag : containingPath ls.downloadDirs sd = some tag) :
    ∀ s ∈ effSources r m, ∃ srcpath, expandSrcPath ev flat srcdir s = .ok srcpath ∧
      ninjaAlias tag srcpath ∈ ls'.entries := by
  obtain ⟨lt, imported, hlt, _, hbs⟩ := moduleStmts_steps h
  obtain ⟨_, sd', hsd', hlt2⟩ := downloadStep_lookup hd hlt
  rw [hsd] at hsd'
  cases hsd'
  rw [htag] at hlt2
  unfold buildStep at hbs
  rw [hb, hl, hlt2] at hbs
  dsimp only at hbs
  obtain ⟨_, _, _, _, mrules, hsrc⟩ := defaultBuildStep_spec hbs
  intro s hs
  obtain ⟨os, hos, hsub, _⟩ := hsrc s hs
  obtain ⟨srcpath, hsp, hmem⟩ := compileSource_tag_alias hos
  exact ⟨srcpath, hsp, hsub hmem⟩

/-! ## 6. a build-dependency cycle drops the build -/

/-- **C19.6** no build order ⇒ the build is dropped (not an error, not a build) -/
theorem dep_cycle_drops {ev st b builder app r rules opts gflat outfile} {menvs : List ModEnv}
    (h : buildOrder (menvs.map ModEnv.deps) = none) :
    configureOrdered ev st b builder app r rules opts gflat outfile menvs = .ok (.noBuild .depCycle) := by
  unfold configureOrdered
  rw [h]

/-- and conversely `depCycle` is only reported when there is no build order -/
theorem depCycle_only_if {ev st b builder app r rules opts gflat outfile} {menvs : List ModEnv}
    (h : configureOrdered ev st b builder app r rules opts gflat outfile menvs = .ok (.noBuild .depCycle)) :
    buildOrder (menvs.map ModEnv.deps) = none := by
  unfold configureOrdered at h
  split at h
  · assumption
  · split at h
    · cases h
    · split at h <;> cases h

/-- a 2-cycle among build dependencies: no build order -/
example :
    buildOrder [({ name := "a", contextName := "c" }, some ["b"]),
                ({ name := "b", contextName := "c" }, some ["a"])] = none := by decide

/-- without the cycle there is one, dependencies first -/
example :
    buildOrder [({ name := "a", contextName := "c" }, some ["b"]),
                ({ name := "b", contextName := "c" }, none)] = some ["b", "a"] := by decide

/-! ## 7. global build deps at the link -/

/-- the parts of a successful link step -/
theorem linkStep_spec {ev rules gflat globals outfile} {ls : LoopState} {entries : List String}
    (h : linkStep ev rules gflat globals outfile ls = .ok entries) :
    ∃ linkRule,
      entries = addEntries ls.entries
        [linkRule.render,
         (buildFromRule linkRule (some ls.objects) [outfile] (globalDepFiles globals ls.files)).render] ∧
      (buildFromRule linkRule (some ls.objects) [outfile] (globalDepFiles globals ls.files)).deps
        = (globalDepFiles globals ls.files).map pathSort := by
  unfold linkStep at h
  split at h
  · cases h
  · split at h
    · cases h
    · rename_i linkRule _
      cases h
      exact ⟨linkRule, rfl, rfl⟩

theorem mem_globalDepFiles (globals : List Name) (files : FileTable) (f : String) :
    f ∈ (globalDepFiles globals files).getD [] ↔ ∃ g ∈ globals, f ∈ files.getD g := by
  unfold globalDepFiles nonEmpty?
  split
  · rename_i he
    have he' : dedup (List.flatMap files.getD globals) = [] := by simpa using he
    constructor
    · intro h; simp at h
    · rintro ⟨g, hg, hf⟩
      have : f ∈ dedup (List.flatMap files.getD globals) := by
        rw [mem_dedup, List.mem_flatMap]; exact ⟨g, hg, hf⟩
      rw [he'] at this; cases this
  · simp only [Option.getD_some, mem_dedup, List.mem_flatMap]

/-- **C19.7** the link statement is emitted and lists, as order-only dependencies, exactly the files
    registered for the global build deps -/
theorem linkStep_global_deps {ev rules gflat globals outfile} {ls : LoopState} {entries : List String}
    (h : linkStep ev rules gflat globals outfile ls = .ok entries) :
    ∃ linkRule deps,
      (buildFromRule linkRule (some ls.objects) [outfile] deps).render ∈ entries ∧
      deps = globalDepFiles globals ls.files ∧
      ∀ f, f ∈ (buildFromRule linkRule (some ls.objects) [outfile] deps).deps.getD [] ↔
        ∃ g ∈ globals, f ∈ ls.files.getD g := by
  obtain ⟨linkRule, rfl, _⟩ := linkStep_spec h
  refine ⟨linkRule, _, ?_, rfl, ?_⟩
  · exact (mem_addEntries _ _ _).2 (Or.inr (by simp))
  · intro f
    rw [mem_buildFromRule_deps, mem_globalDepFiles]

/-! ## 5. the build order is topological -/

/-- `x → d` is an edge of the graph -/
def Edge (g : DepGraph) (x d : Name) : Prop := d ∈ (g.deps x).getD []

theorem edge_empty (x d : Name) : ¬ Edge {} x d := by
  unfold Edge DepGraph.deps; simp

theorem edge_add (g : DepGraph) (n e x d : Name) :
    Edge (g.add n e) x d ↔ Edge g x d ∨ (x = n ∧ d = e) := by
  unfold Edge DepGraph.deps DepGraph.add
  dsimp only
  split
  · rename_i hany
    rw [find?_map_keyed g.edges n x (fun e' => if e'.2.contains e then e'.2 else e'.2 ++ [e])]
    cases hf : g.edges.find? (·.1 == x) with
    | none =>
      have hx : x ≠ n := by
        rintro rfl
        rw [List.find?_eq_none] at hf
        rw [List.any_eq_true] at hany
        obtain ⟨e', he', hen⟩ := hany
        exact hf e' he' hen
      simp [hx]
    | some e' =>
      have h1 : e'.1 = x := by simpa using List.find?_some hf
      by_cases hx : x = n
      · subst hx
        simp only [Option.map_some, h1, beq_self_eq_true, if_true, Option.getD_some, true_and]
        split
        · rename_i hc
          constructor
          · exact Or.inl
          · rintro (h | rfl)
            · exact h
            · simpa using hc
        · simp
      · have : e'.1 ≠ n := by rw [h1]; exact hx
        simp [this, hx]
  · rename_i hany
    rw [List.find?_append]
    by_cases hx : x = n
    · subst hx
      have hnone : g.edges.find? (·.1 == x) = none := by
        rw [List.find?_eq_none]
        intro e' he' hen
        exact hany (List.any_eq_true.2 ⟨e', he', hen⟩)
      simp [hnone]
    · have : (n == x) = false := by simpa using (Ne.symm hx)
      simp [this, hx]

theorem edge_foldl_add (l : List Name) (g : DepGraph) (n x d : Name) :
    Edge (l.foldl (fun g d => g.add n d) g) x d ↔ Edge g x d ∨ (x = n ∧ d ∈ l) := by
  induction l generalizing g with
  | nil => simp
  | cons a l ih =>
    rw [List.foldl_cons, ih, edge_add]
    constructor
    · rintro ((h | ⟨h1, h2⟩) | ⟨h1, h2⟩)
      · exact Or.inl h
      · exact Or.inr ⟨h1, h2 ▸ List.mem_cons_self⟩
      · exact Or.inr ⟨h1, List.mem_cons_of_mem _ h2⟩
    · rintro (h | ⟨h1, h2⟩)
      · exact Or.inl (Or.inl h)
      · cases h2 with
        | head => exact Or.inl (Or.inr ⟨h1, rfl⟩)
        | tail _ h2 => exact Or.inr ⟨h1, h2⟩

/-- the edges one module contributes -/
def ModEdge (mb : Module × Option (List Name)) (x d : Name) : Prop :=
  (x = mb.1.name ∧ d ∈ mb.2.getD []) ∨ (x = rootNode ∧ d = mb.1.name) ∨
    (mb.1.isGlobalBuildDep = false ∧ x = mb.1.name ∧ d = globalNode)

theorem edge_graphAddModule (g : DepGraph) (mb : Module × Option (List Name)) (x d : Name) :
    Edge (graphAddModule g mb) x d ↔ Edge g x d ∨ ModEdge mb x d := by
  unfold graphAddModule graphAddModuleEdges ModEdge
  split
  · rename_i hg
    have hg' : mb.1.isGlobalBuildDep = false := by simpa using hg
    rw [edge_add, edge_add, edge_foldl_add]
    simp only [hg', true_and]
    constructor
    · rintro (((h | h) | h) | h)
      · exact Or.inl h
      · exact Or.inr (Or.inl h)
      · exact Or.inr (Or.inr (Or.inl h))
      · exact Or.inr (Or.inr (Or.inr h))
    · rintro (h | h | h | h)
      · exact Or.inl (Or.inl (Or.inl h))
      · exact Or.inl (Or.inl (Or.inr h))
      · exact Or.inl (Or.inr h)
      · exact Or.inr h
  · rename_i hg
    have hg' : mb.1.isGlobalBuildDep = true := by simpa using hg
    rw [edge_add, edge_foldl_add]
    simp only [hg', Bool.true_eq_false, false_and, or_false]
    constructor
    · rintro ((h | h) | h)
      · exact Or.inl h
      · exact Or.inr (Or.inl h)
      · exact Or.inr (Or.inr h)
    · rintro (h | h | h)
      · exact Or.inl (Or.inl h)
      · exact Or.inl (Or.inr h)
      · exact Or.inr h

theorem edge_foldl_graphAddModule (mods : List (Module × Option (List Name))) (g : DepGraph) (x d : Name) :
    Edge (mods.foldl graphAddModule g) x d ↔ Edge g x d ∨ ∃ mb ∈ mods, ModEdge mb x d := by
  induction mods generalizing g with
  | nil => simp
  | cons a l ih =>
    rw [List.foldl_cons, ih, edge_graphAddModule]
    constructor
    · rintro ((h | h) | ⟨mb, hmb, h⟩)
      · exact Or.inl h
      · exact Or.inr ⟨a, List.mem_cons_self, h⟩
      · exact Or.inr ⟨mb, List.mem_cons_of_mem _ hmb, h⟩
    · rintro (h | ⟨mb, hmb, h⟩)
      · exact Or.inl (Or.inl h)
      · cases hmb with
        | head => exact Or.inl (Or.inr h)
        | tail _ hmb => exact Or.inr ⟨mb, hmb, h⟩

/-- the edges of the build-order graph: `_global_build_deps →` every global build dep, and for every
    module: `module →` its build deps, `root → module`, `module → _global_build_deps` unless it is a
    global build dep itself -/
theorem edge_buildGraph (mods : List (Module × Option (List Name))) (x d : Name) :
    Edge (buildGraph mods) x d ↔
      (x = globalNode ∧ ∃ mb ∈ mods, mb.1.isGlobalBuildDep = true ∧ d = mb.1.name) ∨
        ∃ mb ∈ mods, ModEdge mb x d := by
  unfold buildGraph
  rw [edge_foldl_graphAddModule]
  have : ∀ (l : List Name) g, l.foldl graphAddGlobal g = l.foldl (fun g d => g.add globalNode d) g :=
    fun _ _ => rfl
  rw [this, edge_foldl_add]
  simp only [edge_empty, false_or, List.mem_map, List.mem_filter]
  constructor
  · rintro (⟨h1, mb, ⟨hmb, hg⟩, rfl⟩ | h)
    · exact Or.inl ⟨h1, mb, hmb, hg, rfl⟩
    · exact Or.inr h
  · rintro (⟨h1, mb, hmb, hg, rfl⟩ | h)
    · exact Or.inl ⟨h1, mb, ⟨hmb, hg⟩, rfl⟩
    · exact Or.inr h

/-! ### the DFS (`solvent`) -/

/-- `get_next_dependency` returns a node all of whose dependencies are satisfied; it is unsatisfied
    itself when the start node is, and it is the start node or the target of an edge -/
theorem nextDependency_spec {g : DepGraph} {sat : List Name} :
    ∀ (fuel : Nat) (path : List Name) (pos n : Name), nextDependency g sat fuel path pos = some n →
      (pos ∉ sat → n ∉ sat) ∧ (∀ d, Edge g n d → d ∈ sat) ∧ (n = pos ∨ ∃ p, Edge g p n) := by
  intro fuel
  induction fuel with
  | zero => intro path pos n h; unfold nextDependency at h; cases h
  | succ fuel ih =>
    intro path pos n h
    unfold nextDependency at h
    split at h
    · cases h
    · split at h
      · rename_i hdeps
        cases h
        refine ⟨id, ?_, Or.inl rfl⟩
        intro d hd
        unfold Edge at hd
        rw [hdeps] at hd
        cases hd
      · rename_i deplist hdeps
        split at h
        · rename_i n' hn'
          obtain ⟨h1, h2, h3⟩ := ih _ _ _ h
          have hn'sat : n' ∉ sat := by simpa using List.find?_some hn'
          have hedge : Edge g pos n' := by
            unfold Edge; rw [hdeps]; exact List.mem_of_find?_eq_some hn'
          refine ⟨fun _ => h1 hn'sat, h2, ?_⟩
          cases h3 with
          | inl h3 => exact Or.inr ⟨pos, h3 ▸ hedge⟩
          | inr h3 => exact Or.inr h3
        · rename_i hnone
          cases h
          refine ⟨id, ?_, Or.inl rfl⟩
          intro d hd
          unfold Edge at hd
          rw [hdeps] at hd
          rw [List.find?_eq_none] at hnone
          simpa using hnone d hd

/-- **C19.5 (key invariant)** the emission order of `dependencies_of(target)`: the already satisfied
    nodes are a prefix, the target is emitted, and every node emitted after the prefix is new, has all
    its dependencies earlier in the list, and is the target or the target of some edge -/
theorem dependenciesOf_inv {g : DepGraph} {target : Name} {size : Nat} :
    ∀ (fuel : Nat) (sat out : List Name), dependenciesOf g target size fuel sat = some out →
      sat <+: out ∧ target ∈ out ∧
      ∀ pre n post, out = pre ++ n :: post → sat.length ≤ pre.length →
        n ∉ pre ∧ (∀ d, Edge g n d → d ∈ pre) ∧ (n = target ∨ ∃ p, Edge g p n) := by
  intro fuel
  induction fuel with
  | zero => intro sat out h; unfold dependenciesOf at h; cases h
  | succ fuel ih =>
    intro sat out h
    unfold dependenciesOf at h
    split at h
    · rename_i hc
      cases h
      refine ⟨List.prefix_refl _, by simpa using hc, ?_⟩
      intro pre n post heq hlen
      have := congrArg List.length heq
      simp only [List.length_append, List.length_cons] at this
      omega
    · rename_i hc
      split at h
      · cases h
      · rename_i n hn
        obtain ⟨hpre, htgt, hinv⟩ := ih _ _ h
        have hts : target ∉ sat := by simpa using hc
        obtain ⟨h1, h2, h3⟩ := nextDependency_spec _ _ _ _ hn
        refine ⟨(List.prefix_append sat [n]).trans hpre, htgt, ?_⟩
        intro pre x post heq hlen
        by_cases hlt : (sat ++ [n]).length ≤ pre.length
        · exact hinv pre x post heq hlt
        · have hlen' : pre.length = sat.length := by
            simp only [List.length_append, List.length_cons, List.length_nil] at hlt; omega
          obtain ⟨t, ht⟩ := hpre
          have heq' : pre ++ x :: post = sat ++ n :: t := by
            rw [← heq, ← ht]; simp
          obtain ⟨hp, hr⟩ := List.append_inj heq' hlen'
          cases hr
          subst hp
          exact ⟨h1 hts, h2, h3⟩

/-- every element has all its dependencies strictly earlier in the list -/
def DepsBefore (g : DepGraph) (l : List Name) : Prop :=
  ∀ pre n post, l = pre ++ n :: post → ∀ d, Edge g n d → d ∈ pre

theorem nodup_of_decomp {l : List Name} (h : ∀ pre n post, l = pre ++ n :: post → n ∉ pre) : l.Nodup := by
  induction l with
  | nil => exact List.nodup_nil
  | cons a l ih =>
    rw [List.nodup_cons]
    constructor
    · intro ha
      obtain ⟨s, t, rfl⟩ := List.append_of_mem ha
      exact h (a :: s) a t rfl List.mem_cons_self
    · apply ih
      intro pre n post heq hn
      exact h (a :: pre) n post (by rw [heq]; rfl) (List.mem_cons_of_mem _ hn)

/-- the complete emission order (from nothing satisfied): duplicate-free, topologically sorted,
    contains the target, and only nodes reachable by an edge (or the target) -/
theorem dependenciesOf_topo {g : DepGraph} {target : Name} {size fuel : Nat} {out : List Name}
    (h : dependenciesOf g target size fuel [] = some out) :
    out.Nodup ∧ DepsBefore g out ∧ target ∈ out ∧ ∀ n ∈ out, n = target ∨ ∃ p, Edge g p n := by
  obtain ⟨_, htgt, hinv⟩ := dependenciesOf_inv _ _ _ h
  refine ⟨nodup_of_decomp fun pre n post heq => (hinv pre n post heq (Nat.zero_le _)).1,
          fun pre n post heq => (hinv pre n post heq (Nat.zero_le _)).2.1, htgt, ?_⟩
  intro n hn
  obtain ⟨s, t, rfl⟩ := List.append_of_mem hn
  exact (hinv s n t rfl (Nat.zero_le _)).2.2

/-- `d` occurs strictly before `x` in `l` -/
def Before (l : List Name) (d x : Name) : Prop := ∃ pre post, l = pre ++ x :: post ∧ d ∈ pre

theorem Before.mem_left {l : List Name} {d x : Name} (h : Before l d x) : d ∈ l := by
  obtain ⟨pre, post, rfl, hd⟩ := h
  exact List.mem_append_left _ hd

theorem Before.mem_right {l : List Name} {d x : Name} (h : Before l d x) : x ∈ l := by
  obtain ⟨pre, post, rfl, _⟩ := h
  simp

theorem before_of_edge {g : DepGraph} {l : List Name} (hl : DepsBefore g l) {x d : Name}
    (hx : x ∈ l) (he : Edge g x d) : Before l d x := by
  obtain ⟨s, t, rfl⟩ := List.append_of_mem hx
  exact ⟨s, t, rfl, hl s x t rfl d he⟩

theorem Before.filter {l : List Name} {d x : Name} (p : Name → Bool) (h : Before l d x)
    (hd : p d = true) (hx : p x = true) : Before (l.filter p) d x := by
  obtain ⟨pre, post, rfl, hm⟩ := h
  refine ⟨pre.filter p, post.filter p, ?_, List.mem_filter.2 ⟨hm, hd⟩⟩
  rw [List.filter_append, List.filter_cons, if_pos hx]

theorem nodup_decomp_unique {b : Name} : ∀ {l p q s t : List Name}, l.Nodup → l = p ++ b :: q →
    l = s ++ b :: t → p = s := by
  intro l p
  induction p generalizing l with
  | nil =>
    intro q s t hnd h1 h2
    cases s with
    | nil => rfl
    | cons x s' =>
      rw [h1] at h2
      simp only [List.nil_append, List.cons_append, List.cons.injEq] at h2
      obtain ⟨rfl, rfl⟩ := h2
      rw [h1] at hnd
      simp at hnd
  | cons y p' ih =>
    intro q s t hnd h1 h2
    cases s with
    | nil =>
      rw [h1] at h2
      simp only [List.nil_append, List.cons_append, List.cons.injEq] at h2
      obtain ⟨rfl, rfl⟩ := h2
      rw [h1] at hnd
      simp at hnd
    | cons x s' =>
      subst h1
      simp only [List.cons_append, List.cons.injEq] at h2
      obtain ⟨rfl, h2⟩ := h2
      rw [List.cons_append, List.nodup_cons] at hnd
      rw [ih hnd.2 rfl h2]

theorem Before.trans {l : List Name} (hnd : l.Nodup) {a b c : Name} (h1 : Before l a b) (h2 : Before l b c) :
    Before l a c := by
  obtain ⟨p1, q1, e1, ha⟩ := h1
  obtain ⟨p2, q2, e2, hb⟩ := h2
  obtain ⟨s, t, rfl⟩ := List.append_of_mem hb
  have e2' : l = s ++ b :: (t ++ c :: q2) := by rw [e2]; simp
  have := nodup_decomp_unique hnd e1 e2'
  subst this
  exact ⟨p1 ++ b :: t, q2, e2, List.mem_append_left _ ha⟩

theorem Before.irrefl {l : List Name} (hnd : l.Nodup) {a : Name} : ¬ Before l a a := by
  rintro ⟨p, q, rfl, ha⟩
  rw [List.nodup_append] at hnd
  exact hnd.2.2 a ha a List.mem_cons_self rfl

/-! ### `buildOrder` -/

/-- unpacking `buildOrder`: the filtered emission order of the DFS from the root -/
theorem buildOrder_eq {mods : List (Module × Option (List Name))} {order : List Name}
    (h : buildOrder mods = some order) :
    ∃ out, dependenciesOf (buildGraph mods) rootNode (mods.length + 3) (mods.length + 3 + 1) [] = some out ∧
      order = out.filter isRealNode := by
  unfold buildOrder at h
  cases hd : dependenciesOf (buildGraph mods) rootNode (mods.length + 3) (mods.length + 3 + 1) [] with
  | none => rw [hd] at h; cases h
  | some out => rw [hd] at h; cases h; exact ⟨out, rfl, rfl⟩

theorem isRealNode_root : isRealNode rootNode = false := by decide
theorem isRealNode_global : isRealNode globalNode = false := by decide

/-- every module is in the raw emission order -/
theorem module_mem_out {mods : List (Module × Option (List Name))} {out : List Name}
    (ho : dependenciesOf (buildGraph mods) rootNode (mods.length + 3) (mods.length + 3 + 1) [] = some out)
    {mb : Module × Option (List Name)} (hmb : mb ∈ mods) : mb.1.name ∈ out := by
  obtain ⟨_, hdb, hroot, _⟩ := dependenciesOf_topo ho
  have he : Edge (buildGraph mods) rootNode mb.1.name :=
    (edge_buildGraph mods _ _).2 (Or.inr ⟨mb, hmb, Or.inr (Or.inl ⟨rfl, rfl⟩)⟩)
  exact (before_of_edge hdb hroot he).mem_left

/-- **C19.5a'** the build order without assumptions on the names: duplicate-free, and it contains
    exactly the (real) module names and build-dep names -/
theorem buildOrder_nodup_mem {mods : List (Module × Option (List Name))} {order : List Name}
    (h : buildOrder mods = some order) :
    order.Nodup ∧ ∀ n, n ∈ order ↔
      isRealNode n = true ∧ (n ∈ mods.map (·.1.name) ∨ ∃ mb ∈ mods, n ∈ mb.2.getD []) := by
  obtain ⟨out, ho, rfl⟩ := buildOrder_eq h
  obtain ⟨hnd, hdb, hroot, hreach⟩ := dependenciesOf_topo ho
  refine ⟨hnd.sublist List.filter_sublist, ?_⟩
  intro n
  rw [List.mem_filter]
  constructor
  · rintro ⟨hn, hreal⟩
    refine ⟨hreal, ?_⟩
    cases hreach n hn with
    | inl h0 => rw [h0, isRealNode_root] at hreal; cases hreal
    | inr h0 =>
      obtain ⟨p, hp⟩ := h0
      rw [edge_buildGraph] at hp
      cases hp with
      | inl hp =>
        obtain ⟨_, mb, hmb, _, rfl⟩ := hp
        exact Or.inl (List.mem_map.2 ⟨mb, hmb, rfl⟩)
      | inr hp =>
        obtain ⟨mb, hmb, hp⟩ := hp
        cases hp with
        | inl hp => exact Or.inr ⟨mb, hmb, hp.2⟩
        | inr hp =>
          cases hp with
          | inl hp => exact Or.inl (List.mem_map.2 ⟨mb, hmb, hp.2.symm⟩)
          | inr hp => rw [hp.2.2, isRealNode_global] at hreal; cases hreal
  · rintro ⟨hreal, hn⟩
    refine ⟨?_, hreal⟩
    cases hn with
    | inl hn =>
      obtain ⟨mb, hmb, rfl⟩ := List.mem_map.1 hn
      exact module_mem_out ho hmb
    | inr hn =>
      obtain ⟨mb, hmb, hd⟩ := hn
      have he : Edge (buildGraph mods) mb.1.name n :=
        (edge_buildGraph mods _ _).2 (Or.inr ⟨mb, hmb, Or.inl ⟨rfl, hd⟩⟩)
      exact (before_of_edge hdb (module_mem_out ho hmb) he).mem_left

/-- **C19.5a** the build order is a permutation of the module names (distinct, none of them the
    root or `_global_build_deps` pseudo node, every build dep a module) -/
theorem buildOrder_perm {mods : List (Module × Option (List Name))} {order : List Name}
    (h : buildOrder mods = some order)
    (hnd : (mods.map (·.1.name)).Nodup)
    (hreal : ∀ mb ∈ mods, isRealNode mb.1.name = true)
    (hclosed : ∀ mb ∈ mods, ∀ d ∈ mb.2.getD [], d ∈ mods.map (·.1.name)) :
    order.Perm (mods.map (·.1.name)) := by
  obtain ⟨hnd', hmem⟩ := buildOrder_nodup_mem h
  rw [List.perm_ext_iff_of_nodup hnd' hnd]
  intro n
  rw [hmem]
  constructor
  · rintro ⟨_, hn | ⟨mb, hmb, hd⟩⟩
    · exact hn
    · exact hclosed mb hmb n hd
  · intro hn
    obtain ⟨mb, hmb, rfl⟩ := List.mem_map.1 hn
    exact ⟨hreal mb hmb, Or.inl hn⟩

/-- **C19.5b** every build dep of a module comes before the module in the build order -/
theorem buildOrder_dep_before {mods : List (Module × Option (List Name))} {order : List Name}
    (h : buildOrder mods = some order) {mb : Module × Option (List Name)} (hmb : mb ∈ mods)
    {d : Name} (hd : d ∈ mb.2.getD []) (hrm : isRealNode mb.1.name = true) (hrd : isRealNode d = true) :
    Before order d mb.1.name := by
  obtain ⟨out, ho, rfl⟩ := buildOrder_eq h
  obtain ⟨_, hdb, _, _⟩ := dependenciesOf_topo ho
  have he : Edge (buildGraph mods) mb.1.name d :=
    (edge_buildGraph mods _ _).2 (Or.inr ⟨mb, hmb, Or.inl ⟨rfl, hd⟩⟩)
  exact (before_of_edge hdb (module_mem_out ho hmb) he).filter _ hrd hrm

/-- **C19.5c** every global build dep comes before every module that is not a global build dep -/
theorem buildOrder_global_before {mods : List (Module × Option (List Name))} {order : List Name}
    (h : buildOrder mods = some order) {gb mb : Module × Option (List Name)}
    (hgb : gb ∈ mods) (hg : gb.1.isGlobalBuildDep = true)
    (hmb : mb ∈ mods) (hm : mb.1.isGlobalBuildDep = false)
    (hrg : isRealNode gb.1.name = true) (hrm : isRealNode mb.1.name = true) :
    Before order gb.1.name mb.1.name := by
  obtain ⟨out, ho, rfl⟩ := buildOrder_eq h
  obtain ⟨hnd, hdb, _, _⟩ := dependenciesOf_topo ho
  have he1 : Edge (buildGraph mods) mb.1.name globalNode :=
    (edge_buildGraph mods _ _).2 (Or.inr ⟨mb, hmb, Or.inr (Or.inr ⟨hm, rfl, rfl⟩)⟩)
  have he2 : Edge (buildGraph mods) globalNode gb.1.name :=
    (edge_buildGraph mods _ _).2 (Or.inl ⟨rfl, gb, hgb, hg, rfl⟩)
  have b1 := before_of_edge hdb (module_mem_out ho hmb) he1
  have b2 := before_of_edge hdb b1.mem_left he2
  exact (b2.trans hnd b1).filter _ hrg hrm

/-! Remarks on the hypotheses (checked on the model):
* `isRealNode`: the pseudo nodes are ordinary strings, so a module that is literally called
  `_global_build_deps` (or has the empty name) collides with them: it gets an edge to itself
  (`m → _global_build_deps`, resp. `root → m`), which is reported as a build-dependency cycle and the
  build is dropped (the Rust code uses the same two strings).  (FINDING C19-F3, corner case.)
* `hclosed`: `buildOrder` on a list whose build deps are not all module names also emits those names;
  moreover the fuel of the model (`mods.length + 4` emissions) is only adequate for closed lists, where
  the graph has at most `mods.length + 2` nodes: on a non-closed list `none` can be fuel exhaustion
  rather than a cycle.  Lists produced by `moduleEnvs` are closed (C19.1: build deps are selected
  modules). -/

example : buildOrder [(({ name := "_global_build_deps", contextName := "c" } : Module), none),
                      (({ name := "a", contextName := "c" } : Module), none)] = none := by decide

example : buildOrder [(({ name := "a", contextName := "c" } : Module), some ["x", "y", "z"])] = none := by decide

/-! ### a cycle among build dependencies gives no build order -/

theorem before_of_transGen {g : DepGraph} {l : List Name} (hnd : l.Nodup) (hl : DepsBefore g l) {x y : Name}
    (hx : x ∈ l) (h : Relation.TransGen (Edge g) x y) : Before l y x := by
  induction h with
  | single he => exact before_of_edge hl hx he
  | tail _ he ih => exact (before_of_edge hl ih.mem_left he).trans hnd ih

/-- `a` has build dep `b` (according to the module list handed to `buildOrder`) -/
def BDep (mods : List (Module × Option (List Name))) (a b : Name) : Prop :=
  ∃ mb ∈ mods, mb.1.name = a ∧ b ∈ mb.2.getD []

theorem transGen_first {α} {r : α → α → Prop} {a b : α} (h : Relation.TransGen r a b) : ∃ c, r a c := by
  induction h with
  | single h => exact ⟨_, h⟩
  | tail _ _ ih => exact ih

/-- **C19.6b** a cycle among build dependencies (of whatever length) ⇒ no build order ⇒ (by
    `dep_cycle_drops`) the build is dropped -/
theorem bdep_cycle_no_order {mods : List (Module × Option (List Name))} {x : Name}
    (h : Relation.TransGen (BDep mods) x x) : buildOrder mods = none := by
  cases hbo : buildOrder mods with
  | none => rfl
  | some order =>
    exfalso
    obtain ⟨out, ho, _⟩ := buildOrder_eq hbo
    obtain ⟨hnd, hdb, _, _⟩ := dependenciesOf_topo ho
    obtain ⟨c, mb, hmb, hname, _⟩ := transGen_first h
    have hx : x ∈ out := hname ▸ module_mem_out ho hmb
    have hmono : ∀ {a b}, Relation.TransGen (BDep mods) a b →
        Relation.TransGen (Edge (buildGraph mods)) a b := by
      intro a b hab
      induction hab with
      | single h1 =>
        obtain ⟨mb, hmb, rfl, hd⟩ := h1
        exact .single ((edge_buildGraph mods _ _).2 (Or.inr ⟨mb, hmb, Or.inl ⟨rfl, hd⟩⟩))
      | tail _ h1 ih =>
        obtain ⟨mb, hmb, rfl, hd⟩ := h1
        exact .tail ih ((edge_buildGraph mods _ _).2 (Or.inr ⟨mb, hmb, Or.inl ⟨rfl, hd⟩⟩))
    exact Before.irrefl hnd (before_of_transGen hnd hdb hx (hmono h))

theorem bdep_cycle_drops {ev st b builder app r rules opts gflat outfile} {menvs : List ModEnv} {x : Name}
    (h : Relation.TransGen (BDep (menvs.map ModEnv.deps)) x x) :
    configureOrdered ev st b builder app r rules opts gflat outfile menvs = .ok (.noBuild .depCycle) :=
  dep_cycle_drops (bdep_cycle_no_order h)

/-! ## 8. end to end through the module loop

Sections 3–5 combined: in the loop over the build order, a module that is processed after one of its
(effective) build deps lists that dep's registered files in every compile statement. -/

theorem moduleStep_spec {ev st builder app r rules opts globals m menv bdeps} {ls : LoopState}
    {lf : LoopState × Option (Name × Flat)} {srcdir : String} (hs : m.srcdir = some srcdir)
    (h : moduleStep ev st builder app r rules opts globals m menv bdeps ls = .ok lf) :
    ∃ flat, moduleFlat opts menv = .ok flat ∧
      moduleStmts ev st builder app r rules globals m bdeps srcdir flat ls = .ok lf.1 := by
  unfold moduleStep at h
  rw [hs] at h
  dsimp only at h
  split at h
  · cases h
  · rename_i flat hflat
    split at h
    · cases h
    · rename_i ls' hls'
      cases h
      exact ⟨flat, hflat, hls'⟩

theorem moduleStep_le {ev st builder app r rules opts globals m menv bdeps} {ls : LoopState}
    {lf : LoopState × Option (Name × Flat)}
    (h : moduleStep ev st builder app r rules opts globals m menv bdeps ls = .ok lf) :
    FilesLe ls.files lf.1.files ∧ ls.entries ⊆ lf.1.entries := by
  cases hs : m.srcdir with
  | none =>
    unfold moduleStep at h
    rw [hs] at h
    cases h
    exact ⟨FilesLe.refl _, fun _ h => h⟩
  | some srcdir =>
    obtain ⟨flat, _, hst⟩ := moduleStep_spec hs h
    exact moduleStmts_le hst

theorem modulesLoop_le {ev st builder app r rules opts globals menvs} {order : List Name} {ls : LoopState}
    {mf : List (Name × Flat)} {res : LoopState × List (Name × Flat)}
    (h : modulesLoop ev st builder app r rules opts globals menvs order ls mf = .ok res) :
    FilesLe ls.files res.1.files ∧ ls.entries ⊆ res.1.entries := by
  induction order generalizing ls mf with
  | nil => unfold modulesLoop at h; cases h; exact ⟨FilesLe.refl _, fun _ h => h⟩
  | cons n ns ih =>
    unfold modulesLoop at h
    split at h
    · cases h
    · split at h
      · cases h
      · rename_i lf hlf
        obtain ⟨h1, h2⟩ := moduleStep_le hlf
        obtain ⟨h3, h4⟩ := ih h
        exact ⟨h1.trans h3, fun e he => h4 (h2 he)⟩

/-- the loop over `pre ++ n :: post` is the loop over `pre`, the step for `n`, the loop over `post` -/
theorem modulesLoop_split {ev st builder app r rules opts globals menvs} {pre post : List Name} {n : Name}
    {ls : LoopState} {mf : List (Name × Flat)} {res : LoopState × List (Name × Flat)}
    (h : modulesLoop ev st builder app r rules opts globals menvs (pre ++ n :: post) ls mf = .ok res) :
    ∃ mid me lf, modulesLoop ev st builder app r rules opts globals menvs pre ls mf = .ok mid ∧
      menvs.find? (·.1.name == n) = some me ∧
      moduleStep ev st builder app r rules opts globals me.1 me.2.1 me.2.2 mid.1 = .ok lf ∧
      modulesLoop ev st builder app r rules opts globals menvs post lf.1 (appendFlat mid.2 lf.2) = .ok res := by
  induction pre generalizing ls mf with
  | nil =>
    rw [List.nil_append] at h
    unfold modulesLoop at h
    split at h
    · cases h
    · rename_i me hme
      split at h
      · cases h
      · rename_i lf hlf
        exact ⟨(ls, mf), me, lf, by unfold modulesLoop; rfl, hme, hlf, h⟩
  | cons x xs ih =>
    rw [List.cons_append] at h
    unfold modulesLoop at h
    split at h
    · cases h
    · rename_i me hme
      split at h
      · cases h
      · rename_i lf hlf
        obtain ⟨mid, me', lf', h1, h2, h3, h4⟩ := ih h
        refine ⟨mid, me', lf', ?_, h2, h3, h4⟩
        unfold modulesLoop
        rw [hme]
        dsimp only
        rw [hlf]
        exact h1

/-- **C19 (end to end, one builder/app)** in the module loop, let `n` be a default-build module and
    `d` one of its effective build deps (an imported `is_build_dep` module, or a global build dep)
    that comes before it in the build order.  Then every source of `n` has a compile statement in the
    final entries which lists, as order-only dependencies,
    * every declared build-dep file of `d` (for a downloading module this includes its tag file), and
    * if `d` has a `build:` section, the alias of its outputs (also emitted as a statement). -/
theorem modulesLoop_compile_lists_dep_files
    {ev st builder app r rules opts globals menvs} {order : List Name} {ls0 : LoopState}
    {mf0 : List (Name × Flat)} {res : LoopState × List (Name × Flat)}
    (hloop : modulesLoop ev st builder app r rules opts globals menvs order ls0 mf0 = .ok res)
    {n d : Name} {me de : ModEnv}
    (hme : menvs.find? (·.1.name == n) = some me) (hde : menvs.find? (·.1.name == d) = some de)
    (hbefore : Before order d n)
    (hdep : d ∈ (effBuildDeps globals me.1 me.2.2).getD [])
    {srcdir dsrcdir : String} (hsrc : me.1.srcdir = some srcdir) (hb : me.1.build = none)
    (hdsrc : de.1.srcdir = some dsrcdir) :
    ∃ flat, moduleFlat opts me.2.1 = .ok flat ∧
      ∀ s ∈ effSources r me.1, ∃ nr srcpath obj combined,
        expandSrcPath ev flat srcdir s = .ok srcpath ∧
        (buildFromRule nr (some [srcpath]) [obj] combined).render ∈ res.1.entries ∧
        (∀ l, de.1.buildDepFiles = some l →
           ∀ f ∈ l, f ∈ (buildFromRule nr (some [srcpath]) [obj] combined).deps.getD []) ∧
        (∀ cb, de.1.build = some cb → ∃ outs,
           outsAlias outs ∈ (buildFromRule nr (some [srcpath]) [obj] combined).deps.getD [] ∧
           ninjaAliasMultiple outs (outsAlias outs) ∈ res.1.entries) := by
  obtain ⟨pre, post, rfl, hdpre⟩ := hbefore
  obtain ⟨mid, me', lf, hpre, hme', hstep, hpost⟩ := modulesLoop_split hloop
  rw [hme] at hme'
  cases hme'
  obtain ⟨flat, hflat, hstmts⟩ := moduleStep_spec hsrc hstep
  -- the build dep was processed in the first part of the loop
  obtain ⟨pre1, post1, rfl⟩ := List.append_of_mem hdpre
  obtain ⟨mid1, de', lfd, _, hde', hdstep, hdpost⟩ := modulesLoop_split hpre
  rw [hde] at hde'
  cases hde'
  obtain ⟨dflat, _, hdstmts⟩ := moduleStep_spec hdsrc hdstep
  have hdname : de.1.name = d := by simpa using List.find?_some hde
  have hle1 : FilesLe lfd.1.files mid.1.files := (modulesLoop_le hdpost).1
  have hent : lf.1.entries ⊆ res.1.entries := (modulesLoop_le hpost).2
  have hent1 : lfd.1.entries ⊆ res.1.entries :=
    fun e he => hent ((moduleStmts_le hstmts).2 ((modulesLoop_le hdpost).2 he))
  refine ⟨flat, hflat, ?_⟩
  intro s hs
  obtain ⟨nr, srcpath, obj, combined, hsp, hmem, _, hdeps⟩ := moduleStmts_compile_deps hstmts hb s hs
  refine ⟨nr, srcpath, obj, combined, hsp, hent hmem, ?_, ?_⟩
  · intro l hl f hf
    rw [hdeps]
    left
    refine ⟨d, hdep, ?_⟩
    have := moduleStmts_registers_local hdstmts hl hf
    rw [hdname] at this
    exact hle1 _ _ this
  · intro cb hcb
    obtain ⟨outs, _, hreg, halias⟩ := moduleStmts_registers_outs hdstmts hcb
    refine ⟨outs, ?_, hent1 halias⟩
    rw [hdeps]
    left
    refine ⟨d, hdep, ?_⟩
    rw [hdname] at hreg
    exact hle1 _ _ hreg

/-- what a module of the build order has registered at the end of the loop -/
theorem modulesLoop_registers
    {ev st builder app r rules opts globals menvs} {order : List Name} {ls0 : LoopState}
    {mf0 : List (Name × Flat)} {res : LoopState × List (Name × Flat)}
    (hloop : modulesLoop ev st builder app r rules opts globals menvs order ls0 mf0 = .ok res)
    {d : Name} {de : ModEnv} (hd : d ∈ order) (hde : menvs.find? (·.1.name == d) = some de)
    {dsrcdir : String} (hdsrc : de.1.srcdir = some dsrcdir) :
    (∀ l, de.1.buildDepFiles = some l → l ⊆ res.1.files.getD d) ∧
    (∀ cb, de.1.build = some cb → ∃ outs, outsAlias outs ∈ res.1.files.getD d ∧
       ninjaAliasMultiple outs (outsAlias outs) ∈ res.1.entries) := by
  obtain ⟨pre, post, rfl⟩ := List.append_of_mem hd
  obtain ⟨mid, de', lfd, _, hde', hdstep, hdpost⟩ := modulesLoop_split hloop
  rw [hde] at hde'
  cases hde'
  obtain ⟨dflat, _, hdstmts⟩ := moduleStep_spec hdsrc hdstep
  have hdname : de.1.name = d := by simpa using List.find?_some hde
  obtain ⟨hle, hent⟩ := modulesLoop_le hdpost
  constructor
  · intro l hl f hf
    have := moduleStmts_registers_local hdstmts hl hf
    rw [hdname] at this
    exact hle _ _ this
  · intro cb hcb
    obtain ⟨outs, _, hreg, halias⟩ := moduleStmts_registers_outs hdstmts hcb
    rw [hdname] at hreg
    exact ⟨outs, hle _ _ hreg, hent halias⟩

/-- **C19.7 (end to end)** the link statement lists the declared build-dep files and the output alias
    of every global build dep that went through the module loop -/
theorem link_lists_global_dep_files
    {ev st builder app r rules opts globals menvs} {order : List Name} {ls0 : LoopState}
    {mf0 : List (Name × Flat)} {res : LoopState × List (Name × Flat)}
    (hloop : modulesLoop ev st builder app r rules opts globals menvs order ls0 mf0 = .ok res)
    {gflat : Flat} {outfile : String} {entries : List String}
    (hlink : linkStep ev rules gflat globals outfile res.1 = .ok entries)
    {d : Name} {de : ModEnv} (hg : d ∈ globals) (hd : d ∈ order)
    (hde : menvs.find? (·.1.name == d) = some de) {dsrcdir : String} (hdsrc : de.1.srcdir = some dsrcdir) :
    ∃ linkRule deps,
      (buildFromRule linkRule (some res.1.objects) [outfile] deps).render ∈ entries ∧
      (∀ l, de.1.buildDepFiles = some l →
         ∀ f ∈ l, f ∈ (buildFromRule linkRule (some res.1.objects) [outfile] deps).deps.getD []) ∧
      (∀ cb, de.1.build = some cb → ∃ outs,
         outsAlias outs ∈ (buildFromRule linkRule (some res.1.objects) [outfile] deps).deps.getD []) := by
  obtain ⟨linkRule, deps, hmem, _, hdeps⟩ := linkStep_global_deps hlink
  obtain ⟨h1, h2⟩ := modulesLoop_registers hloop hd hde hdsrc
  refine ⟨linkRule, deps, hmem, ?_, ?_⟩
  · intro l hl f hf
    rw [hdeps]
    exact ⟨d, hg, h1 l hl hf⟩
  · intro cb hcb
    obtain ⟨outs, hreg, _⟩ := h2 cb hcb
    refine ⟨outs, ?_⟩
    rw [hdeps]
    exact ⟨d, hg, hreg⟩

/-! ### … and through `configureOrdered` -/

theorem postLinkStep_entries {ev rules gflat outfile} {entries : List String} {eo : List String × String}
    (h : postLinkStep ev rules gflat outfile entries = .ok eo) : entries ⊆ eo.1 := by
  unfold postLinkStep at h
  split at h
  · cases h; exact fun _ h => h
  · split at h
    · cases h
    · split at h
      · cases h
      · cases h; exact fun e he => (mem_addEntries _ _ _).2 (Or.inl he)

/-- a successful `configureOrdered` is: a build order, the module loop, the link step, whose entries
    all end up in the result -/
theorem configureOrdered_steps {ev st b builder app r rules opts gflat outfile} {menvs : List ModEnv}
    {i : BuildInfo}
    (h : configureOrdered ev st b builder app r rules opts gflat outfile menvs = .ok (.build i)) :
    ∃ order lm entries1, buildOrder (menvs.map ModEnv.deps) = some order ∧
      modulesLoop ev st builder app r rules opts (globalBuildDeps r) menvs order {} [] = .ok lm ∧
      linkStep ev rules gflat (globalBuildDeps r) outfile lm.1 = .ok entries1 ∧
      entries1 ⊆ i.entries := by
  unfold configureOrdered at h
  split at h
  · cases h
  · rename_i order hbo
    split at h
    · cases h
    · rename_i lm hlm
      split at h
      · cases h
      · rename_i i' hfin
        cases h
        unfold finishBuild at hfin
        split at hfin
        · cases hfin
        · rename_i entries1 hlink
          split at hfin
          · cases hfin
          · rename_i eo hpost
            split at hfin
            · cases hfin
            · cases hfin
              exact ⟨order, lm, entries1, hbo, hlm, hlink, postLinkStep_entries hpost⟩

theorem linkStep_entries {ev rules gflat globals outfile} {ls : LoopState} {entries : List String}
    (h : linkStep ev rules gflat globals outfile ls = .ok entries) : ls.entries ⊆ entries := by
  obtain ⟨_, rfl, _⟩ := linkStep_spec h
  exact fun e he => (mem_addEntries _ _ _).2 (Or.inl he)

/-- **C19 (main theorem, compile statements)** in a configured build, let `n` be a selected
    default-build module (with a source directory) and `d` a selected module (with a source directory)
    that is
    * one of `n`'s build-dep modules (by C19.1: an imported `is_build_dep` module), or
    * a global build dep while `n` is not.
    Then every source of `n` has a compile statement in the build's entries listing every declared
    build-dep file of `d` (a downloaded module's tag file is one) and the alias of `d`'s custom build
    outputs as order-only dependencies. -/
theorem configureOrdered_compile_lists_dep_files
    {ev st b builder app r rules opts gflat outfile} {menvs : List ModEnv} {i : BuildInfo}
    (h : configureOrdered ev st b builder app r rules opts gflat outfile menvs = .ok (.build i))
    {n d : Name} {me de : ModEnv}
    (hme : menvs.find? (·.1.name == n) = some me) (hde : menvs.find? (·.1.name == d) = some de)
    (hrn : isRealNode n = true) (hrd : isRealNode d = true)
    (hdep : d ∈ me.2.2.getD [] ∨
      (de.1.isGlobalBuildDep = true ∧ me.1.isGlobalBuildDep = false ∧ de.1 ∈ r.modules))
    {srcdir dsrcdir : String} (hsrc : me.1.srcdir = some srcdir) (hb : me.1.build = none)
    (hdsrc : de.1.srcdir = some dsrcdir) :
    ∃ flat, moduleFlat opts me.2.1 = .ok flat ∧
      ∀ s ∈ effSources r me.1, ∃ nr srcpath obj combined,
        expandSrcPath ev flat srcdir s = .ok srcpath ∧
        (buildFromRule nr (some [srcpath]) [obj] combined).render ∈ i.entries ∧
        (∀ l, de.1.buildDepFiles = some l →
           ∀ f ∈ l, f ∈ (buildFromRule nr (some [srcpath]) [obj] combined).deps.getD []) ∧
        (∀ cb, de.1.build = some cb → ∃ outs,
           outsAlias outs ∈ (buildFromRule nr (some [srcpath]) [obj] combined).deps.getD [] ∧
           ninjaAliasMultiple outs (outsAlias outs) ∈ i.entries) := by
  obtain ⟨order, lm, entries1, hbo, hlm, hlink, hsub⟩ := configureOrdered_steps h
  have hnname : me.1.name = n := by simpa using List.find?_some hme
  have hdname : de.1.name = d := by simpa using List.find?_some hde
  have hmem_me : ModEnv.deps me ∈ menvs.map ModEnv.deps :=
    List.mem_map.2 ⟨me, List.mem_of_find?_eq_some hme, rfl⟩
  have hmem_de : ModEnv.deps de ∈ menvs.map ModEnv.deps :=
    List.mem_map.2 ⟨de, List.mem_of_find?_eq_some hde, rfl⟩
  have hbefore : Before order d n := by
    cases hdep with
    | inl hdep =>
      have := buildOrder_dep_before hbo hmem_me (d := d) hdep (by rw [← hnname] at hrn; exact hrn) hrd
      rw [← hnname]; exact this
    | inr hdep =>
      have := buildOrder_global_before hbo hmem_de hdep.1 hmem_me hdep.2.1
        (by rw [← hdname] at hrd; exact hrd) (by rw [← hnname] at hrn; exact hrn)
      rw [← hnname, ← hdname]; exact this
  have heff : d ∈ (effBuildDeps (globalBuildDeps r) me.1 me.2.2).getD [] := by
    cases hdep with
    | inl hdep => exact effBuildDeps_bdeps _ _ _ hdep
    | inr hdep =>
      have hg : d ∈ globalBuildDeps r := by
        unfold globalBuildDeps
        exact List.mem_map.2 ⟨de.1, List.mem_filter.2 ⟨hdep.2.2, hdep.1⟩, hdname⟩
      exact effBuildDeps_globals (List.ne_nil_of_mem hg) hdep.2.1 hg
  obtain ⟨flat, hflat, hall⟩ :=
    modulesLoop_compile_lists_dep_files hlm hme hde hbefore heff hsrc hb hdsrc
  refine ⟨flat, hflat, ?_⟩
  intro s hs
  obtain ⟨nr, srcpath, obj, combined, hsp, hmem, h1, h2⟩ := hall s hs
  have hsub' : lm.1.entries ⊆ i.entries := fun e he => hsub (linkStep_entries hlink he)
  refine ⟨nr, srcpath, obj, combined, hsp, hsub' hmem, h1, ?_⟩
  intro cb hcb
  obtain ⟨outs, ho1, ho2⟩ := h2 cb hcb
  exact ⟨outs, ho1, hsub' ho2⟩

/-- **C19 (main theorem, link)** in a configured build, the link statement lists every declared
    build-dep file and the custom-build output alias of every (selected, non-context) global build dep -/
theorem configureOrdered_link_lists_global_dep_files
    {ev st b builder app r rules opts gflat outfile} {menvs : List ModEnv} {i : BuildInfo}
    (h : configureOrdered ev st b builder app r rules opts gflat outfile menvs = .ok (.build i))
    {d : Name} {de : ModEnv} (hde : menvs.find? (·.1.name == d) = some de)
    (hrd : isRealNode d = true) (hg : de.1.isGlobalBuildDep = true) (hr : de.1 ∈ r.modules)
    {dsrcdir : String} (hdsrc : de.1.srcdir = some dsrcdir) :
    ∃ linkRule objects deps,
      (buildFromRule linkRule (some objects) [outfile] deps).render ∈ i.entries ∧
      (∀ l, de.1.buildDepFiles = some l →
         ∀ f ∈ l, f ∈ (buildFromRule linkRule (some objects) [outfile] deps).deps.getD []) ∧
      (∀ cb, de.1.build = some cb → ∃ outs,
         outsAlias outs ∈ (buildFromRule linkRule (some objects) [outfile] deps).deps.getD []) := by
  obtain ⟨order, lm, entries1, hbo, hlm, hlink, hsub⟩ := configureOrdered_steps h
  have hdname : de.1.name = d := by simpa using List.find?_some hde
  have hgl : d ∈ globalBuildDeps r := by
    unfold globalBuildDeps
    exact List.mem_map.2 ⟨de.1, List.mem_filter.2 ⟨hr, hg⟩, hdname⟩
  have hdo : d ∈ order := by
    rw [(buildOrder_nodup_mem hbo).2]
    refine ⟨hrd, Or.inl ?_⟩
    exact List.mem_map.2 ⟨ModEnv.deps de, List.mem_map.2 ⟨de, List.mem_of_find?_eq_some hde, rfl⟩, hdname⟩
  obtain ⟨linkRule, deps, hmem, h1, h2⟩ := link_lists_global_dep_files hlm hlink hgl hdo hde hdsrc
  exact ⟨linkRule, lm.1.objects, deps, hsub hmem, h1, h2⟩

/-! ## 9. the loader: `download:` makes a module a build dep exporting its tag file -/

/-- the fields build-dependency handling looks at are the same -/
def SameBD (m m' : Module) : Prop :=
  m'.name = m.name ∧ m'.isBuildDep = m.isBuildDep ∧ m'.buildDepFiles = m.buildDepFiles ∧
    m'.download = m.download ∧ m'.srcdir = m.srcdir

theorem SameBD.trans {a b c : Module} (h1 : SameBD a b) (h2 : SameBD b c) : SameBD a c :=
  ⟨h2.1.trans h1.1, h2.2.1.trans h1.2.1, h2.2.2.1.trans h1.2.2.1, h2.2.2.2.1.trans h1.2.2.2.1,
   h2.2.2.2.2.trans h1.2.2.2.2⟩

theorem expandModuleEnvs_same {m m' : Module} (h : expandModuleEnvs m = .ok m') : SameBD m m' := by
  unfold expandModuleEnvs at h
  simp only [bind, Except.bind, pure, Except.pure] at h
  split at h
  · cases h
  · split at h
    · cases h
    · split at h
      · cases h
      · cases h; exact ⟨rfl, rfl, rfl, rfl, rfl⟩

theorem withTasks_same {y} {m m' : Module} (h : withTasks y m = .ok m') : SameBD m m' := by
  unfold withTasks at h
  split at h
  · cases h; exact ⟨rfl, rfl, rfl, rfl, rfl⟩
  · split at h
    · cases h
    · cases h; exact ⟨rfl, rfl, rfl, rfl, rfl⟩

theorem withAppdir_same (b : Bool) (m : Module) : SameBD m (withAppdir b m) := by
  unfold withAppdir; split <;> exact ⟨rfl, rfl, rfl, rfl, rfl⟩

theorem convertModule_parts {y context isBinary filename defaults buildDir} {m : Module}
    (h : convertModule y context isBinary filename defaults buildDir = .ok m) :
    ∃ selA uses deps, SameBD (convertStatic y context isBinary filename defaults buildDir selA uses deps) m := by
  unfold convertModule at h
  simp only [bind, Except.bind, pure, Except.pure] at h
  split at h
  · cases h
  · split at h
    · cases h
    · split at h
      · cases h
      · split at h
        · cases h
        · split at h
          · cases h
          · rename_i _ selA _ _ uses _ _ deps _ _ m1 h1 _ m2 h2
            cases h
            exact ⟨selA, uses, deps,
              ((expandModuleEnvs_same h1).trans (withTasks_same h2)).trans (withAppdir_same _ _)⟩

theorem mem_setInsert (l : List String) (x : String) : x ∈ setInsert l x := by
  unfold setInsert
  split
  · rename_i h; simpa using h
  · simp

/-- `withDownload` on a module with a `download:` section -/
theorem withDownload_spec {y : YModule} {d : Download} (hd : y.download = some d)
    (buildDir relpath : String) (m : Module) :
    (withDownload y buildDir relpath m).isBuildDep = true ∧
    d.tagfile (y.srcdir.getD (d.srcdir buildDir relpath m.name)) ∈ (withDownload y buildDir relpath m).buildDepFiles.getD [] ∧
    (withDownload y buildDir relpath m).download = some d ∧
    (withDownload y buildDir relpath m).name = m.name := by
  unfold withDownload
  rw [hd]
  exact ⟨rfl, mem_setInsert _ _, rfl, rfl⟩

/-- the steps of `convertStatic` from `withDownload` on -/
theorem static_tail_download {y : YModule} {d : Download} (hd : y.download = some d)
    (buildDir relpath : String) (m0 : Module) :
    let m := withEarlyEnv relpath (withSrcdir y buildDir relpath (withBuildFlags y
               (withDownload y buildDir relpath m0)))
    m.name = m0.name ∧ m.isBuildDep = true ∧ m.download = some d ∧
    d.tagfile (y.srcdir.getD (d.srcdir buildDir relpath m0.name)) ∈ m.buildDepFiles.getD [] ∧
    m.srcdir = some (y.srcdir.getD (d.srcdir buildDir relpath m0.name)) := by
  intro m
  obtain ⟨h1, h2, h3, h4⟩ := withDownload_spec hd buildDir relpath m0
  have hnone : y.download.isNone = false := by rw [hd]; rfl
  have hname : (withBuildFlags y (withDownload y buildDir relpath m0)).name = m0.name := h4
  refine ⟨h4, ?_, h3, h2, ?_⟩
  · show (if y.download.isNone then y.isBuildDep else (withDownload y buildDir relpath m0).isBuildDep) = true
    rw [hnone]; exact h1
  · show some (y.srcdir.getD (defaultSrcdir y buildDir relpath
            (withBuildFlags y (withDownload y buildDir relpath m0)).name)) = _
    rw [hname]
    unfold defaultSrcdir
    rw [hd]

/-- the static part of the conversion of a module with a `download:` section -/
theorem convertStatic_download {y : YModule} {d : Download} (hd : y.download = some d)
    (context : Option String) (isBinary : Bool) (filename : String) (defaults : Option Module)
    (buildDir : String) (selA uses deps : List Dep) :
    let m := convertStatic y context isBinary filename defaults buildDir selA uses deps
    m.isBuildDep = true ∧ m.download = some d ∧
    d.tagfile (y.srcdir.getD (d.srcdir buildDir (relpathOf filename) m.name)) ∈ m.buildDepFiles.getD [] ∧
    m.srcdir = some (y.srcdir.getD (d.srcdir buildDir (relpathOf filename) m.name)) := by
  intro m
  obtain ⟨h0, h1, h2, h3, h4⟩ := static_tail_download hd buildDir (relpathOf filename)
    (withLists y (withSources y (withEnvs y (withRemoves (withNotifyAll y (withProvidesUnique y
      (withProvides y (withConflicts y (withDeps selA uses deps
        (initModule y context isBinary filename defaults))))))))))
  have hm : m.name = _ := h0
  rw [hm]
  exact ⟨h1, h2, h3, h4⟩

/-- **C19.4e** a successfully converted module with a `download:` section is a build dep, and the tag
    file of its download directory is among its build-dep files (hence, by C19.4a, registered under
    its name and, by the main theorem, an order-only dependency of every dependent compile statement) -/
theorem convertModule_download {y context isBinary filename defaults buildDir} {m : Module} {d : Download}
    (h : convertModule y context isBinary filename defaults buildDir = .ok m) (hd : y.download = some d) :
    m.isBuildDep = true ∧ m.download = some d ∧
    d.tagfile (y.srcdir.getD (d.srcdir buildDir (relpathOf filename) m.name)) ∈ m.buildDepFiles.getD [] ∧
    m.srcdir = some (y.srcdir.getD (d.srcdir buildDir (relpathOf filename) m.name)) := by
  obtain ⟨selA, uses, deps, hn, hb, hf, hdl, hs⟩ := convertModule_parts h
  obtain ⟨h1, h2, h3, h4⟩ := convertStatic_download hd context isBinary filename defaults buildDir selA uses deps
  rw [hn, hb, hf, hdl, hs]
  exact ⟨h1, h2, h3, h4⟩

/-- the registered tag file is the one the download (or patch) statement produces: the tag file of the module's source directory,
    with or without an explicit `srcdir:` -/
theorem convertModule_download_tagfile {y context isBinary filename defaults buildDir} {m : Module}
    {d : Download}
    (h : convertModule y context isBinary filename defaults buildDir = .ok m) (hd : y.download = some d) :
    d.tagfile (m.srcdir.getD "") ∈ m.buildDepFiles.getD [] := by
  obtain ⟨_, _, h3, h4⟩ := convertModule_download h hd
  rw [h4]
  exact h3

/-! ### (former FINDING C19-F2, fixed: 137176e) `download:` together with an explicit `srcdir:`

The download statement writes its tag file into the module's *effective* source directory (`downloadBuild … (m.srcdir.getD "")`, as
`download.rs` does with `module.srcdir`). Before the fix the tag file exported as a build-dep file was the one of the *default*
download directory (`data.rs`: `download.srcdir(build_dir, &m)`), so with `srcdir:` given every dependent — and the module's own
sources — waited for a file no statement produces (reported by C19's oracle `order:dep-file-without-producer` once the shape
`download_with_srcdir` was generated). Now the exported file is the produced one: -/

/-- exported = produced, for a plain download, whatever `srcdir:` says -/
theorem download_with_srcdir_consistent {y context isBinary filename defaults buildDir} {m : Module}
    {d : Download} (nr : NinjaRule) (vars : List (String × String))
    (h : convertModule y context isBinary filename defaults buildDir = .ok m) (hd : y.download = some d)
    (hp : d.patches = none) :
    (downloadBuild nr (m.srcdir.getD "") vars).outs = [d.tagfile (m.srcdir.getD "")] ∧
    d.tagfile (m.srcdir.getD "") ∈ m.buildDepFiles.getD [] := by
  refine ⟨?_, convertModule_download_tagfile h hd⟩
  unfold Download.tagfile
  rw [hp]
  rfl

-- concrete instance (evaluated): the exported file is the produced one
#guard
  let d : Download := { url := "u", commit := some "c" }
  let y : YModule := { name := some "dl", download := some d, srcdir := some "elsewhere" }
  match convertModule y none false "laze-project.yml" none "build" with
  | .ok m =>
    m.buildDepFiles == some ["elsewhere/.laze-downloaded"] &&
    (downloadBuild { name := "GIT_DOWNLOAD", command := "" } (m.srcdir.getD "") []).outs
      == ["elsewhere/.laze-downloaded"]
  | .error _ => false

/-! ### (former FINDING C19-F1, fixed) a build dep that registers no files

A module marked `is_build_dep: true` (or `is_global_build_dep`) that has neither `build_dep_files`
nor a `build:` section nor a `download:` never gets an entry in `module_build_dep_files`; the lookup
`module_build_dep_files.get(&dep.name).unwrap()` of every dependent used to panic
(`importedDepFiles_missing`, `moduleStmts_panics_on_missing_files`).  Such a dep is now skipped:
`importedDepFiles_total` (§3) — the loop cannot fail — and below. -/

/-- deps without an entry in the file table contribute nothing: they can be filtered out first -/
theorem importedDepFiles_skip (files : FileTable) (deps : List Name) (acc : List String) :
    importedDepFiles files deps acc =
      importedDepFiles files (deps.filter (fun d => (files.get? d).isSome)) acc := by
  induction deps generalizing acc with
  | nil => rfl
  | cons x xs ih =>
    cases hx : files.get? x with
    | none =>
      rw [List.filter_cons_of_neg (by simp [hx])]
      conv => lhs; unfold importedDepFiles
      rw [hx]
      exact ih acc
    | some fs =>
      rw [List.filter_cons_of_pos (by simp [hx])]
      conv => lhs; unfold importedDepFiles
      conv => rhs; unfold importedDepFiles
      rw [hx]
      exact ih _

/-- a default-build module without own build-dep files registers nothing … -/
theorem moduleStmts_registers_nothing {ev st builder app r rules globals m bdeps srcdir flat} {ls ls' : LoopState}
    (h : moduleStmts ev st builder app r rules globals m bdeps srcdir flat ls = .ok ls')
    (hb : m.build = none) (hl : m.buildDepFiles = none) : ls'.files = ls.files := by
  obtain ⟨lt, imported, hlt, _, hbs⟩ := moduleStmts_steps h
  unfold buildStep at hbs
  rw [hb] at hbs
  dsimp only at hbs
  obtain ⟨_, _, h3, _⟩ := defaultBuildStep_spec hbs
  rw [h3]
  unfold registerLocalDeps
  rw [hl]
  exact (downloadStep_files hlt).1

/-- … and a module having an (effective) build dep without registered files no longer fails
    there: `moduleStmts` can only fail in its download step or its build step -/
theorem moduleStmts_error_cases {ev st builder app r rules globals m bdeps srcdir flat}
    {ls : LoopState} {e : GErr}
    (h : moduleStmts ev st builder app r rules globals m bdeps srcdir flat ls = .error e) :
    downloadStep ev m srcdir rules flat ls = .error e ∨
    ∃ lt imported, downloadStep ev m srcdir rules flat ls = .ok lt ∧
      importedOf lt.1.files (effBuildDeps globals m bdeps) = .ok imported ∧
      buildStep ev st builder app.name rules flat m srcdir (effSources r m)
        (combinedDeps imported m.buildDepFiles) lt.2 (registerLocalDeps m lt.1) = .error e := by
  unfold moduleStmts at h
  split at h
  · rename_i e' hdl
    cases h
    exact Or.inl hdl
  · rename_i lt hlt
    split at h
    · rename_i e' himp
      obtain ⟨i, hi⟩ := importedOf_total lt.1.files (effBuildDeps globals m bdeps)
      rw [hi] at himp
      cases himp
    · rename_i imported himp
      exact Or.inr ⟨lt, imported, hlt, himp, h⟩

example : importedOf [] (some ["plain-build-dep"]) = .ok (some []) := by decide

/-! ## 10. from `moduleEnvs` to the main theorems, and a concrete scenario -/

/-- the module envs handed to `configureOrdered` are `buildEnv` of the selected modules, in order -/
theorem moduleEnvs_spec {r : Resolved} {genv : Env} {ms : List Module} {menvs : List ModEnv}
    (h : moduleEnvs r genv ms = .ok menvs) :
    menvs.map (·.1) = ms ∧ ∀ me ∈ menvs, buildEnv r me.1 genv = .ok (me.2.1, me.2.2) := by
  induction ms generalizing menvs with
  | nil => unfold moduleEnvs at h; cases h; exact ⟨rfl, fun _ h => by cases h⟩
  | cons m ms ih =>
    unfold moduleEnvs at h
    split at h
    · cases h
    · rename_i p hp
      split at h
      · cases h
      · rename_i rest hrest
        cases h
        obtain ⟨h1, h2⟩ := ih hrest
        refine ⟨by simp [h1], ?_⟩
        intro me hme
        cases hme with
        | head => exact hp
        | tail _ hme => exact h2 me hme

/-- so (C19.1) the build deps in a module env are exactly the imported `is_build_dep` modules -/
theorem moduleEnvs_bdeps {r : Resolved} {genv : Env} {menvs : List ModEnv}
    (h : moduleEnvs r genv r.modules = .ok menvs) {me : ModEnv} (hme : me ∈ menvs) (d : Name) :
    d ∈ me.2.2.getD [] ↔
      ∃ x ∈ importedModules r me.1, x.name = d ∧ x.isBuildDep = true ∧
        ¬(x.name = me.1.name ∧ x.contextName = me.1.contextName) :=
  buildEnv_bdeps ((moduleEnvs_spec h).2 me hme) d

namespace Ex
/-! an app importing a downloaded module, plus a global build dep with a custom build -/

def ev0 : EvalExpr := fun _ => .error .expr
def dlMod : Module :=
  { name := "dl", contextName := "default", srcdir := some "build/dl/dl", isBuildDep := true, download := some { url := "u", commit := some "c" }, buildDepFiles := some ["build/dl/dl/.laze-downloaded"] }
def genMod : Module :=
  { name := "gen", contextName := "default", srcdir := some "gen", isGlobalBuildDep := true, build := some { cmd := ["touch gen.h"], out := some ["gen.h"] } }
def appMod : Module :=
  { name := "app", contextName := "default", srcdir := some "app", sources := ["main.c"], imports := [.hard "dl"] }
def r : Resolved := { modules := [appMod, dlMod, genMod], providers := [] }
def rules : List (String × Rule) :=
  [("c", { name := "CC", cmd := "cc ${in} -o ${out}", in_ := some "c", out := some "o" }),
   ("LINK", { name := "LINK", cmd := "ld ${in} -o ${out}" }),
   ("GIT_DOWNLOAD", { name := "GIT_DOWNLOAD", cmd := "git clone ${url} ${out}" })]
def bag : Bag := { contexts := [{ name := "default", parent := none }] }
def menvs : List ModEnv := [(appMod, [], some ["dl"]), (dlMod, [], none), (genMod, [], none)]
def mods : List (Module × Option (List Name)) := menvs.map ModEnv.deps

/-- C19.1 on the scenario: `dl` is the one build dep of `app` -/
example : (moduleEnvs r [] r.modules).toOption.map (·.map (fun me => (me.1.name, me.2.2))) =
    some [("app", some ["dl"]), ("dl", none), ("gen", none)] := by decide

/-- C19.5: there is a build order; the global build dep and the download come first -/
theorem order_eq : buildOrder mods = some ["gen", "dl", "app"] := by decide

example : (["gen", "dl", "app"] : List Name).Perm (mods.map (·.1.name)) :=
  buildOrder_perm order_eq (by decide) (by decide) (by decide)

example : Before ["gen", "dl", "app"] "dl" "app" :=
  buildOrder_dep_before order_eq (mb := (appMod, some ["dl"])) (.head _) (d := "dl") (by decide) (by decide)
    (by decide)

example : Before ["gen", "dl", "app"] "gen" "app" :=
  buildOrder_global_before order_eq (gb := (genMod, none)) (mb := (appMod, some ["dl"]))
    (.tail _ (.tail _ (.head _))) rfl (.head _) rfl (by decide) (by decide)

/-- C19.6b: the hypotheses of `bdep_cycle_no_order` on a 2-cycle -/
example : buildOrder [(({ name := "a", contextName := "c" } : Module), some ["b"]),
                      (({ name := "b", contextName := "c" } : Module), some ["a"])] = none :=
  bdep_cycle_no_order (x := "a")
    (.tail (.single ⟨_, .head _, rfl, by decide⟩) ⟨_, .tail _ (.head _), rfl, by decide⟩)

/-- the scenario is a configured build; the hypotheses of the two main theorems hold for
    `n = "app"` with `d = "dl"` (imported build dep) and `d = "gen"` (global build dep): the compile
    statement of `app/main.c` lists the download tag file and the alias of the generated outputs, the
    link statement lists the alias.  (Evaluated: string expansion does not reduce under `decide`.) -/
def hasSub (s sub : String) : Bool := (s.splitOn sub).length > 1

#guard
  match configureOrdered ev0 {} bag "default" appMod r rules none [] "out.elf" menvs with
  | .ok (.build i) =>
    (menvs.find? (·.1.name == "app")).isSome && (menvs.find? (·.1.name == "dl")).isSome &&
    i.entries.any (fun e => hasSub e "app/main.c" && hasSub e "| $\n    build/dl/dl/.laze-downloaded $\n    outs_") &&
    i.entries.any (fun e => hasSub e "build out.elf:" && hasSub e "| $\n    outs_") &&
    i.entries.any (fun e => hasSub e "build build/dl/dl/.laze-downloaded:")
  | _ => false

-- with a cycle the same configuration is dropped
#guard
  match configureOrdered ev0 {} bag "default" appMod r rules none [] "out.elf"
          [(appMod, [], some ["dl"]), (dlMod, [], some ["app"]), (genMod, [], none)] with
  | .ok (.noBuild .depCycle) => true
  | _ => false

end Ex

end Laze.C19
