import LazeModel.Model.MainRun
import LazeModel.Generated.NinjaCmd
/-! # C18 — the ninja command line, regenerated from the source

`translators/ninjacmd.py` re-reads `NinjaCmd::run` (src/ninja/mod.rs) and `ninja_run` / its call sites (src/main.rs) on every run and
writes them as data (`Generated/NinjaCmd.lean`). Here that data is *run*: `interp` executes the extracted argument program on an
arbitrary `NinjaCmd` value, and `ninjaCmd_run_is_model` proves that for EVERY value the result is the model's `ninjaArgv` — the
function all C18 theorems (`targets_within_selection`, `passes_flags`, `clean_argv`, …) are stated about. A change of the Rust
function that alters what is passed (a dropped flag, a reordered argument, a condition on the length of the target list) changes the
generated program: either it no longer interprets (`unknown`) or it no longer equals `ninjaArgv`, and this file stops checking.

The builder setters / verdict match / call sites of `ninja_run` are pinned as reviewed text (`decide`): `runBuild`/`runClean` model
exactly these three calls (task build: targets, jobs, no `-k`; plain build: targets, jobs, `-k`; clean: `-t clean|cleandead`). -/
namespace Laze.C18n
open Laze Laze.Generated

/-- the fields of `NinjaCmd` that `run` reads -/
structure Cmd where
  file : String
  verbose : Bool
  jobs : Option Nat
  keepGoing : Option Nat
  targets : Option (List String)

/-- does a condition hold for a command (and, inside `for target in targets`, for the current target)? `none`: not interpretable -/
def guardHolds (c : Cmd) : NGuard → Option Bool
  | .verbose => some c.verbose
  | .jobs => some c.jobs.isSome
  | .keepGoing => some c.keepGoing.isSome
  | .targets => some c.targets.isSome
  | .eachTarget => some true
  | .unknown _ => none

def allHold (c : Cmd) : List NGuard → Option Bool
  | [] => some true
  | g :: gs => match guardHolds c g, allHold c gs with
    | some a, some b => some (a && b)
    | _, _ => none

/-- the values one `cmd.arg(..)` contributes -/
def argValues (c : Cmd) (inLoop : Bool) : NArg → Option (List String)
  | .lit s => if inLoop then none else some [s]
  | .buildFile => if inLoop then none else some [c.file]
  | .jobs => if inLoop then none else c.jobs.map (fun j => [toString j])
  | .keepGoing => if inLoop then none else c.keepGoing.map (fun k => [toString k])
  | .target => if inLoop then some (c.targets.getD []) else none      -- once per element of the loop
  | .unknown _ => none

def stepValues (c : Cmd) (s : List NGuard × NArg) : Option (List String) :=
  match allHold c s.1 with
  | none => none
  | some false => some []
  | some true => argValues c (s.1.contains .eachTarget) s.2

def interp (c : Cmd) : List (List NGuard × NArg) → Option (List String)
  | [] => some []
  | s :: rest => match stepValues c s, interp c rest with
    | some a, some b => some (a ++ b)
    | _, _ => none

/-- **translator obligation**: for every `NinjaCmd`, the arguments the Rust function passes (as extracted from today's source) are
    the model's `ninjaArgv` -/
theorem ninjaCmd_run_is_model (c : Cmd) :
    ninjaCmdRun.bind (interp c) = some (ninjaArgv c.file c.verbose c.jobs c.keepGoing c.targets) := by
  obtain ⟨file, verbose, jobs, keepGoing, targets⟩ := c
  cases verbose <;> cases jobs <;> cases keepGoing <;> cases targets <;>
    simp [ninjaCmdRun, interp, stepValues, allHold, guardHolds, argValues, ninjaArgv]

/-- the function ends by running the command it assembled (nothing is done to `cmd` after the last argument) -/
theorem ninjaCmd_run_final : ninjaCmdFinal = some "cmd.status()" := by decide +kernel

/-- **translator obligation**: `ninja_run` hands verbose / build file / targets on unconditionally and `-j` / `-k` exactly when given -/
theorem ninja_run_setters_reviewed : ninjaRunSetters =
    [([], "verbose(verbose)"), ([], "build_file(ninja_buildfile)"), ([], "targets(targets)"),
     (["if let Some(jobs) = jobs"], "jobs(jobs)"),
     (["if let Some(keep_going) = keep_going"], "keep_going(keep_going)")] := by decide +kernel

/-- **translator obligation**: only exit code 0 is success (`ninjaVerdict`); any other code and "no code" (killed) are errors -/
theorem ninja_run_verdict_reviewed : ninjaRunVerdict =
    ["Some(code) => match code { 0 => Ok(code), _ => Err(anyhow!(\"ninja exited with code {code}\")), }, None => Err(anyhow!(\"ninja probably killed by signal\")),"] := by
  decide +kernel

/-- **translator obligation**: the three calls `runBuild` (task branch, plain branch) and `runClean` model -/
theorem ninja_run_calls_reviewed : ninjaRunCalls =
    [["ninja_build_file.as_path()", "verbose > 0", "Some(ninja_targets)", "jobs", "None"],
     ["ninja_build_file.as_path()", "verbose > 0", "targets", "jobs", "keep_going"],
     ["ninja_build_file.as_path()", "verbose > 0", "clean_target", "None", "None"]] := by decide +kernel

/-! non-vacuity: the interpreter rejects what it does not know, and a program with a dropped flag is not the model -/
example : interp ⟨"f", true, none, none, none⟩ [([.unknown "if total > MAX"], .target)] = none := by decide
example : interp ⟨"f", false, some 3, some 0, some ["a", "b"]⟩
    [([], .lit "-f"), ([], .buildFile), ([.jobs], .lit "-j"), ([.jobs], .jobs), ([.targets, .eachTarget], .target)]
    ≠ some (ninjaArgv "f" false (some 3) (some 0) (some ["a", "b"])) := by decide

end Laze.C18n
