import LazeModel.Theorems.C07_hash
/-! C06 — "every rule is defined exactly once": rule blocks are de-duplicated as text and named by a hash; two different blocks
    under one name are excluded when every printed field is hashed. The source-level half of that argument is the translator
    obligation of `C07_hash.lean`, re-stated here so that C06's check fails when it does. -/
namespace Laze.C06hash
open Laze

/-- OBLIGATION (source): every field `impl Display for NinjaRule` prints is hashed by `impl Hash for NinjaRule` -/
theorem printed_rule_fields_are_hashed :
    Generated.rulePrinted.all (fun f => Generated.ruleHashed.any (fun h => h.1 == f)) = true :=
  C07hash.printed_fields_are_hashed

/-- OBLIGATION (source): the hashed items are the reviewed ones (those the model's `NinjaRule.hash` spells out) -/
theorem rule_hash_fields_reviewed : Generated.ruleHashed = C07hash.reviewedHashed.map (·.1) :=
  C07hash.rule_hash_fields_reviewed

/-- model: one hashed name, one block (unconditional for the symbolic hashes) -/
theorem one_name_one_block {r1 r2 : NinjaRule} (hnamed : r1.named.name = r2.named.name) (hbase : r1.name = r2.name) :
    r1.named.render = r2.named.render :=
  C07.rule_names_functional_model hnamed hbase

end Laze.C06hash
