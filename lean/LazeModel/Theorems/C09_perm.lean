import LazeModel.Model.Types
/-! C09 / C04 — order-insensitivity of the unordered maps and the layering rule.

  `Env` (and the task/rule tables built with `insertKeyed`) are association lists standing for
  hash maps that the implementation iterates in arbitrary order.  The theorems below show that
  every lookup in the result of `merge` / `flatten` / a fold of `insertKeyed` is a function of the
  lookups in the inputs only, hence independent of the iteration order (`List.Perm`), and that the
  value of a variable after merging layers is the LEFT fold of `mergeOpt` over the layers. -/
namespace Laze.C09
open Laze

/-! ## generic association-list lemmas -/
section Assoc
universe u
variable {α : Type u} {β : Type u}

/-- lookup of the first entry with key `k` (the shape of `Env.get`, `Flat.get`, `rulesGet`) -/
def lk (l : List (String × α)) (k : String) : Option α := (l.find? (·.1 == k)).map (·.2)

@[simp] theorem lk_nil (k : String) : lk ([] : List (String × α)) k = none := rfl

theorem lk_cons (p : String × α) (l : List (String × α)) (k : String) :
    lk (p :: l) k = if p.1 = k then some p.2 else lk l k := by
  unfold lk
  rw [List.find?_cons]
  by_cases h : p.1 = k
  · simp [h]
  · have hb : (p.1 == k) = false := beq_eq_false_iff_ne.2 h
    simp [hb, h]

theorem lk_append (l m : List (String × α)) (k : String) :
    lk (l ++ m) k = (lk l k).or (lk m k) := by
  induction l with
  | nil => simp
  | cons p t ih =>
    rw [List.cons_append, lk_cons, lk_cons, ih]
    split <;> simp

theorem lk_eq_none_of_not_mem {l : List (String × α)} {k : String}
    (h : k ∉ l.map (·.1)) : lk l k = none := by
  induction l with
  | nil => rfl
  | cons p t ih =>
    simp only [List.map_cons, List.mem_cons, not_or] at h
    rw [lk_cons, if_neg (fun e => h.1 e.symm), ih h.2]

theorem any_key_iff (l : List (String × α)) (k : String) :
    l.any (·.1 == k) = true ↔ k ∈ l.map (·.1) := by
  simp only [List.any_eq_true, List.mem_map, beq_iff_eq]

/-- with unique keys, `lk` is characterised by membership -/
theorem lk_eq_some_iff {l : List (String × α)} (hl : (l.map (·.1)).Nodup) (k : String) (v : α) :
    lk l k = some v ↔ (k, v) ∈ l := by
  induction l with
  | nil => simp
  | cons p t ih =>
    rw [List.map_cons, List.nodup_cons] at hl
    rw [lk_cons, List.mem_cons]
    by_cases h : p.1 = k
    · rw [if_pos h]
      constructor
      · intro e
        left
        cases p with
        | mk a w =>
          simp only [Option.some.injEq] at e
          simp only at h
          rw [h, e]
      · rintro (e | e)
        · rw [← e]
        · exfalso
          apply hl.1
          rw [h]
          exact List.mem_map.2 ⟨(k, v), e, rfl⟩
    · rw [if_neg h, ih hl.2]
      constructor
      · intro e; exact Or.inr e
      · rintro (e | e)
        · exfalso; apply h; rw [← e]
        · exact e

/-- with unique keys, lookups do not depend on the order of the entries -/
theorem lk_perm {l l' : List (String × α)} (hl : (l.map (·.1)).Nodup) (hp : l.Perm l')
    (k : String) : lk l k = lk l' k := by
  have hl' : (l'.map (·.1)).Nodup := (hp.map (·.1)).nodup_iff.1 hl
  apply Option.ext
  intro v
  rw [lk_eq_some_iff hl, lk_eq_some_iff hl', hp.mem_iff]

theorem lk_map_val (g : α → β) (l : List (String × α)) (k : String) :
    lk (l.map (fun kv => (kv.1, g kv.2))) k = (lk l k).map g := by
  induction l with
  | nil => rfl
  | cons p t ih =>
    rw [List.map_cons, lk_cons, lk_cons, ih]
    split <;> simp

theorem keys_replace (l : List (String × α)) (k : String) (v : α) :
    (l.map (fun q => if q.1 == k then (k, v) else q)).map (·.1) = l.map (·.1) := by
  induction l with
  | nil => rfl
  | cons p t ih =>
    rw [List.map_cons, List.map_cons, List.map_cons, ih]
    congr 1
    by_cases h : p.1 = k
    · simp [h]
    · simp [h]

theorem lk_replace (l : List (String × α)) (k k' : String) (v : α) :
    lk (l.map (fun q => if q.1 == k then (k, v) else q)) k' =
      if k' = k then (if k ∈ l.map (·.1) then some v else none) else lk l k' := by
  induction l with
  | nil => simp
  | cons p t ih =>
    rw [List.map_cons, lk_cons, ih, lk_cons, List.map_cons]
    simp only [List.mem_cons]
    by_cases hp : p.1 = k
    · have hb : (p.1 == k) = true := beq_iff_eq.2 hp
      simp only [hb, if_true]
      by_cases hk : k' = k
      · simp [hp, hk]
      · have : ¬ k = k' := fun e => hk e.symm
        simp [hp, hk, this]
    · have hb : (p.1 == k) = false := beq_eq_false_iff_ne.2 hp
      simp only [hb, Bool.false_eq_true, if_false]
      by_cases hk : k' = k
      · have h1 : ¬ p.1 = k' := fun e => hp (e.trans hk)
        have h2 : ¬ k = p.1 := fun e => hp e.symm
        simp only [if_neg h1, if_pos hk, h2, false_or]
      · simp [hk]

/-- the key list after `insertKeyed`: unchanged when the key exists, else appended -/
theorem insertKeyed_keys (acc : List (String × α)) (k : String) (v : α) :
    (insertKeyed acc k v).map (·.1) =
      if k ∈ acc.map (·.1) then acc.map (·.1) else acc.map (·.1) ++ [k] := by
  unfold insertKeyed
  by_cases h : k ∈ acc.map (·.1)
  · rw [if_pos ((any_key_iff acc k).2 h), if_pos h, keys_replace]
  · have : ¬ (acc.any (·.1 == k) = true) := fun e => h ((any_key_iff acc k).1 e)
    rw [if_neg this, if_neg h, List.map_append]
    rfl

theorem insertKeyed_nodup {acc : List (String × α)} (h : (acc.map (·.1)).Nodup) (k : String)
    (v : α) : ((insertKeyed acc k v).map (·.1)).Nodup := by
  rw [insertKeyed_keys]
  split
  · exact h
  · rename_i hk
    rw [List.nodup_append]
    refine ⟨h, List.nodup_cons.2 ⟨List.not_mem_nil, List.nodup_nil⟩, ?_⟩
    intro a ha b hb
    rw [List.mem_singleton] at hb
    rintro rfl
    exact hk (hb ▸ ha)

theorem lk_insertKeyed (acc : List (String × α)) (k k' : String) (v : α) :
    lk (insertKeyed acc k v) k' = if k' = k then some v else lk acc k' := by
  unfold insertKeyed
  by_cases h : k ∈ acc.map (·.1)
  · rw [if_pos ((any_key_iff acc k).2 h), lk_replace, if_pos h]
  · have : ¬ (acc.any (·.1 == k) = true) := fun e => h ((any_key_iff acc k).1 e)
    rw [if_neg this, lk_append, lk_cons, lk_nil]
    by_cases hk : k' = k
    · subst hk
      simp [lk_eq_none_of_not_mem h]
    · have : ¬ k = k' := fun e => hk e.symm
      simp [hk, this]

end Assoc

/-! ## 7. task / rule tables (`insertKeyed`, IndexMap::insert) -/

/-- lookup after `insertKeyed` (holds for every `acc`, unique keys are not even needed) -/
theorem insertKeyed_get {α : Type _} (acc : List (String × α)) (k k' : String) (v : α) :
    ((insertKeyed acc k v).find? (·.1 == k')).map (·.2) =
      if k' = k then some v else (acc.find? (·.1 == k')).map (·.2) :=
  lk_insertKeyed acc k k' v

/-- lookups in the table built by folding `insertKeyed` over entries with unique keys: an entry
    of `l` if there is one, else whatever `init` had -/
theorem foldl_insertKeyed_get {α : Type _} (l : List (String × α)) (hl : (l.map (·.1)).Nodup)
    (init : List (String × α)) (k : String) :
    lk (l.foldl (fun acc kv => insertKeyed acc kv.1 kv.2) init) k = (lk l k).or (lk init k) := by
  induction l generalizing init with
  | nil => simp
  | cons p t ih =>
    rw [List.map_cons, List.nodup_cons] at hl
    rw [List.foldl_cons, ih hl.2, lk_insertKeyed, lk_cons]
    by_cases h : k = p.1
    · subst h
      simp [lk_eq_none_of_not_mem hl.1]
    · have : ¬ p.1 = k := fun e => h e.symm
      simp [h, this]

/-- the final table is pointwise independent of the order in which a hash map of tasks / rules
    with unique keys is iterated -/
theorem foldl_insertKeyed_perm {α : Type _} (l l' : List (String × α))
    (hl : (l.map (·.1)).Nodup) (hp : l.Perm l') (init : List (String × α)) (k : String) :
    ((l.foldl (fun acc kv => insertKeyed acc kv.1 kv.2) init).find? (·.1 == k)).map (·.2) =
      ((l'.foldl (fun acc kv => insertKeyed acc kv.1 kv.2) init).find? (·.1 == k)).map (·.2) := by
  have hl' : (l'.map (·.1)).Nodup := (hp.map (·.1)).nodup_iff.1 hl
  show lk _ k = lk _ k
  rw [foldl_insertKeyed_get l hl, foldl_insertKeyed_get l' hl', lk_perm hl hp]

theorem foldl_insertKeyed_nodup {α : Type _} (l init : List (String × α))
    (hi : (init.map (·.1)).Nodup) :
    ((l.foldl (fun acc kv => insertKeyed acc kv.1 kv.2) init).map (·.1)).Nodup := by
  induction l generalizing init with
  | nil => exact hi
  | cons p t ih => exact ih _ (insertKeyed_nodup hi _ _)

/-! ## 1. well-formed environments -/

def Env.Keys (e : Env) : List String := e.map (·.1)
def Env.WF (e : Env) : Prop := (e.map (·.1)).Nodup

instance (e : Env) : Decidable (Env.WF e) := inferInstanceAs (Decidable (List.Nodup _))

def mergeOpt : Option EnvKey → Option EnvKey → Option EnvKey
  | some x, some y => some (x.merge y)
  | some x, none => some x
  | none, y => y

@[simp] theorem mergeOpt_none_right (x : Option EnvKey) : mergeOpt x none = x := by
  cases x <;> rfl
@[simp] theorem mergeOpt_none_left (y : Option EnvKey) : mergeOpt none y = y := rfl

theorem get_eq_lk (e : Env) (k : String) : e.get k = lk e k := rfl
theorem flat_get_eq_lk (f : Flat) (k : String) : f.get k = lk f k := rfl
theorem insert_eq_insertKeyed (e : Env) (k : String) (v : EnvKey) :
    e.insert k v = insertKeyed e k v := rfl

theorem has_iff (e : Env) (k : String) : e.has k = true ↔ k ∈ Env.Keys e := any_key_iff e k

theorem get_isSome_iff (e : Env) (k : String) : (e.get k).isSome = true ↔ k ∈ Env.Keys e := by
  rw [get_eq_lk]
  constructor
  · intro h
    apply Classical.byContradiction
    intro hn
    rw [lk_eq_none_of_not_mem hn] at h
    cases h
  · intro h
    induction e with
    | nil => cases h
    | cons p t ih =>
      rw [lk_cons]
      split
      · rfl
      · rename_i hne
        simp only [Env.Keys, List.map_cons, List.mem_cons] at h
        rcases h with h | h
        · exact absurd h.symm hne
        · exact ih h

/-! ## 2. insert -/

theorem insert_get (e : Env) (k k' : String) (v : EnvKey) :
    (e.insert k v).get k' = if k' = k then some v else e.get k' :=
  lk_insertKeyed e k k' v

theorem insert_wf {e : Env} (h : Env.WF e) (k : String) (v : EnvKey) : Env.WF (e.insert k v) :=
  insertKeyed_nodup h k v

/-! ## 3. merge -/

/-- one step of the `Env.merge` fold -/
def mergeStep (acc : Env) (kv : String × EnvKey) : Env :=
  match acc.get kv.1 with
  | some old => acc.insert kv.1 (old.merge kv.2)
  | none => acc ++ [kv]

theorem merge_eq_foldl (a b : Env) : a.merge b = b.foldl mergeStep a := rfl

theorem mergeStep_eq (acc : Env) (kv : String × EnvKey) :
    mergeStep acc kv =
      insertKeyed acc kv.1 (match acc.get kv.1 with | some old => old.merge kv.2 | none => kv.2) := by
  unfold mergeStep
  cases h : acc.get kv.1 with
  | some old => rfl
  | none =>
    have hk : kv.1 ∉ acc.map (·.1) := by
      intro hm
      have := (get_isSome_iff acc kv.1).2 hm
      rw [h] at this
      cases this
    have : ¬ (acc.any (·.1 == kv.1) = true) := fun e => hk ((any_key_iff acc kv.1).1 e)
    simp only [insertKeyed, if_neg this]

theorem mergeStep_get (acc : Env) (kv : String × EnvKey) (k : String) :
    (mergeStep acc kv).get k = mergeOpt (acc.get k) (if kv.1 = k then some kv.2 else none) := by
  rw [mergeStep_eq, get_eq_lk, lk_insertKeyed]
  by_cases h : k = kv.1
  · subst h
    rw [if_pos rfl, if_pos rfl]
    cases acc.get kv.1 <;> rfl
  · have : ¬ kv.1 = k := fun e => h e.symm
    rw [if_neg h, if_neg this, mergeOpt_none_right, get_eq_lk]

theorem mergeStep_wf {acc : Env} (h : Env.WF acc) (kv : String × EnvKey) :
    Env.WF (mergeStep acc kv) := by
  rw [mergeStep_eq]
  exact insertKeyed_nodup h _ _

/-- lookups in a merged environment: the merge of the two lookups (`a` need not be well-formed) -/
theorem merge_get (a b : Env) (hb : Env.WF b) (k : String) :
    (a.merge b).get k = mergeOpt (a.get k) (b.get k) := by
  rw [merge_eq_foldl]
  induction b generalizing a with
  | nil => simp [Env.get]
  | cons p t ih =>
    unfold Env.WF at hb
    rw [List.map_cons, List.nodup_cons] at hb
    rw [List.foldl_cons, ih _ hb.2, mergeStep_get, get_eq_lk (p :: t), lk_cons, ← get_eq_lk]
    by_cases h : p.1 = k
    · subst h
      rw [if_pos rfl, if_pos rfl, get_eq_lk t, lk_eq_none_of_not_mem hb.1, mergeOpt_none_right]
    · rw [if_neg h, if_neg h, mergeOpt_none_right]

theorem merge_wf {a : Env} (ha : Env.WF a) (b : Env) : Env.WF (a.merge b) := by
  rw [merge_eq_foldl]
  induction b generalizing a with
  | nil => exact ha
  | cons p t ih => exact ih (mergeStep_wf ha p)

/-! ## 4. permutation invariance -/

theorem get_perm {e e' : Env} (h : Env.WF e) (hp : e.Perm e') (k : String) :
    e.get k = e'.get k := lk_perm h hp k

theorem wf_perm {e e' : Env} (h : Env.WF e) (hp : e.Perm e') : Env.WF e' :=
  (hp.map (fun x : String × EnvKey => x.1)).nodup_iff.1 h

/-- the iteration order of the merged-in map is unobservable -/
theorem merge_perm (a b b' : Env) (hb : Env.WF b) (hp : b.Perm b') (k : String) :
    (a.merge b).get k = (a.merge b').get k := by
  rw [merge_get a b hb, merge_get a b' (wf_perm hb hp), get_perm hb hp]

/-- the storage order of the receiving map is unobservable -/
theorem merge_perm_left (a a' b : Env) (ha : Env.WF a) (hb : Env.WF b) (hp : a.Perm a')
    (k : String) : (a.merge b).get k = (a'.merge b).get k := by
  rw [merge_get a b hb, merge_get a' b hb, get_perm ha hp]

theorem merge_perm_both (a a' b b' : Env) (ha : Env.WF a) (hb : Env.WF b) (hpa : a.Perm a')
    (hpb : b.Perm b') (k : String) : (a.merge b).get k = (a'.merge b').get k := by
  rw [merge_perm a b b' hb hpb, merge_perm_left a a' b' ha (wf_perm hb hpb) hpa]

/-! ## 5. flatten -/

theorem flatten_get (e : Env) (k : String) :
    (e.flatten).get k = (e.get k).map EnvKey.flatten :=
  lk_map_val EnvKey.flatten e k

theorem flatten_perm {e e' : Env} (h : Env.WF e) (hp : e.Perm e') (k : String) :
    (e.flatten).get k = (e'.flatten).get k := by
  rw [flatten_get, flatten_get, get_perm h hp]

/-- the flattened value of a variable after a merge depends on the two lookups only -/
theorem merge_flatten_get (a b : Env) (hb : Env.WF b) (k : String) :
    ((a.merge b).flatten).get k = (mergeOpt (a.get k) (b.get k)).map EnvKey.flatten := by
  rw [flatten_get, merge_get a b hb]

theorem merge_flatten_perm (a a' b b' : Env) (ha : Env.WF a) (hb : Env.WF b) (hpa : a.Perm a')
    (hpb : b.Perm b') (k : String) :
    ((a.merge b).flatten).get k = ((a'.merge b').flatten).get k := by
  rw [flatten_get, flatten_get, merge_perm_both a a' b b' ha hb hpa hpb]

/-! ## 6. layer algebra (C04) -/

/-- the 4-row table of `EnvKey.merge` -/
theorem merge_rules :
    (∀ a b, (EnvKey.list a).merge (.list b) = .list (a ++ b)) ∧
    (∀ a s, (EnvKey.list a).merge (.single s) = .single s) ∧
    (∀ s b, (EnvKey.single s).merge (.list b) = .list b) ∧
    (∀ s t, (EnvKey.single s).merge (.single t) = .single t) :=
  ⟨fun _ _ => rfl, fun _ _ => rfl, fun _ _ => rfl, fun _ _ => rfl⟩

/-- `EnvKey.merge` is NOT associative: layering is a left fold and the grouping matters -/
theorem merge_not_assoc :
    ((EnvKey.list ["a"]).merge (.single "s")).merge (.list ["c"]) ≠
      (EnvKey.list ["a"]).merge ((EnvKey.single "s").merge (.list ["c"])) := by
  decide

theorem mergeOpt_assoc_fails :
    mergeOpt (mergeOpt (some (.list ["a"])) (some (.single "s"))) (some (.list ["c"])) ≠
      mergeOpt (some (.list ["a"])) (mergeOpt (some (.single "s")) (some (.list ["c"]))) := by
  decide

/-- the value of a variable after merging layers in order is the left fold of `mergeOpt` over
    the layers' values of that variable -/
theorem foldl_merge_get (layers : List Env) (base : Env) (hl : ∀ l ∈ layers, Env.WF l)
    (k : String) :
    (layers.foldl Env.merge base).get k =
      layers.foldl (fun acc l => mergeOpt acc (l.get k)) (base.get k) := by
  induction layers generalizing base with
  | nil => rfl
  | cons l t ih =>
    rw [List.foldl_cons, List.foldl_cons, ih _ (fun x hx => hl x (List.mem_cons_of_mem _ hx)),
      merge_get base l (hl l List.mem_cons_self)]

theorem foldl_merge_wf (layers : List Env) {base : Env} (hbase : Env.WF base) :
    Env.WF (layers.foldl Env.merge base) := by
  induction layers generalizing base with
  | nil => exact hbase
  | cons l t ih => exact ih (merge_wf hbase l)

/-- the same, with the per-layer values collected first -/
theorem foldl_merge_get' (layers : List Env) (base : Env) (hl : ∀ l ∈ layers, Env.WF l)
    (k : String) :
    (layers.foldl Env.merge base).get k = (layers.map (·.get k)).foldl mergeOpt (base.get k) := by
  rw [foldl_merge_get layers base hl, List.foldl_map]

theorem foldl_mergeOpt_none (init : Option EnvKey) (post : List (Option EnvKey))
    (h : ∀ o ∈ post, o = none) : post.foldl mergeOpt init = init := by
  induction post generalizing init with
  | nil => rfl
  | cons o t ih =>
    rw [List.foldl_cons, h o List.mem_cons_self, mergeOpt_none_right]
    exact ih _ (fun x hx => h x (List.mem_cons_of_mem _ hx))

theorem mergeOpt_single (x : Option EnvKey) (s : String) :
    mergeOpt x (some (.single s)) = some (.single s) := by
  cases x with
  | none => rfl
  | some x => cases x <;> rfl

/-- if the last layer that defines the variable defines it as a plain string, that string is the
    value, whatever the earlier layers said -/
theorem later_single_wins (init : Option EnvKey) (pre post : List (Option EnvKey)) (s : String)
    (hpost : ∀ o ∈ post, o = none) :
    (pre ++ some (.single s) :: post).foldl mergeOpt init = some (.single s) := by
  rw [List.foldl_append, List.foldl_cons, mergeOpt_single, foldl_mergeOpt_none _ _ hpost]

/-- if every layer that defines the variable defines a list, the value is the concatenation of
    the lists in layer order (and undefined iff no layer defines it) -/
theorem lists_append (init : Option (List String)) (vals : List (Option (List String))) :
    (vals.map (Option.map EnvKey.list)).foldl mergeOpt (init.map EnvKey.list) =
      if (init :: vals).filterMap id = [] then none
      else some (.list ((init :: vals).filterMap id).flatten) := by
  induction vals generalizing init with
  | nil => cases init <;> simp
  | cons v t ih =>
    rw [List.map_cons, List.foldl_cons]
    cases init with
    | none =>
      rw [Option.map_none, mergeOpt_none_left, ih v]
      simp
    | some a =>
      cases v with
      | none =>
        rw [Option.map_none, mergeOpt_none_right, ih (some a)]
        simp
      | some b =>
        have : mergeOpt (Option.map EnvKey.list (some a)) (Option.map EnvKey.list (some b)) =
            Option.map EnvKey.list (some (a ++ b)) := rfl
        rw [this, ih (some (a ++ b))]
        simp

/-- special case: the base layer defines a list -/
theorem lists_append_some (l0 : List String) (vals : List (Option (List String))) :
    (vals.map (Option.map EnvKey.list)).foldl mergeOpt (some (.list l0)) =
      some (.list (l0 ++ (vals.filterMap id).flatten)) := by
  have := lists_append (some l0) vals
  simpa using this

/-! ## concrete, non-vacuous instances -/

example : Env.WF [("A", .list ["1"]), ("B", .single "x")] := by decide

example :
    (Env.merge [("A", .list ["1"]), ("C", .single "c")]
        [("A", .list ["2"]), ("B", .single "x")]).get "A" = some (.list ["1", "2"]) ∧
    (Env.merge [("A", .list ["1"]), ("C", .single "c")]
        [("B", .single "x"), ("A", .list ["2"])]).get "A" = some (.list ["1", "2"]) := by
  decide

example :
    (Env.merge [("C", .single "c"), ("A", .list ["1"])]
        [("A", .list ["2"]), ("B", .single "x")]).get "B" =
    (Env.merge [("A", .list ["1"]), ("C", .single "c")]
        [("B", .single "x"), ("A", .list ["2"])]).get "B" := by
  decide

example : (Env.insert [("A", .single "1"), ("B", .single "2")] "A" (.single "9")).get "A" =
    some (.single "9") := by decide

example : (Env.flatten (Env.merge [("A", .list ["1"])] [("A", .list ["2", "3"])])).get "A" =
    some "1 2 3" := by decide

example :
    ([[("A", .list ["x"])], [("B", .single "b")], [("A", .list ["y"])]].foldl Env.merge
      [("A", .list ["w"])]).get "A" = some (.list ["w", "x", "y"]) := by decide

example :
    ([[("A", .list ["x"])], [("A", .single "s")], [("B", .single "b")]].foldl Env.merge
      [("A", .list ["w"])]).get "A" = some (.single "s") := by decide

example :
    (([("t1", 1), ("t2", 2), ("t3", 3)].foldl (fun acc kv => insertKeyed acc kv.1 kv.2)
        [("t2", 0)]).find? (·.1 == "t2")).map (·.2) =
    (([("t3", 3), ("t2", 2), ("t1", 1)].foldl (fun acc kv => insertKeyed acc kv.1 kv.2)
        [("t2", 0)]).find? (·.1 == "t2")).map (·.2) := by decide

end Laze.C09
