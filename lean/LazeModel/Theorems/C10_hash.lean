import LazeModel.Theorems.C07_hash
/-! C10 — "the statements of one (builder, app) pair do not depend on what else was selected": a rule block is shared between builds
    under a name that is a hash of its content, so the closure of one build's output is independent of the other builds only if two
    rule blocks that print differently never get the same name. The source-level half — every field `impl Display for NinjaRule` prints
    is hashed by `impl Hash for NinjaRule` — is the translator obligation of `C07_hash.lean`, re-stated here so that C10's check fails
    when it does (a seeded change that dropped `pool` from the hash made the full run define `CC_<h>` twice while a single-builder run
    had one definition). -/
namespace Laze.C10hash
open Laze

theorem printed_rule_fields_are_hashed :
    Generated.rulePrinted.all (fun f => Generated.ruleHashed.any (fun h => h.1 == f)) = true :=
  C07hash.printed_fields_are_hashed

theorem rule_hash_fields_reviewed : Generated.ruleHashed = C07hash.reviewedHashed.map (·.1) :=
  C07hash.rule_hash_fields_reviewed

end Laze.C10hash
