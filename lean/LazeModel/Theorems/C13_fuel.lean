import LazeModel.Model.Expr
/-! C13 (continued) — the fuel arguments of the model are never exhausted, and the substitution
    is exact for a single reference. -/
namespace Laze.C13
open Laze

/-! ### `findSub` bounds -/

theorem isPrefix_length : ∀ (pat l : Bytes), isPrefix pat l = true → pat.length ≤ l.length
  | [], _, _ => by simp
  | _ :: _, [], h => by simp [isPrefix] at h
  | a :: as, b :: bs, h => by
    simp only [isPrefix, Bool.and_eq_true] at h
    have := isPrefix_length as bs h.2
    simp only [List.length_cons]
    omega

/-- a match reported by `findSub` lies completely inside the text -/
theorem findSub_bound (pat : Bytes) (hp : pat ≠ []) :
    ∀ (l : Bytes) (i : Nat), findSub pat l = some i → i + pat.length ≤ l.length := by
  intro l
  induction l with
  | nil =>
    intro i h
    cases pat with
    | nil => exact absurd rfl hp
    | cons a as => simp [findSub] at h
  | cons b tl ih =>
    intro i h
    unfold findSub at h
    split at h
    · rename_i hpre
      cases h
      have := isPrefix_length _ _ hpre
      omega
    · cases hf : findSub pat tl with
      | none => simp [hf] at h
      | some j =>
        simp [hf] at h
        have := ih j hf
        simp only [List.length_cons]
        omega

/-! ### the scanning loop never runs out of fuel -/

theorem scan_no_fuel_aux (f : Bytes) : ∀ fuel cursor acc esc,
    f.length + 1 ≤ fuel + cursor → cursor ≤ f.length →
    scan f fuel cursor acc esc ≠ .error .fuel := by
  intro fuel
  induction fuel with
  | zero => intro cursor acc esc h1 h2; omega
  | succ n ih =>
    intro cursor acc esc h1 h2 h
    unfold scan at h
    split at h
    · rename_i hlt
      split at h
      · cases h
      · rename_i start hstart
        have hb := findSub_bound dollarBrace (by decide) _ _ hstart
        simp only [List.length_drop, dollarBrace, List.length_cons, List.length_nil] at hb
        split at h
        · exact ih _ _ _ (by omega) (by omega) h
        · dsimp only at h
          split at h
          · cases h
          · rename_i e he
            have hb2 := findSub_bound closeBrace (by decide) _ _ he
            simp only [List.length_drop, closeBrace, List.length_cons, List.length_nil] at hb2
            exact ih _ _ _ (by omega) (by omega) h
    · cases h

/-- the first loop of `expand_recursive` terminates within `len + 1` iterations -/
theorem scan_no_fuel (f : Bytes) : scan f (f.length + 1) 0 [] false ≠ .error .fuel :=
  scan_no_fuel_aux f _ _ _ _ (by omega) (by omega)

example : scan [36,123,65,125,92,36,123,36,123,66,125] 12 0 [] false
    = .ok ([⟨[65], 0, 4⟩, ⟨[66], 7, 11⟩], true) := by decide

/-! ### the recursion depth is bounded by the number of variables -/

/-- pigeonhole: a duplicate-free list drawn from `l` is no longer than `l` -/
theorem nodup_subset_length {α : Type} [BEq α] [LawfulBEq α] :
    ∀ (l s : List α), s.Nodup → (∀ x ∈ s, x ∈ l) → s.length ≤ l.length := by
  intro l
  induction l with
  | nil =>
    intro s _ hs
    cases s with
    | nil => simp
    | cons x xs => exact absurd (hs x (by simp)) (by simp)
  | cons a l ih =>
    intro s hn hs
    have h1 : (s.erase a).length ≤ l.length := by
      apply ih _ (hn.erase a)
      intro x hx
      rw [hn.mem_erase_iff] at hx
      have := hs x hx.2
      simp only [List.mem_cons] at this
      cases this with
      | inl h => exact absurd h hx.1
      | inr h => exact h
    have h2 : s.length ≤ (s.erase a).length + 1 := by
      rw [List.length_erase]
      split <;> omega
    simp only [List.length_cons]
    omega

theorem get_some_mem_keys (r : Vars) (k v : Bytes) (h : r.get k = some v) : k ∈ r.map (·.1) := by
  unfold Vars.get at h
  cases hf : r.find? (·.1 == k) with
  | none => simp [hf] at h
  | some p =>
    have h1 := List.find?_some hf
    have h2 := List.mem_of_find?_eq_some hf
    simp only [beq_iff_eq] at h1
    exact List.mem_map.mpr ⟨p, h2, h1⟩

theorem subst_no_fuel (r : Vars) (pol : Policy) (rec : XRec) (f : Bytes) (seen : List Bytes)
    (hrec : ∀ k v, k ∉ seen → r.get k = some v → rec v (seen ++ [k]) ≠ .error .fuel) :
    ∀ reps cursor res, subst r pol rec f seen reps cursor res ≠ .error .fuel := by
  intro reps
  induction reps with
  | nil => intro cursor res h; simp [subst] at h
  | cons rep reps ih =>
    intro cursor res h
    unfold subst at h
    simp only at h
    split at h
    · cases h
    · rename_i hseen
      split at h
      · rename_i val hval
        split at h
        · exact ih _ _ h
        · rename_i e' he
          cases h
          refine hrec _ _ ?_ hval he
          intro hmem
          exact hseen (List.contains_iff_mem.mpr hmem)
      · split at h
        · cases h
        · exact ih _ _ h
        · exact ih _ _ h

theorem rec_no_fuel (r : Vars) (pol : Policy) : ∀ n f (seen : List Bytes),
    seen.Nodup → (∀ k ∈ seen, k ∈ r.map (·.1)) → r.length + 1 ≤ n + seen.length →
    expandRec r pol n f seen ≠ .error .fuel := by
  intro n
  induction n with
  | zero =>
    intro f seen hn hs hl
    have := nodup_subset_length _ _ hn hs
    simp only [List.length_map] at this
    omega
  | succ n ih =>
    intro f seen hn hs hl h
    simp only [expandRec, expandStep] at h
    split at h
    · rename_i e' he
      cases h
      exact scan_no_fuel f he
    · split at h
      · rename_i e' he
        cases h
        refine subst_no_fuel r pol _ f seen ?_ _ _ _ he
        intro k v hk hv
        apply ih
        · rw [List.nodup_append]
          refine ⟨hn, by simp, ?_⟩
          intro a ha b hb
          simp only [List.mem_singleton] at hb
          subst hb
          intro hab
          exact hk (hab ▸ ha)
        · intro x hx
          simp only [List.mem_append, List.mem_singleton] at hx
          cases hx with
          | inl hx => exact hs x hx
          | inr hx => subst hx; exact get_some_mem_keys r _ v hv
        · simp only [List.length_append, List.length_singleton]
          omega
      · cases h

/-- `expand` never runs out of the model's recursion fuel: a key may occur only once on a
    recursion path (a second occurrence is a `Cycle`), so the depth is at most `r.length + 1` -/
theorem fuel_suffices (r : Vars) (pol : Policy) (f : Bytes) : expand r pol f ≠ .error .fuel :=
  rec_no_fuel r pol _ f [] (by simp) (by simp) (by simp)

-- a chain of maximal depth: A ↦ "${B}", B ↦ "x"
example : expand [([65], [36,123,66,125]), ([66], [120])] .error [36,123,65,125] = .ok [120] := by
  decide

/-! ### a single reference `a ++ "${" ++ k ++ "}" ++ b` in marker-free context -/

theorem findSub_db_append (t : Bytes) : ∀ (a : Bytes), findSub dollarBrace a = none →
    findSub dollarBrace (a ++ 36 :: 123 :: t) = some a.length := by
  intro a
  induction a with
  | nil => intro _; simp [findSub, dollarBrace, isPrefix]
  | cons x a' ih =>
    intro h
    unfold findSub at h
    split at h
    · cases h
    · rename_i hpre
      cases hf : findSub dollarBrace a' with
      | some j => simp [hf] at h
      | none =>
        have := ih hf
        cases a' with
        | nil =>
          simp [findSub, dollarBrace, isPrefix]
        | cons y a'' =>
          simp only [dollarBrace, isPrefix, Bool.and_true] at hpre
          simp only [List.cons_append] at this ⊢
          unfold findSub
          simp only [dollarBrace, isPrefix, Bool.and_true, hpre]
          simp only [dollarBrace] at this
          simp [this]

theorem findSub_cb (b : Bytes) : ∀ (k : Bytes), (125 : UInt8) ∉ k →
    findSub closeBrace (k ++ 125 :: b) = some k.length := by
  intro k
  induction k with
  | nil => intro _; simp [findSub, closeBrace, isPrefix]
  | cons x k ih =>
    intro h
    simp only [List.mem_cons, not_or] at h
    have := ih h.2
    simp only [List.cons_append]
    unfold findSub
    have hx : ((125 : UInt8) == x) = false := by simpa using h.1
    simp only [closeBrace, isPrefix, hx, Bool.false_and] at this ⊢
    simp [this]

theorem scan_tail (f : Bytes) (fuel cursor : Nat) (acc : List Rep) (esc : Bool)
    (h : findSub dollarBrace (f.drop cursor) = none) :
    scan f (fuel + 1) cursor acc esc = .ok (acc, esc) := by
  unfold scan
  simp only [h]
  split <;> rfl
theorem last_getD (a t : Bytes) (h : a.getLast? ≠ some 92) (hpos : 0 < a.length) :
    ((a ++ t).getD (a.length - 1) 0 == backslash) = false := by
  rw [List.getLast?_eq_getElem?] at h
  rw [List.getD_eq_getElem?_getD, List.getElem?_append_left (by omega)]
  cases hg : a[a.length - 1]? with
  | none => simp at hg; omega
  | some x =>
    rw [hg] at h
    simp only [Option.getD_some, backslash]
    simpa using h

theorem scan_single (a k b : Bytes) (ha : findSub dollarBrace a = none)
    (hesc : a.getLast? ≠ some 92) (hk : (125 : UInt8) ∉ k) (hb : findSub dollarBrace b = none)
    (fuel : Nat) :
    scan (a ++ 36 :: 123 :: (k ++ 125 :: b)) (fuel + 2) 0 [] false
      = .ok ([⟨k, a.length, a.length + (k.length + 3)⟩], false) := by
  unfold scan
  have hlen : 0 < (a ++ 36 :: 123 :: (k ++ 125 :: b)).length := by
    simp only [List.length_append, List.length_cons]; omega
  rw [if_pos hlen]
  simp only [List.drop_zero]
  rw [findSub_db_append _ _ ha]
  dsimp only
  have hcond : (decide (a.length > 0) &&
      (a ++ 36 :: 123 :: (k ++ 125 :: b)).getD (0 + a.length - 1) 0 == backslash) = false := by
    by_cases hp : 0 < a.length
    · rw [Nat.zero_add, last_getD a _ hesc hp]; simp
    · simp [hp]
  rw [hcond]
  simp only [Bool.false_eq_true, if_false, Nat.add_zero]
  rw [List.drop_left]
  have hcb : findSub closeBrace (36 :: 123 :: (k ++ 125 :: b)) = some (k.length + 2) := by
    have := findSub_cb b k hk
    simp [findSub, closeBrace, isPrefix] at this ⊢
    exact this
  rw [hcb]
  dsimp only
  have hd : List.drop (a.length + 2) (a ++ 36 :: 123 :: (k ++ 125 :: b)) = k ++ 125 :: b := by
    rw [List.drop_append]; simp
  have ht : k.length + 2 + a.length - (a.length + 2) = k.length := by omega
  rw [hd, ht, List.take_left]
  have hc : k.length + 2 + a.length + 1 = a.length + (k.length + 3) := by omega
  rw [hc]
  rw [scan_tail]
  · rfl
  · have : a.length + (k.length + 3) = (a ++ 36 :: 123 :: (k ++ [125])).length := by
      simp only [List.length_append, List.length_cons, List.length_nil] <;> omega
    have hf : a ++ 36 :: 123 :: (k ++ 125 :: b) = (a ++ 36 :: 123 :: (k ++ [125])) ++ b := by simp
    rw [this, hf, List.drop_left]
    exact hb
theorem tail_append (f res : Bytes) (c : Nat) :
    (if c < f.length then res ++ f.drop c else res) = res ++ f.drop c := by
  split
  · rfl
  · rw [List.drop_eq_nil_of_le (by omega)]; simp

theorem drop_single (a k b : Bytes) :
    List.drop (a.length + (k.length + 3)) (a ++ 36 :: 123 :: (k ++ 125 :: b)) = b := by
  have h1 : a.length + (k.length + 3) = (a ++ 36 :: 123 :: (k ++ [125])).length := by
    simp only [List.length_append, List.length_cons, List.length_nil] <;> omega
  have hf : a ++ 36 :: 123 :: (k ++ 125 :: b) = (a ++ 36 :: 123 :: (k ++ [125])) ++ b := by simp
  rw [h1, hf, List.drop_left]

/-- one level of expansion of a text with exactly one reference -/
theorem step_single (r : Vars) (pol : Policy) (rec : XRec) (seen : List Bytes) (a k b : Bytes)
    (ha : findSub dollarBrace a = none) (hesc : a.getLast? ≠ some 92)
    (hk : (125 : UInt8) ∉ k) (hb : findSub dollarBrace b = none) :
    expandStep r pol rec (a ++ 36 :: 123 :: (k ++ 125 :: b)) seen =
      if seen.contains k then .error (.cycle k) else
        match r.get k with
        | some val =>
          match rec val (seen ++ [k]) with
          | .ok v => .ok (a ++ v ++ b)
          | .error e => .error e
        | none =>
          match pol with
          | .error => .error (.missing k)
          | .ignore => .ok (a ++ 36 :: 123 :: (k ++ 125 :: b))
          | .empty => .ok (a ++ b) := by
  unfold expandStep
  have hl : (a ++ 36 :: 123 :: (k ++ 125 :: b)).length + 1 = (a.length + k.length + b.length + 2) + 2 := by
    simp only [List.length_append, List.length_cons] <;> omega
  rw [hl, scan_single a k b ha hesc hk hb]
  dsimp only
  by_cases hc : seen.contains k = true
  · simp only [subst, hc, if_true]
  · cases hg : r.get k with
    | some val =>
      cases hrec : rec val (seen ++ [k]) with
      | ok v =>
        simp only [subst, hc, hg, hrec, tail_append, List.drop_zero, Nat.sub_zero, List.take_left,
          List.nil_append, Bool.false_eq_true, if_false]
        simp only [drop_single]
      | error e =>
        simp only [subst, hc, hg, hrec, Bool.false_eq_true, if_false]
    | none =>
      cases pol with
      | error => simp only [subst, hc, hg, Bool.false_eq_true, if_false]
      | ignore =>
        simp only [subst, hc, hg, tail_append, List.drop_zero, Nat.sub_zero, List.take_left,
          List.nil_append, Bool.false_eq_true, if_false]
        simp only [drop_single]
        simp [dollarBrace, closeBrace]
      | empty =>
        simp only [subst, hc, hg, tail_append, List.drop_zero, Nat.sub_zero, List.take_left,
          List.nil_append, Bool.false_eq_true, if_false]
        simp only [drop_single]

theorem ref_shape (a k b : Bytes) :
    a ++ dollarBrace ++ k ++ closeBrace ++ b = a ++ 36 :: 123 :: (k ++ 125 :: b) := by
  simp [dollarBrace, closeBrace]

theorem rec_no_marker (r : Vars) (pol : Policy) (n : Nat) (f : Bytes) (seen : List Bytes)
    (h : findSub dollarBrace f = none) : expandRec r pol (n + 1) f seen = .ok f := by
  unfold expandRec expandStep
  rw [scan_tail f _ 0 [] false (by simpa using h)]
  simp only [subst]
  by_cases hl : 0 < f.length
  · simp [hl]
  · have : f = [] := by cases f with | nil => rfl | cons a b => simp at hl
    simp [this]

/-- a variable whose value refers to itself (each time as the only reference of a marker-free
    context) is reported as `Cycle`, under every policy and whatever else `r` contains.
    No hypothesis about `$`/`{` inside `k` or about a trailing `$` of `a` is needed: the first
    `${` of `a ++ "${" ++ …` is at `a.length` as soon as `a` itself contains no `${`. -/
theorem self_ref_cycle_ctx (r : Vars) (pol : Policy) (a b a' b' k : Bytes)
    (ha : findSub dollarBrace a = none) (hesc : a.getLast? ≠ some 92)
    (hb : findSub dollarBrace b = none)
    (ha' : findSub dollarBrace a' = none) (hesc' : a'.getLast? ≠ some 92)
    (hb' : findSub dollarBrace b' = none)
    (hk : (125 : UInt8) ∉ k)
    (hr : r.get k = some (a' ++ dollarBrace ++ k ++ closeBrace ++ b')) :
    expand r pol (a ++ dollarBrace ++ k ++ closeBrace ++ b) = .error (.cycle k) := by
  rw [ref_shape] at hr ⊢
  unfold expand
  simp only [expandRec]
  rw [step_single r pol _ [] a k b ha hesc hk hb]
  simp only [List.contains_nil, Bool.false_eq_true, if_false, hr, List.nil_append]
  rw [step_single r pol _ [k] a' k b' ha' hesc' hk hb']
  simp

/-- `K ↦ "${K}"` and the text `"${K}"`: `Cycle(K)`, for every key without `}` -/
theorem self_ref_cycle (r : Vars) (pol : Policy) (k : Bytes) (hk : (125 : UInt8) ∉ k)
    (hr : r.get k = some (dollarBrace ++ k ++ closeBrace)) :
    expand r pol (dollarBrace ++ k ++ closeBrace) = .error (.cycle k) := by
  have := self_ref_cycle_ctx r pol [] [] [] [] k (by decide) (by decide) (by decide) (by decide)
    (by decide) (by decide) hk (by simpa using hr)
  simpa using this

-- non-vacuity: key "A${" (a key may contain `$`, `{`), r = [B ↦ "", A${ ↦ "${A${}"]
example : expand [([66], []), ([65, 36, 123], dollarBrace ++ [65, 36, 123] ++ closeBrace)] .empty
    (dollarBrace ++ [65, 36, 123] ++ closeBrace) = .error (.cycle [65, 36, 123]) :=
  self_ref_cycle _ _ _ (by decide) (by decide)

-- non-vacuity of the context version: text "x$${A}y", A ↦ "${A}$"
example : expand [([65], [] ++ dollarBrace ++ [65] ++ closeBrace ++ [36])] .ignore
    ([120, 36] ++ dollarBrace ++ [65] ++ closeBrace ++ [121]) = .error (.cycle [65]) :=
  self_ref_cycle_ctx _ _ _ _ [] [36] _ (by decide) (by decide) (by decide) (by decide) (by decide)
    (by decide) (by decide) (by decide)

/-- exact substitution of a single reference: `a ++ "${k}" ++ b ↦ a ++ v ++ b`.
    Hypotheses: `a`, `b`, `v` contain no `${`; `a` does not end in a backslash (else the
    reference is an escape); `k` contains no `}` (else the key ends earlier). -/
theorem subst_exact (r : Vars) (pol : Policy) (a b k v : Bytes)
    (ha : findSub dollarBrace a = none) (hesc : a.getLast? ≠ some 92)
    (hb : findSub dollarBrace b = none) (hk : (125 : UInt8) ∉ k)
    (hv : findSub dollarBrace v = none) (hr : r.get k = some v) :
    expand r pol (a ++ dollarBrace ++ k ++ closeBrace ++ b) = .ok (a ++ v ++ b) := by
  rw [ref_shape]
  unfold expand
  rw [show r.length + 2 = (r.length + 1) + 1 from rfl]
  conv => lhs; unfold expandRec
  rw [step_single r pol _ [] a k b ha hesc hk hb]
  simp only [List.contains_nil, Bool.false_eq_true, if_false, hr, List.nil_append]
  rw [rec_no_marker r pol _ v _ hv]

-- non-vacuity: "é$" ++ "${A}" ++ "{z", A ↦ "\$"
example : expand [([66], [1]), ([65], [92, 36])] .error
    ([195, 169, 36] ++ dollarBrace ++ [65] ++ closeBrace ++ [123, 122])
    = .ok ([195, 169, 36] ++ [92, 36] ++ [123, 122]) :=
  subst_exact _ _ _ _ _ _ (by decide) (by decide) (by decide) (by decide) (by decide) (by decide)

/-- unknown name, policy `Ignore`: the text is returned unchanged -/
theorem unknown_ignore (r : Vars) (a b k : Bytes)
    (ha : findSub dollarBrace a = none) (hesc : a.getLast? ≠ some 92)
    (hb : findSub dollarBrace b = none) (hk : (125 : UInt8) ∉ k) (hr : r.get k = none) :
    expand r .ignore (a ++ dollarBrace ++ k ++ closeBrace ++ b)
      = .ok (a ++ dollarBrace ++ k ++ closeBrace ++ b) := by
  rw [ref_shape]
  unfold expand
  rw [show r.length + 2 = (r.length + 1) + 1 from rfl]
  conv => lhs; unfold expandRec
  rw [step_single r _ _ [] a k b ha hesc hk hb]
  simp only [List.contains_nil, Bool.false_eq_true, if_false, hr]

example : expand [([66], [1])] .ignore ([120] ++ dollarBrace ++ [65] ++ closeBrace ++ [121])
    = .ok ([120] ++ dollarBrace ++ [65] ++ closeBrace ++ [121]) :=
  unknown_ignore _ _ _ _ (by decide) (by decide) (by decide) (by decide) (by decide)

/-- unknown name, policy `Empty`: the reference is dropped -/
theorem unknown_empty (r : Vars) (a b k : Bytes)
    (ha : findSub dollarBrace a = none) (hesc : a.getLast? ≠ some 92)
    (hb : findSub dollarBrace b = none) (hk : (125 : UInt8) ∉ k) (hr : r.get k = none) :
    expand r .empty (a ++ dollarBrace ++ k ++ closeBrace ++ b) = .ok (a ++ b) := by
  rw [ref_shape]
  unfold expand
  rw [show r.length + 2 = (r.length + 1) + 1 from rfl]
  conv => lhs; unfold expandRec
  rw [step_single r _ _ [] a k b ha hesc hk hb]
  simp only [List.contains_nil, Bool.false_eq_true, if_false, hr]

example : expand [([66], [1])] .empty ([120] ++ dollarBrace ++ [65] ++ closeBrace ++ [121])
    = .ok ([120] ++ [121]) :=
  unknown_empty _ _ _ _ (by decide) (by decide) (by decide) (by decide) (by decide)

/-- unknown name, policy `Error`: `Missing(k)` -/
theorem unknown_error (r : Vars) (a b k : Bytes)
    (ha : findSub dollarBrace a = none) (hesc : a.getLast? ≠ some 92)
    (hb : findSub dollarBrace b = none) (hk : (125 : UInt8) ∉ k) (hr : r.get k = none) :
    expand r .error (a ++ dollarBrace ++ k ++ closeBrace ++ b) = .error (.missing k) := by
  rw [ref_shape]
  unfold expand
  rw [show r.length + 2 = (r.length + 1) + 1 from rfl]
  conv => lhs; unfold expandRec
  rw [step_single r _ _ [] a k b ha hesc hk hb]
  simp only [List.contains_nil, Bool.false_eq_true, if_false, hr]


example : expand [([66], [1])] .error ([120] ++ dollarBrace ++ [65] ++ closeBrace ++ [121])
    = .error (.missing [65]) :=
  unknown_error _ _ _ _ (by decide) (by decide) (by decide) (by decide) (by decide)

-- the hypothesis on `a` is needed: "\${A}" is an escape, not a reference
example : expand [([65], [120])] .error ([92] ++ dollarBrace ++ [65] ++ closeBrace) ≠ .ok ([92] ++ [120]) := by
  decide

end Laze.C13
