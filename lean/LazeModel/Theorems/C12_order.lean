import LazeModel.Generated.ResolverOrder
import LazeModel.Model.Resolver
/-! # C12 / C01 / C02 — translator obligation: the order of tests and state effects in `Resolver::resolve_module_deep`

`translators/resolverorder.py` re-reads src/build.rs on every run. The model (`Model/Resolver.lean`) states the resolver as
`enter` (admission tests, then registration) followed by the dependency loop `resolveDepsW` with "error = the caller keeps its state";
`C12.l1_refines_l2` proves that this is what an explicit snapshot stack implements *provided* the snapshot is taken after the admission
tests and before ANY registration, is rolled back exactly on a hard failure and dropped exactly on success. That proviso is a fact
about the source text; it is checked here:

  admission tests (already selected → Ok; disabled; conflicts a selected / provided name; provides a disabled name)   [no state change]
  `state_push`                                                                                                       [snapshot]
  register conflicts, provides, the module (set + list)                                                              [`enter`]
  late if-then deps of this module's name, then the loop over `selects ++ late`                                      [`resolveDepsW`]
    if-then: condition selected → dependency, else park it and continue
    providers of the name first (`resolve_module_list`), skip the exact name when a provider claimed it
    then the module of that name; failure tolerated iff optional or provided, else `state_pop` + Err
  `state_stack.pop()`                                                                                                [drop snapshot]

A seeded change that skipped the snapshot for leaf modules, one that registered conflicts only after the dependencies, and one that
took the snapshot after the provides all produce a different list. -/
namespace Laze.C12order
open Laze

def reviewed : List (String × Nat) := [
  ("test:already-selected", 0), ("return:ok", 1),
  ("test:disabled", 0), ("return:err", 1),
  ("loop:conflicts", 1), ("test:conflicts-selected", 2), ("return:err", 3), ("test:conflicts-provided", 2), ("return:err", 3),
  ("loop:provides", 1), ("test:provides-disabled", 2), ("return:err", 3),
  ("snapshot:push", 0),
  ("loop:conflicts", 1), ("register:conflicts", 2),
  ("register:provides", 2),
  ("register:selected", 0), ("register:list", 0),
  ("late:read", 0),
  ("loop:deps", 0),
  ("ifthen:condition", 3), ("ifthen:park", 4), ("continue", 4),
  ("ifthen:condition", 3), ("ifthen:park", 4), ("continue", 4),
  ("providers:lookup", 2), ("providers:resolve", 3), ("providers:claimed-name-disabled", 4), ("continue", 5),
  ("name:resolve", 1), ("tolerate:optional-or-provided", 2), ("continue", 3),
  ("snapshot:rollback", 3), ("return:err-on-hard-failure", 3),
  ("snapshot:drop", 0)]

/-- **translator obligation**: today's `resolve_module_deep` performs the reviewed tests and effects in the reviewed order and nesting -/
theorem resolve_steps_reviewed : Generated.resolveSteps = reviewed := by decide +kernel

/-- the snapshot is taken once, at the top level of the function (not under a condition), after every admission test and before every
    registration — read off the reviewed list -/
theorem snapshot_between_tests_and_registration :
    (reviewed.filter (·.1 == "snapshot:push")) = [("snapshot:push", 0)] ∧
    (reviewed.takeWhile (·.1 != "snapshot:push")).all (fun s => !s.1.startsWith "register:") = true ∧
    ((reviewed.dropWhile (·.1 != "snapshot:push")).all (fun s => !s.1.startsWith "test:")) = true := by decide +kernel

/-- exactly one roll-back (on the hard-failure path, next to the error return) and one unconditional drop at the end -/
theorem rollback_and_drop :
    (reviewed.filter (·.1 == "snapshot:rollback")).length = 1 ∧ reviewed.getLast? = some ("snapshot:drop", 0) := by decide +kernel

/-- the model's `enter` performs the same three kinds of admission test before it registers anything: a module that fails one of them
    leaves the state untouched (what "no state change before the snapshot" means on the model side) -/
theorem enter_error_keeps_nothing (m : Mod) (s : RState) (e : RErr) (h : enter m s = .error e) :
    e = .disabled ∨ e = .conflict ∨ e = .providesDisabled := by
  unfold enter at h
  split at h
  · cases h; exact Or.inl rfl
  · split at h
    · cases h; exact Or.inr (Or.inl rfl)
    · split at h
      · cases h; exact Or.inr (Or.inr rfl)
      · cases h

end Laze.C12order
