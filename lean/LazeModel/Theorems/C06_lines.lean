import LazeModel.Model.Select
/-! C06 (rule blocks are loadable): every value of a rule block that the generator writes is ONE line. A ninja value ends with its
    line, so a line break inside `command = …` ends the rule block early (found on the code as it was: `cmd: |` in a rule). After the
    repair a rule reaches the file only through `finishRule` (rules of contexts, LINK, POST_LINK, GIT_PATCH) or `customCmd` (custom
    builds), and both refuse a line break. -/
namespace Laze.C06
open Laze

/-- the printed values of a rule block -/
def NinjaRule.OneLine (r : NinjaRule) : Prop :=
  hasLineBreak r.command = false ∧ optHasLineBreak r.description = false ∧ optHasLineBreak r.rspfile = false ∧
  optHasLineBreak r.rspfileContent = false ∧ optHasLineBreak r.pool = false ∧ optHasLineBreak r.deps = false

theorem singleLine_oneLine {r r' : NinjaRule} (h : r.singleLine = some r') : NinjaRule.OneLine r' := by
  unfold NinjaRule.singleLine at h
  simp only at h
  split at h
  · cases h
  · rename_i hc
    cases h
    simp only [Bool.or_eq_true, not_or, Bool.not_eq_true] at hc
    obtain ⟨⟨⟨⟨⟨h1, h2⟩, h3⟩, h4⟩, h5⟩, h6⟩ := hc
    exact ⟨h1, h2, h3, h4, h5, h6⟩

/-- `named` changes the name only -/
theorem named_oneLine {r : NinjaRule} (h : NinjaRule.OneLine r) : NinjaRule.OneLine r.named := h

/-- **C06.7a** a rule that `finishRule` lets through has one-line values; with the rule's name it is all a rule block prints -/
theorem finishRule_oneLine {r nr : NinjaRule} (h : finishRule r = .ok nr) : NinjaRule.OneLine nr := by
  unfold finishRule at h
  split at h
  · rename_i r' hr
    cases h
    exact named_oneLine (singleLine_oneLine hr)
  · cases h

/-- **C06.7b** every rule made from a laze rule (`Rule::to_ninja`) has one-line values -/
theorem ruleToNinja_oneLine {ev : EvalExpr} {rule : Rule} {flat : Flat} {nr : NinjaRule}
    (h : ruleToNinja ev rule flat = .ok nr) : NinjaRule.OneLine nr := by
  unfold ruleToNinja at h
  simp only [bind, Except.bind] at h
  split at h
  · cases h
  · split at h
    · cases h
    · split at h
      · cases h
      · exact finishRule_oneLine h

/-- **C06.7c** the rule of a custom build has one-line values -/
theorem customRule_oneLine {cb : CustomBuild} {cmd0 cmd : String} (h : customCmd cb cmd0 = .ok cmd) :
    NinjaRule.OneLine (customRule cb cmd) := by
  unfold customCmd at h
  split at h
  · cases h
  · rename_i hc
    cases h
    simp only [Bool.or_eq_true, not_or, Bool.not_eq_true] at hc
    refine ⟨hc.1, ?_, rfl, rfl, rfl, hc.2⟩
    show optHasLineBreak (some "BUILD ${out}") = false
    decide

/-- the command of a custom build is what `single_line` makes of the rule the generator builds: `customCmd` is `finishRule` on that rule -/
theorem customCmd_is_finishRule (cb : CustomBuild) (cmd0 cmd : String) (h : customCmd cb cmd0 = .ok cmd) :
    finishRule { name := "BUILD", command := cmd0, description := some "BUILD ${out}", deps := cb.gccDeps } = .ok (customRule cb cmd) := by
  unfold customCmd at h
  split at h
  · cases h
  · rename_i hc
    cases h
    simp only [Bool.or_eq_true, not_or, Bool.not_eq_true] at hc
    have hd : trimLineEnd "BUILD ${out}" = "BUILD ${out}" := by decide
    have hd' : optHasLineBreak (some "BUILD ${out}") = false := by decide
    have hn : optHasLineBreak none = false := rfl
    unfold finishRule NinjaRule.singleLine
    simp only [Option.map_some, hd, hd', hn, hc.1, hc.2, Bool.or_self, Bool.false_eq_true, ↓reduceIte]
    rfl

/-- dropping the final line breaks is idempotent and leaves a text without them alone -/
theorem trimLineEnd_noop {s : String} (h : ∀ c ∈ s.toList.getLast?, (c == '\n' || c == '\r') = false) : trimLineEnd s = s := by
  unfold trimLineEnd
  have : s.toList.reverse.dropWhile (fun c => c == '\n' || c == '\r') = s.toList.reverse := by
    cases hl : s.toList.reverse with
    | nil => rfl
    | cons c cs =>
      have hc : s.toList.getLast? = some c := by
        rw [List.getLast?_eq_head?_reverse, hl]; rfl
      have := h c (by rw [hc]; exact rfl)
      simp [List.dropWhile, this]
  rw [this, List.reverse_reverse, String.ofList_toList]

/-- non-vacuity: a block-scalar command loses its final line break and passes; one with an inner break is refused -/
example : (finishRule { name := "CC", command := "cc -c ${in}\n", description := some "CC\n" }).toOption.map (·.command) = some "cc -c ${in}" := by
  decide +kernel
example : (finishRule { name := "CC", command := "cc -c\n ${in}" }).toOption = none := by decide +kernel

end Laze.C06
