import LazeModel.Model.Select
/-! # C10 — selection independence and partitions

  "The statements generated for one (builder, app) pair are identical whether laze was asked for
  all builds, for a subset via `--builders` / `--apps`, for a `--partition` that contains it, or in local
  mode from the app's directory.  The partitions count:1/N .. count:N/N (and hash:) configure
  disjoint sets of builds whose union is the unpartitioned set."
-/
namespace Laze.C10
open Laze

/-! ## 4. Partitions -/

/-- the index predicate of `count:k/N` when the running counter starts at `c` -/
def countPred (k N c : Nat) (p : α × Nat) : Bool := (c + p.2) % N == k - 1

theorem countPartition_spec_aux (k N : Nat) (l : List α) :
    ∀ c, c < N → countPartition k N l c = ((l.zipIdx 0).filter (countPred k N c)).map (·.1) := by
  induction l with
  | nil => intro c _; rfl
  | cons x xs ih =>
    intro c hc
    have hN : 0 < N := Nat.lt_of_le_of_lt (Nat.zero_le _) hc
    have hc1 : (c + 1) % N < N := Nat.mod_lt _ hN
    have htail : countPartition k N xs ((c + 1) % N)
        = ((xs.zipIdx 1).filter (countPred k N c)).map (·.1) := by
      rw [ih _ hc1, List.zipIdx_succ, List.filter_map, List.map_map]
      have hp : (countPred (α := α) k N c ∘ fun x => match x with | (a, i) => (a, i + 1))
          = countPred k N ((c + 1) % N) := by
        funext p
        obtain ⟨a, i⟩ := p
        simp only [Function.comp, countPred]
        rw [Nat.mod_add_mod, Nat.add_assoc, Nat.add_comm 1 i]
      rw [hp]
      congr 1
    have hhead : countPred k N c (x, 0) = (c == k - 1) := by
      simp only [countPred, Nat.add_zero, Nat.mod_eq_of_lt hc]
    unfold countPartition
    dsimp only
    rw [List.zipIdx_cons, List.filter_cons, hhead, htail]
    by_cases hck : (c == k - 1) = true
    · rw [if_pos hck, if_pos hck]; rfl
    · rw [if_neg hck, if_neg hck]

/-- **countPartition_spec**: `count:k/N` keeps exactly the elements whose index `i` satisfies
    `(c + i) % N = k - 1` (no constraint on `k` is needed; `c < N` is). -/
theorem countPartition_spec (k N : Nat) (l : List α) (c : Nat) (hc : c < N) :
    countPartition k N l c
      = (l.zipIdx.filter (fun (p : α × Nat) => (c + p.2) % N == k - 1)).map (·.1) :=
  countPartition_spec_aux k N l c hc

theorem countPartition_sublist (k N : Nat) (l : List α) : ∀ c, (countPartition k N l c).Sublist l := by
  induction l with
  | nil => intro c; exact List.Sublist.slnil
  | cons x xs ih =>
    intro c
    unfold countPartition
    dsimp only
    split
    · exact (ih _).cons_cons x
    · exact (ih _).cons x

/-- splitting a list by the value of a bounded key and re-concatenating is a permutation -/
theorem flatMap_filter_key_perm (f : α → Nat) (l : List α) :
    ∀ N, ((List.range N).flatMap (fun k => l.filter (fun x => f x == k))).Perm
          (l.filter (fun x => decide (f x < N))) := by
  intro N
  induction N with
  | zero =>
    have : l.filter (fun x => decide (f x < 0)) = [] := by
      rw [List.filter_eq_nil_iff]; intro a _; simp
    rw [this]; exact List.Perm.refl _
  | succ N ih =>
    rw [List.range_succ, List.flatMap_append]
    have h1 : (l.filter (fun x => decide (f x < N + 1))).filter (fun x => decide (f x < N))
        = l.filter (fun x => decide (f x < N)) := by
      rw [List.filter_filter]
      apply List.filter_congr
      intro x _
      by_cases h : f x < N
      · have : f x < N + 1 := Nat.lt_succ_of_lt h
        simp [h, this]
      · simp [h]
    have h2 : (l.filter (fun x => decide (f x < N + 1))).filter (fun x => !decide (f x < N))
        = l.filter (fun x => f x == N) := by
      rw [List.filter_filter]
      apply List.filter_congr
      intro x _
      by_cases h : f x = N
      · simp [h]
      · have hne : (f x == N) = false := by simp [h]
        rw [hne]
        by_cases h' : f x < N
        · simp [h']
        · have : ¬ f x < N + 1 := by omega
          simp [this]
    have hp := List.filter_append_perm (fun x => decide (f x < N)) (l.filter (fun x => decide (f x < N + 1)))
    rw [h1, h2] at hp
    refine List.Perm.trans ?_ hp
    have : [N].flatMap (fun k => l.filter (fun x => f x == k)) = l.filter (fun x => f x == N) := by
      simp [List.flatMap_cons]
    rw [this]
    exact List.Perm.append_right _ ih

theorem flatMap_filter_key_perm' (f : α → Nat) (l : List α) (N : Nat) (hf : ∀ x ∈ l, f x < N) :
    ((List.range N).flatMap (fun k => l.filter (fun x => f x == k))).Perm l := by
  have h := flatMap_filter_key_perm f l N
  have : l.filter (fun x => decide (f x < N)) = l := by
    rw [List.filter_eq_self]; intro a ha; simp [hf a ha]
  rwa [this] at h

/-- **count_partition_cover**: the shards `count:1/N … count:N/N` together contain every element
    of `l` exactly once. -/
theorem count_partition_cover (N : Nat) (hN : 1 ≤ N) (l : List α) :
    ((List.range N).flatMap (fun k => countPartition (k + 1) N l 0)).Perm l := by
  have hfun : (fun k => countPartition (k + 1) N l 0)
      = fun k => (l.zipIdx.filter (fun (p : α × Nat) => p.2 % N == k)).map (·.1) := by
    funext k
    rw [countPartition_spec (k + 1) N l 0 hN]
    simp only [Nat.zero_add, Nat.add_sub_cancel]
  rw [hfun, ← List.map_flatMap]
  have hp := flatMap_filter_key_perm' (fun (p : α × Nat) => p.2 % N) l.zipIdx N
    (fun _ _ => Nat.mod_lt _ hN)
  have := hp.map (·.1)
  rwa [List.zipIdx_map_fst] at this

/-- disjointness of the index sets: an index is kept by at most one shard … -/
theorem count_partition_disjoint (N k₁ k₂ c i : Nat) (h₁ : 1 ≤ k₁) (h₂ : 1 ≤ k₂)
    (a₁ : ((c + i) % N == k₁ - 1) = true) (a₂ : ((c + i) % N == k₂ - 1) = true) : k₁ = k₂ := by
  have e₁ := eq_of_beq a₁
  have e₂ := eq_of_beq a₂
  omega

/-- … and by exactly one shard in `1..N`. -/
theorem count_partition_unique (N : Nat) (hN : 1 ≤ N) (c i : Nat) :
    ∃ k, 1 ≤ k ∧ k ≤ N ∧ ((c + i) % N == k - 1) = true ∧
      ∀ k', 1 ≤ k' → ((c + i) % N == k' - 1) = true → k' = k := by
  refine ⟨(c + i) % N + 1, by omega, Nat.succ_le_of_lt (Nat.mod_lt _ hN), by simp, ?_⟩
  intro k' hk' h
  have := eq_of_beq h
  omega

/-- the shards as index sets: two different shards share no index of `l` -/
theorem count_partition_index_disjoint (N k₁ k₂ c : Nat) (l : List α) (h₁ : 1 ≤ k₁) (h₂ : 1 ≤ k₂)
    (hne : k₁ ≠ k₂) (p : α × Nat)
    (m₁ : p ∈ l.zipIdx.filter (fun (p : α × Nat) => (c + p.2) % N == k₁ - 1))
    (m₂ : p ∈ l.zipIdx.filter (fun (p : α × Nat) => (c + p.2) % N == k₂ - 1)) : False := by
  rw [List.mem_filter] at m₁ m₂
  exact hne (count_partition_disjoint N k₁ k₂ c p.2 h₁ h₂ m₁.2 m₂.2)

/-- **hash_partition** (cover): for any hash function the shards `hash:1/N … hash:N/N`
    together contain every element exactly once -/
theorem hash_partition_cover (h : α → Nat) (N : Nat) (hN : 1 ≤ N) (l : List α) :
    ((List.range N).flatMap (fun k => l.filter (fun x => h x % N == (k + 1) - 1))).Perm l := by
  simp only [Nat.add_sub_cancel]
  exact flatMap_filter_key_perm' (fun x => h x % N) l N (fun _ _ => Nat.mod_lt _ hN)

/-- **hash_partition** (exactly one shard): every element satisfies the filter of exactly one
    `k ∈ 1..N` -/
theorem hash_partition_unique (h : α → Nat) (N : Nat) (hN : 1 ≤ N) (x : α) :
    ∃ k, 1 ≤ k ∧ k ≤ N ∧ (h x % N == k - 1) = true ∧
      ∀ k', 1 ≤ k' → (h x % N == k' - 1) = true → k' = k := by
  refine ⟨h x % N + 1, by omega, Nat.succ_le_of_lt (Nat.mod_lt _ hN), by simp, ?_⟩
  intro k' hk' hh
  have := eq_of_beq hh
  omega

/-- both partition kinds, at the level of `applyPartition`: the shards `1..N` re-assemble
    (as a multiset) the unpartitioned tuple list -/
theorem applyPartition_count_cover (hf : String → Nat) (N : Nat) (hN : 1 ≤ N)
    (tuples : List (Context × Module)) :
    ((List.range N).flatMap (fun k => applyPartition hf (some (.count (k + 1) N)) tuples)).Perm tuples :=
  count_partition_cover N hN tuples

theorem applyPartition_hash_cover (hf : String → Nat) (N : Nat) (hN : 1 ≤ N)
    (tuples : List (Context × Module)) :
    ((List.range N).flatMap (fun k => applyPartition hf (some (.hash (k + 1) N)) tuples)).Perm tuples :=
  hash_partition_cover (fun (p : Context × Module) => hf (p.1.name ++ p.2.name)) N hN tuples

/-- a partition only ever removes tuples (and keeps their order) -/
theorem applyPartition_sublist (hf : String → Nat) (p : Option Partition)
    (tuples : List (Context × Module)) : (applyPartition hf p tuples).Sublist tuples := by
  unfold applyPartition
  split
  · exact List.Sublist.refl _
  · exact countPartition_sublist _ _ _ _
  · exact List.filter_sublist

/-! ### 5. non-vacuity: the three shards of a 7-element list -/
example : countPartition 1 3 [10, 11, 12, 13, 14, 15, 16] 0 = [10, 13, 16] := by decide
example : countPartition 2 3 [10, 11, 12, 13, 14, 15, 16] 0 = [11, 14] := by decide
example : countPartition 3 3 [10, 11, 12, 13, 14, 15, 16] 0 = [12, 15] := by decide
example : (List.range 3).flatMap (fun k => countPartition (k + 1) 3 [10, 11, 12, 13, 14, 15, 16] 0)
    = [10, 13, 16, 11, 14, 12, 15] := by decide
example : ([10, 11, 12, 13, 14, 15, 16].zipIdx.filter (fun (p : Nat × Nat) => (0 + p.2) % 3 == 2 - 1)).map (·.1)
    = [11, 14] := by decide

/-! ## 2. the combined entry set -/

theorem mem_addEntry (es : List String) (e x : String) : x ∈ addEntry es e ↔ x ∈ es ∨ x = e := by
  unfold addEntry
  split
  · rename_i hc
    have he : e ∈ es := List.contains_iff_mem.mp hc
    constructor
    · exact Or.inl
    · rintro (h | h)
      · exact h
      · exact h ▸ he
  · simp [List.mem_append]

theorem nodup_addEntry {es : List String} (h : es.Nodup) (e : String) : (addEntry es e).Nodup := by
  unfold addEntry
  split
  · exact h
  · rename_i hc
    have he : e ∉ es := fun hm => hc (List.contains_iff_mem.mpr hm)
    rw [List.nodup_append]
    refine ⟨h, by simp, ?_⟩
    intro a ha b hb hab
    rw [List.mem_singleton] at hb
    exact he (hb ▸ hab ▸ ha)

theorem mem_addEntries (l : List String) : ∀ (es : List String) (x : String),
    x ∈ addEntries es l ↔ x ∈ es ∨ x ∈ l := by
  induction l with
  | nil => intro es x; simp [addEntries]
  | cons e l ih =>
    intro es x
    have : addEntries es (e :: l) = addEntries (addEntry es e) l := rfl
    rw [this, ih, mem_addEntry, List.mem_cons]
    constructor
    · rintro ((h | h) | h)
      · exact Or.inl h
      · exact Or.inr (Or.inl h)
      · exact Or.inr (Or.inr h)
    · rintro (h | h | h)
      · exact Or.inl (Or.inl h)
      · exact Or.inl (Or.inr h)
      · exact Or.inr h

theorem nodup_addEntries (l : List String) : ∀ {es : List String}, es.Nodup → (addEntries es l).Nodup := by
  induction l with
  | nil => intro es h; exact h
  | cons e l ih =>
    intro es h
    have : addEntries es (e :: l) = addEntries (addEntry es e) l := rfl
    rw [this]
    exact ih (nodup_addEntry h e)

/-- `dedup` on strings is `addEntries` from the empty set -/
theorem dedup_eq_addEntries (l : List String) : dedup l = addEntries [] l := rfl

theorem mem_dedup (l : List String) (x : String) : x ∈ dedup l ↔ x ∈ l := by
  rw [dedup_eq_addEntries, mem_addEntries]; simp

theorem nodup_dedup (l : List String) : (dedup l).Nodup :=
  nodup_addEntries l List.nodup_nil

/-- the fold of `generate` that assembles the combined file -/
def combine (builds : List BuildInfo) (init : List String) : List String :=
  builds.foldl (fun es i => addEntries es i.entries) init

theorem mem_combine (builds : List BuildInfo) : ∀ (init : List String) (x : String),
    x ∈ combine builds init ↔ x ∈ init ∨ ∃ i ∈ builds, x ∈ i.entries := by
  induction builds with
  | nil => intro init x; simp [combine]
  | cons i is ih =>
    intro init x
    have : combine (i :: is) init = combine is (addEntries init i.entries) := rfl
    rw [this, ih, mem_addEntries]
    constructor
    · rintro ((h | h) | ⟨j, hj, hx⟩)
      · exact Or.inl h
      · exact Or.inr ⟨i, List.mem_cons_self, h⟩
      · exact Or.inr ⟨j, List.mem_cons_of_mem _ hj, hx⟩
    · rintro (h | ⟨j, hj, hx⟩)
      · exact Or.inl (Or.inl h)
      · rcases List.mem_cons.mp hj with rfl | hj
        · exact Or.inl (Or.inr hx)
        · exact Or.inr ⟨j, hj, hx⟩

theorem nodup_combine (builds : List BuildInfo) : ∀ {init : List String}, init.Nodup →
    (combine builds init).Nodup := by
  induction builds with
  | nil => intro init h; exact h
  | cons i is ih =>
    intro init h
    have : combine (i :: is) init = combine is (addEntries init i.entries) := rfl
    rw [this]
    exact ih (nodup_addEntries _ h)

theorem combine_eq_dedup (builds : List BuildInfo) :
    combine builds [] = dedup (builds.flatMap (·.entries)) := by
  rw [dedup_eq_addEntries]
  unfold combine addEntries
  rw [List.foldl_flatMap]

/-! ## 1. every tuple is configured independently -/

/-- **entries_independent** (⇒): the entry of a tuple is determined by that tuple alone -/
theorem entries_independent_mem {ev st b cli} {tuples : List (Context × Module)} {c : Context} {m : Module}
    (h : (c, m) ∈ tuples) :
    (c.name, m.name, configureBuild ev st b c.name m cli) ∈ configureAll ev st b cli tuples := by
  unfold configureAll
  exact List.mem_map.mpr ⟨(c, m), h, rfl⟩

/-- **entries_independent** (⇐): every entry has that form -/
theorem entries_independent_form {ev st b cli} {tuples : List (Context × Module)}
    {x : Name × Name × Except GErr Outcome} (h : x ∈ configureAll ev st b cli tuples) :
    ∃ c m, (c, m) ∈ tuples ∧ x = (c.name, m.name, configureBuild ev st b c.name m cli) := by
  unfold configureAll at h
  obtain ⟨⟨c, m⟩, hm, rfl⟩ := List.mem_map.mp h
  exact ⟨c, m, hm, rfl⟩

/-- **entries_independent** (iff form) -/
theorem entries_independent {ev st b cli} {tuples : List (Context × Module)}
    (x : Name × Name × Except GErr Outcome) :
    x ∈ configureAll ev st b cli tuples ↔
      ∃ c m, (c, m) ∈ tuples ∧ x = (c.name, m.name, configureBuild ev st b c.name m cli) :=
  ⟨entries_independent_form, fun ⟨_, _, hm, hx⟩ => hx ▸ entries_independent_mem hm⟩

/-- positional form: the list is a `map`, so it distributes over `++` (no state is threaded) -/
theorem configureAll_append (ev st b cli) (t₁ t₂ : List (Context × Module)) :
    configureAll ev st b cli (t₁ ++ t₂) = configureAll ev st b cli t₁ ++ configureAll ev st b cli t₂ := by
  unfold configureAll; exact List.map_append

/-- the successful part of one entry -/
def okPart (x : Name × Name × Except GErr Outcome) : Option (Name × Name × Outcome) :=
  match x with
  | (bn, an, r) => match r with | .ok o => some (bn, an, o) | .error _ => none

/-- the configured part of one outcome -/
def buildPart (x : Name × Name × Outcome) : Option BuildInfo :=
  match x with
  | (_, _, o) => match o with | .build i => some i | _ => none

def wrapOk (x : Name × Name × Outcome) : Name × Name × Except GErr Outcome := (x.1, x.2.1, .ok x.2.2)

theorem no_failures (l : List (Name × Name × Except GErr Outcome)) (h : failuresOf l = []) :
    l = (l.filterMap okPart).map wrapOk := by
  induction l with
  | nil => rfl
  | cons x xs ih =>
    obtain ⟨bn, an, r⟩ := x
    cases r with
    | error e => simp [failuresOf] at h
    | ok o =>
      have h' : failuresOf xs = [] := by simpa [failuresOf] using h
      have e1 : List.filterMap okPart ((bn, an, Except.ok o) :: xs)
          = (bn, an, o) :: List.filterMap okPart xs := by
        rw [List.filterMap_cons]; rfl
      rw [e1, List.map_cons, ← ih h']
      rfl

/-- what a successful `generate` returns -/
theorem generate_done {ev h st b a r} (hg : generate ev h st b a = .ok (.done r)) :
    ∃ tuples, buildTuples h b a = .ok tuples ∧
      configureAll ev st b a.cli tuples = r.outcomes.map wrapOk ∧
      r.builds = r.outcomes.filterMap buildPart ∧
      r.entries = combine r.builds [] := by
  unfold generate at hg
  cases hbt : buildTuples h b a with
  | error e => rw [hbt] at hg; cases hg
  | ok tuples =>
    rw [hbt] at hg
    refine ⟨tuples, rfl, ?_⟩
    simp only [bind, Except.bind] at hg
    split at hg
    · rename_i hf
      cases hg
      exact ⟨no_failures _ hf, rfl, rfl⟩
    · cases hg

/-! ### a `BuildInfo` carries the names of its tuple -/

theorem finishBuild_ids {ev b builder app r rules gflat outfile globals ls mflats i}
    (h : finishBuild ev b builder app r rules gflat outfile globals ls mflats = .ok i) :
    i.builder = builder ∧ i.app = app.name := by
  unfold finishBuild at h
  split at h
  · cases h
  · split at h
    · cases h
    · split at h
      · cases h
      · cases h; exact ⟨rfl, rfl⟩

theorem configureOrdered_ids {ev st b builder app r rules opts gflat outfile menvs i}
    (h : configureOrdered ev st b builder app r rules opts gflat outfile menvs = .ok (.build i)) :
    i.builder = builder ∧ i.app = app.name := by
  unfold configureOrdered at h
  split at h
  · cases h
  · split at h
    · cases h
    · split at h
      · cases h
      · rename_i hf
        cases h
        exact finishBuild_ids hf

theorem configureWithEnv_ids {ev st b builder app r genv gflat i}
    (h : configureWithEnv ev st b builder app r genv gflat = .ok (.build i)) :
    i.builder = builder ∧ i.app = app.name := by
  unfold configureWithEnv at h
  split at h
  · cases h
  · split at h
    · cases h
    · exact configureOrdered_ids h

theorem configureSelection_ids {ev st b builder app cli r i}
    (h : configureSelection ev st b builder app cli r = .ok (.build i)) :
    i.builder = builder ∧ i.app = app.name := by
  unfold configureSelection at h
  split at h
  · cases h
  · exact configureWithEnv_ids h

/-- the `BuildInfo` of a configured tuple is labelled with the tuple's builder and app names -/
theorem built_ids {ev st b builder app cli i}
    (h : configureBuild ev st b builder app cli = .ok (.build i)) :
    i.builder = builder ∧ i.app = app.name := by
  unfold configureBuild at h
  split at h
  · cases h
  · split at h
    · cases h
    · split at h
      · cases h
      · exact configureSelection_ids h

/-! ### consequences for `generate` -/

/-- the `BuildInfo` of a tuple, if it is configured -/
def buildOf (ev : EvalExpr) (st : Settings) (b : Bag) (cli : Cli) (c : Context) (m : Module) : Option BuildInfo :=
  match configureBuild ev st b c.name m cli with
  | .ok (.build i) => some i
  | _ => none

/-- in a successful run every selected tuple has its own outcome in `outcomes`, and if that is a
    build, its `BuildInfo` is in `builds` -/
theorem generate_tuple {ev h st b a r t} {c : Context} {m : Module}
    (hg : generate ev h st b a = .ok (.done r)) (ht : buildTuples h b a = .ok t) (hm : (c, m) ∈ t) :
    ∃ o, configureBuild ev st b c.name m a.cli = .ok o ∧ (c.name, m.name, o) ∈ r.outcomes ∧
      ∀ i, o = .build i → i ∈ r.builds := by
  obtain ⟨t', ht', hall, hb, _⟩ := generate_done hg
  rw [ht] at ht'; cases ht'
  have h1 := entries_independent_mem (ev := ev) (st := st) (b := b) (cli := a.cli) hm
  rw [hall] at h1
  obtain ⟨⟨bn, an, o⟩, hx, he⟩ := List.mem_map.mp h1
  simp only [wrapOk, Prod.mk.injEq] at he
  obtain ⟨rfl, rfl, ho⟩ := he
  refine ⟨o, ho.symm, hx, ?_⟩
  intro i hi
  subst hi
  rw [hb]
  exact List.mem_filterMap.mpr ⟨_, hx, rfl⟩

/-- conversely every outcome / build of a successful run is the outcome of one selected tuple -/
theorem generate_outcome_origin {ev h st b a r t} (hg : generate ev h st b a = .ok (.done r))
    (ht : buildTuples h b a = .ok t) {x : Name × Name × Outcome} (hx : x ∈ r.outcomes) :
    ∃ c m, (c, m) ∈ t ∧ x.1 = c.name ∧ x.2.1 = m.name ∧
      configureBuild ev st b c.name m a.cli = .ok x.2.2 := by
  obtain ⟨t', ht', hall, _, _⟩ := generate_done hg
  rw [ht] at ht'; cases ht'
  have h1 : wrapOk x ∈ configureAll ev st b a.cli t := by
    rw [hall]; exact List.mem_map.mpr ⟨x, hx, rfl⟩
  obtain ⟨c, m, hm, he⟩ := entries_independent_form h1
  simp only [wrapOk, Prod.mk.injEq] at he
  exact ⟨c, m, hm, he.1, he.2.1, he.2.2.symm⟩

theorem generate_build_origin {ev h st b a r t} (hg : generate ev h st b a = .ok (.done r))
    (ht : buildTuples h b a = .ok t) {i : BuildInfo} (hi : i ∈ r.builds) :
    ∃ c m, (c, m) ∈ t ∧ configureBuild ev st b c.name m a.cli = .ok (.build i) ∧
      i.builder = c.name ∧ i.app = m.name := by
  obtain ⟨_, _, _, hb, _⟩ := generate_done hg
  rw [hb] at hi
  obtain ⟨⟨bn, an, o⟩, hx, ho⟩ := List.mem_filterMap.mp hi
  obtain ⟨c, m, hm, _, _, hc⟩ := generate_outcome_origin hg ht hx
  have : o = .build i := by
    unfold buildPart at ho
    dsimp only at ho
    split at ho
    · cases ho; rfl
    · cases ho
  subst this
  exact ⟨c, m, hm, hc, built_ids hc⟩

/-- **entries_independent, corollary for `generate`** (C10, first sentence): two successful runs
    with the same command-line overrides that both select the tuple `(c, m)` — whatever their
    `--builders`, `--apps`, `--partition` and mode — contain the same outcome for it, and if it is a
    build, the same `BuildInfo` (same entries, same everything). -/
theorem same_build {ev h st b a₁ a₂ r₁ r₂ t₁ t₂} {c : Context} {m : Module}
    (g₁ : generate ev h st b a₁ = .ok (.done r₁)) (g₂ : generate ev h st b a₂ = .ok (.done r₂))
    (hcli : a₁.cli = a₂.cli)
    (ht₁ : buildTuples h b a₁ = .ok t₁) (ht₂ : buildTuples h b a₂ = .ok t₂)
    (m₁ : (c, m) ∈ t₁) (m₂ : (c, m) ∈ t₂) :
    ∃ o, configureBuild ev st b c.name m a₁.cli = .ok o ∧
      (c.name, m.name, o) ∈ r₁.outcomes ∧ (c.name, m.name, o) ∈ r₂.outcomes ∧
      ∀ i, o = .build i → i ∈ r₁.builds ∧ i ∈ r₂.builds := by
  obtain ⟨o₁, c₁, x₁, b₁⟩ := generate_tuple g₁ ht₁ m₁
  obtain ⟨o₂, c₂, x₂, b₂⟩ := generate_tuple g₂ ht₂ m₂
  rw [← hcli, c₁] at c₂
  cases c₂
  exact ⟨o₁, c₁, x₁, x₂, fun i hi => ⟨b₁ i hi, b₂ i hi⟩⟩

theorem find?_eq_some_of_unique {p : α → Bool} {x : α} : ∀ {l : List α}, x ∈ l → p x = true →
    (∀ y ∈ l, p y = true → y = x) → l.find? p = some x := by
  intro l
  induction l with
  | nil => intro h; cases h
  | cons y ys ih =>
    intro hx hp hu
    rw [List.find?_cons]
    cases hy : p y with
    | true => rw [hu y List.mem_cons_self hy]
    | false =>
      rcases List.mem_cons.mp hx with rfl | hx'
      · rw [hy] at hp; cases hp
      · exact ih hx' hp (fun z hz => hu z (List.mem_cons_of_mem _ hz))

/-- the `BuildInfo` recorded for the names `(bn, an)` -/
def buildFor (r : GenResult) (bn an : Name) : Option BuildInfo :=
  r.builds.find? (fun i => i.builder == bn && i.app == an)

/-- look-up form: if among the selected tuples the names `(c.name, m.name)` denote only the app
    `m` (`configureBuild` sees the builder only through its name), then the `BuildInfo` found
    under these names is the one `configureBuild` computes for this tuple alone. -/
theorem buildFor_eq {ev h st b a r t} {c : Context} {m : Module}
    (hg : generate ev h st b a = .ok (.done r)) (ht : buildTuples h b a = .ok t) (hm : (c, m) ∈ t)
    (huniq : ∀ p ∈ t, p.1.name = c.name → p.2.name = m.name → p.2 = m) :
    buildFor r c.name m.name = buildOf ev st b a.cli c m := by
  obtain ⟨o, ho, _, hb⟩ := generate_tuple hg ht hm
  have hall : ∀ i ∈ r.builds, (i.builder == c.name && i.app == m.name) = true →
      configureBuild ev st b c.name m a.cli = .ok (.build i) := by
    intro i hi hp
    obtain ⟨c', m', hm', hc', hb', ha'⟩ := generate_build_origin hg ht hi
    rw [Bool.and_eq_true] at hp
    have e1 : c'.name = c.name := hb' ▸ eq_of_beq hp.1
    have e2 : m'.name = m.name := ha' ▸ eq_of_beq hp.2
    have e3 : m' = m := huniq (c', m') hm' e1 e2
    rw [e1, e3] at hc'
    exact hc'
  unfold buildFor buildOf
  rw [ho]
  cases o with
  | build i =>
    have ids := built_ids ho
    apply find?_eq_some_of_unique (hb i rfl)
    · rw [ids.1, ids.2]; simp
    · intro y hy hp
      have := hall y hy hp
      rw [ho] at this
      cases this; rfl
  | noBuild nb =>
    rw [List.find?_eq_none]
    intro y hy hp
    have := hall y hy (by simpa using hp)
    rw [ho] at this
    cases this

/-- two runs, look-up form -/
theorem same_buildFor {ev h st b a₁ a₂ r₁ r₂ t₁ t₂} {c : Context} {m : Module}
    (g₁ : generate ev h st b a₁ = .ok (.done r₁)) (g₂ : generate ev h st b a₂ = .ok (.done r₂))
    (hcli : a₁.cli = a₂.cli)
    (ht₁ : buildTuples h b a₁ = .ok t₁) (ht₂ : buildTuples h b a₂ = .ok t₂)
    (m₁ : (c, m) ∈ t₁) (m₂ : (c, m) ∈ t₂)
    (u₁ : ∀ p ∈ t₁, p.1.name = c.name → p.2.name = m.name → p.2 = m)
    (u₂ : ∀ p ∈ t₂, p.1.name = c.name → p.2.name = m.name → p.2 = m) :
    buildFor r₁ c.name m.name = buildFor r₂ c.name m.name := by
  rw [buildFor_eq g₁ ht₁ m₁ u₁, buildFor_eq g₂ ht₂ m₂ u₂, hcli]

/-! ### 2. `entries_subset` -/

/-- **entries_subset**: every statement of every configured build is in the combined file, the
    combined file has no duplicates, and contains nothing else. -/
theorem entries_subset {ev h st b a r} (hg : generate ev h st b a = .ok (.done r)) :
    (∀ i ∈ r.builds, ∀ e ∈ i.entries, e ∈ r.entries) ∧ r.entries.Nodup ∧
      (∀ e ∈ r.entries, ∃ i ∈ r.builds, e ∈ i.entries) := by
  obtain ⟨_, _, _, _, he⟩ := generate_done hg
  rw [he]
  refine ⟨?_, nodup_combine _ List.nodup_nil, ?_⟩
  · intro i hi e hee
    exact (mem_combine _ _ _).mpr (Or.inr ⟨i, hi, hee⟩)
  · intro e hee
    rcases (mem_combine _ _ _).mp hee with h | h
    · cases h
    · exact h

/-- the combined file is the first-occurrence de-duplication of the concatenated builds -/
theorem entries_eq_dedup {ev h st b a r} (hg : generate ev h st b a = .ok (.done r)) :
    r.entries = dedup (r.builds.flatMap (·.entries)) := by
  obtain ⟨_, _, _, _, he⟩ := generate_done hg
  rw [he, combine_eq_dedup]

/-! ## 3. Selection -/

/-- the mode as a predicate on binaries -/
def modePred : Mode → Module → Bool
  | .global, _ => true
  | .local dir, m => m.relpath == dir

theorem selectedBins_ok {b apps mode l} (h : selectedBins b apps mode = .ok l) :
    l = (b.bins.filter (fun m => apps.selects m.name)).filter (modePred mode) := by
  unfold selectedBins at h
  dsimp only at h
  cases apps <;> cases mode <;> dsimp only at h
  · cases h; exact (List.filter_eq_self.mpr (fun _ _ => rfl)).symm
  · cases h; rfl
  · split at h
    · cases h
    · cases h; exact (List.filter_eq_self.mpr (fun _ _ => rfl)).symm
  · split at h
    · cases h
    · split at h
      · cases h
      · cases h; rfl

theorem filter_all_selects (l : List Module) :
    List.filter (fun m => Selector.all.selects m.name) l = l :=
  List.filter_eq_self.mpr (fun _ _ => rfl)

theorem selectedBins_all_global (b : Bag) : selectedBins b .all .global = .ok b.bins := by
  unfold selectedBins
  dsimp only
  rw [filter_all_selects]; rfl

theorem selectedBins_all_local (b : Bag) (dir : String) :
    selectedBins b .all (.local dir) = .ok (b.bins.filter (fun m => m.relpath == dir)) := by
  unfold selectedBins
  dsimp only
  rw [filter_all_selects]; rfl

/-- **local_is_filter**: local mode keeps, of the globally selected binaries, those defined in the
    current directory (when it does not fail) -/
theorem local_is_filter {b apps dir l} (h : selectedBins b apps (.local dir) = .ok l) :
    ∃ g, selectedBins b apps .global = .ok g ∧ l = g.filter (fun m => m.relpath == dir) := by
  cases apps with
  | all =>
    rw [selectedBins_all_local] at h
    cases h
    exact ⟨_, selectedBins_all_global b, rfl⟩
  | some as =>
    have hl := selectedBins_ok h
    refine ⟨b.bins.filter (fun m => (Selector.some as).selects m.name), ?_, hl⟩
    unfold selectedBins at h ⊢
    dsimp only at h ⊢
    split at h
    · cases h
    · rename_i hk
      rw [if_neg hk]; rfl

/-- with an explicit `--apps` list, local mode fails only when a listed name has no definition in the start directory: every binary
    that global mode selects and local mode drops has a namesake that local mode keeps (before the repair a name defined in the start
    directory AND elsewhere made the cold run fail while a cache written by a wider run served it, C08) -/
theorem local_some_dropped_has_namesake {b as dir l} (h : selectedBins b (.some as) (.local dir) = .ok l) :
    ∀ m ∈ b.bins, (Selector.some as).selects m.name = true → m ∉ l → ∃ m' ∈ l, m'.name = m.name := by
  have hl := selectedBins_ok h
  unfold selectedBins at h
  dsimp only at h
  split at h
  · cases h
  · split at h
    · cases h
    · rename_i hout
      intro m hm hsel hnot
      have hempty : List.filter (fun m => m.relpath != dir && !((List.filter (fun m => (Selector.some as).selects m.name) b.bins).any
            (fun m' => m'.relpath == dir && m'.name == m.name)))
          (List.filter (fun m => (Selector.some as).selects m.name) b.bins) = [] := by
        simpa using hout
      rw [List.filter_eq_nil_iff] at hempty
      have hm' : m ∈ List.filter (fun m => (Selector.some as).selects m.name) b.bins := List.mem_filter.mpr ⟨hm, hsel⟩
      have hd : m.relpath ≠ dir := by
        intro hd
        apply hnot
        rw [hl]
        exact List.mem_filter.mpr ⟨hm', by simp [modePred, hd]⟩
      have := hempty m hm'
      simp only [Bool.and_eq_true, bne_iff_ne, ne_eq, hd, not_false_eq_true, Bool.not_eq_eq_eq_not, Bool.not_true, true_and,
        Bool.not_eq_false] at this
      obtain ⟨m', hm'in, hm'p⟩ := List.any_eq_true.mp this
      simp only [Bool.and_eq_true, beq_iff_eq] at hm'p
      refine ⟨m', ?_, hm'p.2⟩
      rw [hl]
      exact List.mem_filter.mpr ⟨hm'in, by simp [modePred, hm'p.1]⟩

/-- **selected_subset (apps)**: `--apps as` selects, of the binaries selected without it, exactly
    those named in `as` (same order) -/
theorem apps_is_filter {b as mode l} (h : selectedBins b (.some as) mode = .ok l) :
    ∃ g, selectedBins b .all mode = .ok g ∧ l = g.filter (fun m => as.contains m.name) := by
  have hl := selectedBins_ok h
  cases mode with
  | global =>
    refine ⟨_, selectedBins_all_global b, ?_⟩
    rw [hl]
    exact List.filter_eq_self.mpr (fun _ _ => rfl)
  | «local» dir =>
    refine ⟨_, selectedBins_all_local b dir, ?_⟩
    rw [hl, List.filter_filter, List.filter_filter]
    apply List.filter_congr
    intro m _
    simp only [modePred, Selector.selects]
    exact Bool.and_comm _ _

/-! ### `--builders` -/

theorem mapM_ok_cons {f : α → Except ε β} {x : α} {xs : List α} {out : List β} :
    (x :: xs).mapM f = .ok out ↔ ∃ y ys, f x = .ok y ∧ xs.mapM f = .ok ys ∧ out = y :: ys := by
  rw [List.mapM_cons]
  cases hx : f x with
  | error e => simp [bind, Except.bind]
  | ok y =>
    cases hxs : xs.mapM f with
    | error e => simp [bind, Except.bind]
    | ok ys => simp [bind, Except.bind, pure, Except.pure, eq_comm]

/-- a successful `mapM` in `Except` relates input and output pointwise -/
theorem mapM_ok {f : α → Except ε β} : ∀ {l : List α} {out : List β}, l.mapM f = .ok out →
    (∀ y ∈ out, ∃ x ∈ l, f x = .ok y) ∧ (∀ x ∈ l, ∃ y ∈ out, f x = .ok y) ∧
    (∀ g : β → α, (∀ x y, f x = .ok y → g y = x) → out.map g = l) := by
  intro l
  induction l with
  | nil =>
    intro out h
    rw [List.mapM_nil] at h
    cases h
    exact ⟨fun _ h => (by cases h), fun _ h => (by cases h), fun _ _ => rfl⟩
  | cons x xs ih =>
    intro out h
    obtain ⟨y, ys, hx, hxs, rfl⟩ := mapM_ok_cons.mp h
    obtain ⟨i1, i2, i3⟩ := ih hxs
    refine ⟨?_, ?_, ?_⟩
    · intro z hz
      rcases List.mem_cons.mp hz with rfl | hz
      · exact ⟨x, List.mem_cons_self, hx⟩
      · obtain ⟨w, hw, hf⟩ := i1 z hz
        exact ⟨w, List.mem_cons_of_mem _ hw, hf⟩
    · intro z hz
      rcases List.mem_cons.mp hz with rfl | hz
      · exact ⟨y, List.mem_cons_self, hx⟩
      · obtain ⟨w, hw, hf⟩ := i2 z hz
        exact ⟨w, List.mem_cons_of_mem _ hw, hf⟩
    · intro g hg
      rw [List.map_cons, hg x y hx, i3 g hg]

/-- the per-name look-up of `builders_by_name` -/
def pickBuilder (b : Bag) (n : String) : Except GErr Context :=
  match b.ctx? n with
  | some c => if c.isBuilder then .ok c else .error (.error "context is not a build context")
  | none => .error (.error "unknown builder")

theorem selectedBuilders_some (b : Bag) (names : List String) :
    selectedBuilders b (.some names) = (dedup names).mapM (pickBuilder b) := rfl

theorem pickBuilder_ok {b : Bag} {n : String} {c : Context} (h : pickBuilder b n = .ok c) :
    b.ctx? n = some c ∧ c.isBuilder = true := by
  unfold pickBuilder at h
  split at h
  · split at h
    · rename_i hc hb; cases h; exact ⟨hc, hb⟩
    · cases h
  · cases h

theorem ctx?_some {b : Bag} {n : String} {c : Context} (h : b.ctx? n = some c) :
    c ∈ b.contexts ∧ c.name = n := by
  unfold Bag.ctx? at h
  have hp := List.find?_some h
  exact ⟨List.mem_of_find?_eq_some h, eq_of_beq hp⟩

theorem ctx?_of_nodup {b : Bag} (hn : (b.contexts.map (·.name)).Nodup) {c : Context}
    (hc : c ∈ b.contexts) : b.ctx? c.name = some c := by
  unfold Bag.ctx?
  apply find?_eq_some_of_unique hc (by simp)
  intro y hy hp
  have hyn : y.name = c.name := eq_of_beq hp
  generalize b.contexts = l at hn hc hy
  induction l with
  | nil => cases hc
  | cons z zs ih =>
    rw [List.map_cons, List.nodup_cons] at hn
    rcases List.mem_cons.mp hc with rfl | hc' <;> rcases List.mem_cons.mp hy with rfl | hy'
    · rfl
    · exact absurd (List.mem_map.mpr ⟨y, hy', hyn⟩) hn.1
    · exact absurd (List.mem_map.mpr ⟨c, hc', hyn.symm⟩) hn.1
    · exact ih hn.2 hc' hy'

theorem mem_builders {b : Bag} {c : Context} : c ∈ b.builders ↔ c ∈ b.contexts ∧ c.isBuilder = true := by
  unfold Bag.builders; exact List.mem_filter

/-- **selected_subset (builders)**, soundness and order: `--builders bs` selects only builders
    named in `bs`; their names, in order, are `bs` without repetitions. -/
theorem selectedBuilders_some_sound {b : Bag} {bs : List String} {l : List Context}
    (h : selectedBuilders b (.some bs) = .ok l) :
    (∀ c ∈ l, c ∈ b.builders ∧ c.name ∈ bs) ∧ l.map (·.name) = dedup bs := by
  rw [selectedBuilders_some] at h
  obtain ⟨i1, _, i3⟩ := mapM_ok h
  refine ⟨?_, ?_⟩
  · intro c hc
    obtain ⟨n, hn, hf⟩ := i1 c hc
    obtain ⟨hctx, hb⟩ := pickBuilder_ok hf
    obtain ⟨hmem, hname⟩ := ctx?_some hctx
    exact ⟨mem_builders.mpr ⟨hmem, hb⟩, hname ▸ (mem_dedup bs n).mp hn⟩
  · exact i3 (·.name) (fun n c hf => (ctx?_some (pickBuilder_ok hf).1).2)

/-- completeness needs unique context names (which `Bag.ctx?` presupposes) -/
theorem selectedBuilders_some_complete {b : Bag} (hn : (b.contexts.map (·.name)).Nodup)
    {bs : List String} {l : List Context} (h : selectedBuilders b (.some bs) = .ok l)
    {c : Context} (hc : c ∈ b.builders) (hbs : c.name ∈ bs) : c ∈ l := by
  rw [selectedBuilders_some] at h
  obtain ⟨_, i2, _⟩ := mapM_ok h
  obtain ⟨c', hc', hf⟩ := i2 c.name ((mem_dedup bs _).mpr hbs)
  have h1 := (pickBuilder_ok hf).1
  rw [ctx?_of_nodup hn (mem_builders.mp hc).1] at h1
  cases h1
  exact hc'

/-- **selected_subset (builders)** as a membership equivalence -/
theorem selectedBuilders_some_iff {b : Bag} (hn : (b.contexts.map (·.name)).Nodup)
    {bs : List String} {l : List Context} (h : selectedBuilders b (.some bs) = .ok l) (c : Context) :
    c ∈ l ↔ c ∈ b.builders ∧ c.name ∈ bs :=
  ⟨(selectedBuilders_some_sound h).1 c, fun ⟨h1, h2⟩ => selectedBuilders_some_complete hn h h1 h2⟩

/-! ### tuples -/

/-- builders × binaries, builder-major -/
def product (bs : List Context) (bins : List Module) : List (Context × Module) :=
  bs.flatMap (fun c => bins.map (fun m => (c, m)))

theorem mem_product {bs : List Context} {bins : List Module} {p : Context × Module} :
    p ∈ product bs bins ↔ p.1 ∈ bs ∧ p.2 ∈ bins := by
  obtain ⟨c, m⟩ := p
  unfold product
  rw [List.mem_flatMap]
  constructor
  · rintro ⟨c', hc', hm⟩
    obtain ⟨m', hm', he⟩ := List.mem_map.mp hm
    cases he
    exact ⟨hc', hm'⟩
  · rintro ⟨hc, hm⟩
    exact ⟨c, hc, List.mem_map.mpr ⟨m, hm, rfl⟩⟩

theorem product_filter_right (bs : List Context) (bins : List Module) (q : Module → Bool) :
    product bs (bins.filter q) = (product bs bins).filter (fun p => q p.2) := by
  unfold product
  rw [List.filter_flatMap]
  congr 1
  funext c
  rw [List.filter_map]
  rfl

theorem buildTuples_ok {h b a t} : buildTuples h b a = .ok t ↔
    ∃ bs bins, selectedBuilders b a.builders = .ok bs ∧ selectedBins b a.apps a.mode = .ok bins ∧
      t = applyPartition h a.partition (product bs bins) := by
  unfold buildTuples product
  cases selectedBuilders b a.builders with
  | error e => simp [bind, Except.bind]
  | ok bs =>
    cases selectedBins b a.apps a.mode with
    | error e => simp [bind, Except.bind]
    | ok bins => simp [bind, Except.bind, pure, Except.pure, eq_comm]

/-- the unrestricted tuple list -/
def fullTuples (b : Bag) : List (Context × Module) := product b.builders b.bins

theorem buildTuples_full (h : String → Nat) (b : Bag) (cli : Cli) :
    buildTuples h b { cli := cli } = .ok (fullTuples b) :=
  buildTuples_ok.mpr ⟨b.builders, b.bins, rfl, selectedBins_all_global b, rfl⟩

/-- whatever the selection, mode and partition: the configured tuples are tuples of the
    unrestricted global run -/
theorem tuples_subset_full {h b a t} (ht : buildTuples h b a = .ok t) :
    ∀ p ∈ t, p ∈ fullTuples b := by
  obtain ⟨bs, bins, hbs, hbins, rfl⟩ := buildTuples_ok.mp ht
  intro p hp
  have hp' := (applyPartition_sublist h a.partition _).subset hp
  rw [mem_product] at hp'
  unfold fullTuples
  rw [mem_product]
  constructor
  · cases hsel : a.builders with
    | all => rw [hsel] at hbs; cases hbs; exact hp'.1
    | some names => rw [hsel] at hbs; exact ((selectedBuilders_some_sound hbs).1 _ hp'.1).1
  · rw [selectedBins_ok hbins] at hp'
    exact (List.mem_filter.mp (List.mem_filter.mp hp'.2).1).1

/-- the per-tuple predicate of the partitions that have one -/
def partPred (h : String → Nat) : Option Partition → Context × Module → Bool
  | some (.hash s t), p => h (p.1.name ++ p.2.name) % t == s - 1
  | _, _ => true

def notCount : Option Partition → Prop
  | some (.count _ _) => False
  | _ => True

theorem applyPartition_filter {h p} (hp : notCount p) (l : List (Context × Module)) :
    applyPartition h p l = l.filter (partPred h p) := by
  unfold applyPartition
  split
  · exact (List.filter_eq_self.mpr (fun _ _ => rfl)).symm
  · exact absurd hp (by simp [notCount])
  · rfl

/-- restricting the binaries by a predicate restricts the tuples by it (no partition, or `hash:`) -/
theorem tuples_filter_bins {h p} (hp : notCount p) (bs : List Context) (g : List Module) (q : Module → Bool) :
    applyPartition h p (product bs (g.filter q)) = (applyPartition h p (product bs g)).filter (fun x => q x.2) := by
  rw [applyPartition_filter hp, applyPartition_filter hp, product_filter_right,
    List.filter_filter, List.filter_filter]
  apply List.filter_congr
  intro x _
  exact Bool.and_comm _ _

/-- **selected_subset (apps)** for tuples: without a `count:` partition, `--apps as` configures,
    of the tuples configured without it, exactly those whose app is named in `as` (same order). -/
theorem selected_subset_apps {h b a as t} (happs : a.apps = .some as) (hp : notCount a.partition)
    (ht : buildTuples h b a = .ok t) :
    ∃ t', buildTuples h b { a with apps := .all } = .ok t' ∧
      t = t'.filter (fun p => as.contains p.2.name) := by
  obtain ⟨bs, bins, hbs, hbins, rfl⟩ := buildTuples_ok.mp ht
  rw [happs] at hbins
  obtain ⟨g, hg, rfl⟩ := apps_is_filter hbins
  exact ⟨_, buildTuples_ok.mpr ⟨bs, g, hbs, hg, rfl⟩, tuples_filter_bins hp bs g _⟩

/-- **local mode** for tuples: without a `count:` partition, local mode configures, of the tuples
    of the global run with the same selectors, exactly those whose app is defined in `dir`. -/
theorem local_tuples {h b a dir t} (hmode : a.mode = .local dir) (hp : notCount a.partition)
    (ht : buildTuples h b a = .ok t) :
    ∃ t', buildTuples h b { a with mode := .global } = .ok t' ∧
      t = t'.filter (fun p => p.2.relpath == dir) := by
  obtain ⟨bs, bins, hbs, hbins, rfl⟩ := buildTuples_ok.mp ht
  rw [hmode] at hbins
  obtain ⟨g, hg, rfl⟩ := local_is_filter hbins
  exact ⟨_, buildTuples_ok.mpr ⟨bs, g, hbs, hg, rfl⟩, tuples_filter_bins hp bs g _⟩

/-- **selected_subset (builders)** for tuples: without a `count:` partition, `--builders bs`
    configures only tuples of the run without it whose builder is named in `bs`; and all of them
    when context names are unique. (The order is that of `bs`, not that of the bag.) -/
theorem selected_subset_builders {h b a names t} (hb : a.builders = .some names)
    (hp : notCount a.partition) (ht : buildTuples h b a = .ok t) :
    ∃ t', buildTuples h b { a with builders := .all } = .ok t' ∧
      (∀ p ∈ t, p ∈ t' ∧ p.1.name ∈ names) ∧
      ((b.contexts.map (·.name)).Nodup → ∀ p ∈ t', p.1.name ∈ names → p ∈ t) := by
  obtain ⟨bs, bins, hbs, hbins, rfl⟩ := buildTuples_ok.mp ht
  rw [hb] at hbs
  refine ⟨_, buildTuples_ok.mpr ⟨b.builders, bins, rfl, hbins, rfl⟩, ?_, ?_⟩
  · intro p hpm
    dsimp only
    rw [applyPartition_filter hp, List.mem_filter, mem_product] at hpm ⊢
    have := (selectedBuilders_some_sound hbs).1 _ hpm.1.1
    exact ⟨⟨⟨this.1, hpm.1.2⟩, hpm.2⟩, this.2⟩
  · intro hn p hpm hname
    dsimp only at hpm
    rw [applyPartition_filter hp, List.mem_filter, mem_product] at hpm ⊢
    exact ⟨⟨selectedBuilders_some_complete hn hbs hpm.1.1 hname, hpm.1.2⟩, hpm.2⟩

/-! ### C10, first sentence, in one statement -/

/-- **C10 (independence of the selection)**: take any successful run — any `--builders`, `--apps`,
    `--partition`, global or local mode — and the successful unrestricted global run with the same
    command-line overrides.  Every tuple configured by the former is a tuple of the latter, with
    the same outcome in both, and if it is a build, the very same `BuildInfo` (hence the same
    statements) is in both `builds` lists. -/
theorem same_as_full_run {ev h st b a r r₀ t} {c : Context} {m : Module}
    (hg : generate ev h st b a = .ok (.done r))
    (hg₀ : generate ev h st b { cli := a.cli } = .ok (.done r₀))
    (ht : buildTuples h b a = .ok t) (hm : (c, m) ∈ t) :
    (c, m) ∈ fullTuples b ∧
    ∃ o, configureBuild ev st b c.name m a.cli = .ok o ∧
      (c.name, m.name, o) ∈ r.outcomes ∧ (c.name, m.name, o) ∈ r₀.outcomes ∧
      ∀ i, o = .build i → i ∈ r.builds ∧ i ∈ r₀.builds ∧
        (∀ e ∈ i.entries, e ∈ r.entries ∧ e ∈ r₀.entries) := by
  have hfull := tuples_subset_full ht _ hm
  refine ⟨hfull, ?_⟩
  obtain ⟨o, ho, x₁, x₂, hb⟩ :=
    same_build hg hg₀ rfl ht (buildTuples_full h b a.cli) hm hfull
  refine ⟨o, ho, x₁, x₂, ?_⟩
  intro i hi
  obtain ⟨b₁, b₂⟩ := hb i hi
  exact ⟨b₁, b₂, fun e he => ⟨(entries_subset hg).1 i b₁ e he, (entries_subset hg₀).1 i b₂ e he⟩⟩

/-- every tuple is in some shard (from the cover theorems) -/
theorem count_shard_exists (hf : String → Nat) (N : Nat) (hN : 1 ≤ N) (tuples : List (Context × Module))
    {p : Context × Module} (hp : p ∈ tuples) :
    ∃ k, 1 ≤ k ∧ k ≤ N ∧ p ∈ applyPartition hf (some (.count k N)) tuples := by
  have := (applyPartition_count_cover hf N hN tuples).mem_iff.mpr hp
  obtain ⟨k, hk, hm⟩ := List.mem_flatMap.mp this
  exact ⟨k + 1, by omega, Nat.succ_le_of_lt (List.mem_range.mp hk), hm⟩

theorem hash_shard_exists (hf : String → Nat) (N : Nat) (hN : 1 ≤ N) (tuples : List (Context × Module))
    {p : Context × Module} (hp : p ∈ tuples) :
    ∃ k, 1 ≤ k ∧ k ≤ N ∧ p ∈ applyPartition hf (some (.hash k N)) tuples := by
  have := (applyPartition_hash_cover hf N hN tuples).mem_iff.mpr hp
  obtain ⟨k, hk, hm⟩ := List.mem_flatMap.mp this
  exact ⟨k + 1, by omega, Nat.succ_le_of_lt (List.mem_range.mp hk), hm⟩

/-- the `hash:` shards are disjoint as sets of tuples: a tuple is in at most one of them -/
theorem hash_shard_unique (hf : String → Nat) (N k₁ k₂ : Nat) (h₁ : 1 ≤ k₁) (h₂ : 1 ≤ k₂)
    (tuples : List (Context × Module)) {p : Context × Module}
    (m₁ : p ∈ applyPartition hf (some (.hash k₁ N)) tuples)
    (m₂ : p ∈ applyPartition hf (some (.hash k₂ N)) tuples) : k₁ = k₂ := by
  unfold applyPartition at m₁ m₂
  dsimp only at m₁ m₂
  have a₁ := eq_of_beq (List.mem_filter.mp m₁).2
  have a₂ := eq_of_beq (List.mem_filter.mp m₂).2
  omega

/-! ### `--builders` as a permutation -/

theorem product_filter_left (bs : List Context) (bins : List Module) (q : Context → Bool) :
    product (bs.filter q) bins = (product bs bins).filter (fun p => q p.1) := by
  unfold product
  induction bs with
  | nil => rfl
  | cons c cs ih =>
    rw [List.filter_cons, List.flatMap_cons, List.filter_append, ← ih]
    cases hq : q c with
    | true =>
      rw [if_pos rfl, List.flatMap_cons]
      congr 1
      rw [List.filter_map]
      symm
      congr 1
      exact List.filter_eq_self.mpr (fun _ _ => hq)
    | false =>
      rw [if_neg (by simp)]
      have : List.filter (fun p => q p.1) (List.map (fun m => (c, m)) bins) = [] := by
        rw [List.filter_map]
        have : List.filter ((fun p => q p.1) ∘ fun m => (c, m)) bins = [] :=
          List.filter_eq_nil_iff.mpr (fun _ _ => by simp [hq])
        rw [this]; rfl
      rw [this]; rfl

theorem nodup_of_map_nodup {f : α → β} : ∀ {l : List α}, (l.map f).Nodup → l.Nodup := by
  intro l
  induction l with
  | nil => intro _; exact List.nodup_nil
  | cons x xs ih =>
    intro h
    rw [List.map_cons, List.nodup_cons] at h
    rw [List.nodup_cons]
    exact ⟨fun hx => h.1 (List.mem_map.mpr ⟨x, hx, rfl⟩), ih h.2⟩

/-- with unique context names, `--builders bs` selects a permutation of the builders named in `bs` -/
theorem selectedBuilders_perm {b : Bag} (hn : (b.contexts.map (·.name)).Nodup)
    {bs : List String} {l : List Context} (h : selectedBuilders b (.some bs) = .ok l) :
    l.Perm (b.builders.filter (fun c => bs.contains c.name)) := by
  have hl : l.Nodup := by
    apply nodup_of_map_nodup (f := (·.name))
    rw [(selectedBuilders_some_sound h).2]
    exact nodup_dedup bs
  have hr : (b.builders.filter (fun c => bs.contains c.name)).Nodup := by
    unfold Bag.builders
    exact ((nodup_of_map_nodup hn).sublist List.filter_sublist).sublist List.filter_sublist
  rw [List.perm_ext_iff_of_nodup hl hr]
  intro c
  rw [selectedBuilders_some_iff hn h, List.mem_filter, List.contains_iff_mem]

/-- **selected_subset (builders)**, strongest form: with unique context names and no `count:`
    partition, the tuples of `--builders bs` are a permutation of the tuples of the unrestricted
    run whose builder is named in `bs`. -/
theorem selected_subset_builders_perm {h b a names t} (hn : (b.contexts.map (·.name)).Nodup)
    (hb : a.builders = .some names) (hp : notCount a.partition) (ht : buildTuples h b a = .ok t) :
    ∃ t', buildTuples h b { a with builders := .all } = .ok t' ∧
      t.Perm (t'.filter (fun p => names.contains p.1.name)) := by
  obtain ⟨bs, bins, hbs, hbins, rfl⟩ := buildTuples_ok.mp ht
  rw [hb] at hbs
  refine ⟨_, buildTuples_ok.mpr ⟨b.builders, bins, rfl, hbins, rfl⟩, ?_⟩
  dsimp only
  rw [applyPartition_filter hp, applyPartition_filter hp, List.filter_filter]
  have h1 : (product bs bins).Perm (product (b.builders.filter (fun c => names.contains c.name)) bins) :=
    List.Perm.flatMap_right _ (selectedBuilders_perm hn hbs)
  rw [product_filter_left] at h1
  have h2 := h1.filter (partPred h a.partition)
  rw [List.filter_filter] at h2
  refine h2.trans (List.Perm.of_eq ?_)
  apply List.filter_congr
  intro x _
  exact Bool.and_comm _ _

theorem eq_of_nodup_map {f : α → β} : ∀ {l : List α}, (l.map f).Nodup → ∀ {x y : α}, x ∈ l → y ∈ l →
    f x = f y → x = y := by
  intro l
  induction l with
  | nil => intro _ x y hx; cases hx
  | cons z zs ih =>
    intro hn x y hx hy hxy
    rw [List.map_cons, List.nodup_cons] at hn
    rcases List.mem_cons.mp hx with rfl | hx' <;> rcases List.mem_cons.mp hy with rfl | hy'
    · rfl
    · exact absurd (List.mem_map.mpr ⟨y, hy', hxy.symm⟩) hn.1
    · exact absurd (List.mem_map.mpr ⟨x, hx', hxy⟩) hn.1
    · exact ih hn.2 hx' hy' hxy

/-- the uniqueness hypothesis of `buildFor_eq` / `same_buildFor` holds in every run when the
    binaries of the bag have distinct names -/
theorem apps_unique_of_nodup {h b a t} (hn : (b.bins.map (·.name)).Nodup)
    (ht : buildTuples h b a = .ok t) {c : Context} {m : Module} (hm : (c, m) ∈ t) :
    ∀ p ∈ t, p.1.name = c.name → p.2.name = m.name → p.2 = m := by
  intro p hp _ hname
  have h1 := tuples_subset_full ht p hp
  have h2 := tuples_subset_full ht _ hm
  unfold fullTuples at h1 h2
  rw [mem_product] at h1 h2
  exact eq_of_nodup_map hn h1.2 h2.2 hname

/-- **C10, look-up form**: when binaries have distinct names, the `BuildInfo` recorded under
    `(builder, app)` by any successful run that selects this pair equals the one recorded by the
    unrestricted run. -/
theorem buildFor_same_as_full_run {ev h st b a r r₀ t} {c : Context} {m : Module}
    (hn : (b.bins.map (·.name)).Nodup)
    (hg : generate ev h st b a = .ok (.done r))
    (hg₀ : generate ev h st b { cli := a.cli } = .ok (.done r₀))
    (ht : buildTuples h b a = .ok t) (hm : (c, m) ∈ t) :
    buildFor r c.name m.name = buildFor r₀ c.name m.name :=
  have ht₀ := buildTuples_full h b a.cli
  have hm₀ := tuples_subset_full ht _ hm
  same_buildFor hg hg₀ rfl ht ht₀ hm hm₀ (apps_unique_of_nodup hn ht hm) (apps_unique_of_nodup hn ht₀ hm₀)

/-! ## non-vacuity: a concrete project with two builders and two apps (one in a sub-directory) -/
namespace Example

def exBag : Bag := { contexts := [
  { name := "default", parent := none,
    rules := some [{ name := "LINK", cmd := "ld ${in} -o ${out}", in_ := some "o" }],
    modules := [{ name := "context::default", contextName := "default" },
                { name := "app1", contextName := "default", isBinary := true },
                { name := "app2", contextName := "default", isBinary := true, relpath := "sub" }] },
  { name := "b1", parent := some "default", isBuilder := true,
    modules := [{ name := "context::b1", contextName := "b1", selects := [.hard "context::default"] }] },
  { name := "b2", parent := some "default", isBuilder := true,
    modules := [{ name := "context::b2", contextName := "b2", selects := [.hard "context::default"] }] } ] }

def exEv : EvalExpr := fun x => .ok x
def exH : String → Nat := fun s => s.length

def isDone (o : Except GErr GenOutcome) : Bool := match o with | .ok (.done _) => true | _ => false

theorem isDone_elim {o : Except GErr GenOutcome} (h : isDone o = true) : ∃ r, o = .ok (.done r) := by
  unfold isDone at h
  split at h
  · exact ⟨_, rfl⟩
  · cases h

/-- the first selected tuple exists and is configured to a build -/
def headBuilds (a : Args) : Bool :=
  match buildTuples exH exBag a with
  | .ok ((c, m) :: _) => (match configureBuild exEv {} exBag c.name m a.cli with | .ok (.build _) => true | _ => false)
  | _ => false

theorem headBuilds_elim {a : Args} (h : headBuilds a = true) :
    ∃ t c m i, buildTuples exH exBag a = .ok t ∧ (c, m) ∈ t ∧
      configureBuild exEv {} exBag c.name m a.cli = .ok (.build i) := by
  unfold headBuilds at h
  split at h
  · rename_i c m rest ht
    split at h
    · rename_i i hi
      exact ⟨_, c, m, i, ht, List.mem_cons_self, hi⟩
    · cases h
  · cases h

/-- the restricted runs used below: a subset, a `count:` shard, a `hash:` shard, local mode -/
def exSubset : Args := { builders := .some ["b2", "b2"], apps := .some ["app2"] }
def exCount : Args := { partition := some (.count 2 3) }
def exHash : Args := { partition := some (.hash 1 2) }
def exLocal : Args := { mode := .local "sub" }

example : isDone (generate exEv exH {} exBag {}) = true := by decide +kernel
example : ((buildTuples exH exBag {}).toOption.map (·.map (fun p => (p.1.name, p.2.name))))
    = some [("b1", "app1"), ("b1", "app2"), ("b2", "app1"), ("b2", "app2")] := by decide
example : ((buildTuples exH exBag exSubset).toOption.map (·.map (fun p => (p.1.name, p.2.name))))
    = some [("b2", "app2")] := by decide
example : ((buildTuples exH exBag exCount).toOption.map (·.map (fun p => (p.1.name, p.2.name))))
    = some [("b1", "app2")] := by decide
example : ((buildTuples exH exBag exLocal).toOption.map (·.map (fun p => (p.1.name, p.2.name))))
    = some [("b1", "app2"), ("b2", "app2")] := by decide

/-- the hypotheses of `same_as_full_run` (hence of `same_build`, `generate_tuple`, `entries_subset`)
    are satisfiable, with a tuple that really is configured to a build, for each kind of
    restriction -/
theorem hyps_satisfiable (a : Args) (hcli : isDone (generate exEv exH {} exBag { cli := a.cli }) = true)
    (hd : isDone (generate exEv exH {} exBag a) = true) (hb : headBuilds a = true) :
    ∃ r r₀ t c m i, generate exEv exH {} exBag a = .ok (.done r) ∧
      generate exEv exH {} exBag { cli := a.cli } = .ok (.done r₀) ∧
      buildTuples exH exBag a = .ok t ∧ (c, m) ∈ t ∧
      configureBuild exEv {} exBag c.name m a.cli = .ok (.build i) ∧
      i ∈ r.builds ∧ i ∈ r₀.builds := by
  obtain ⟨r, hr⟩ := isDone_elim hd
  obtain ⟨r₀, hr₀⟩ := isDone_elim hcli
  obtain ⟨t, c, m, i, ht, hm, hi⟩ := headBuilds_elim hb
  obtain ⟨_, o, ho, _, _, hbi⟩ := same_as_full_run hr hr₀ ht hm
  rw [hi] at ho
  cases ho
  exact ⟨r, r₀, t, c, m, i, hr, hr₀, ht, hm, hi, (hbi i rfl).1, (hbi i rfl).2.1⟩

example := hyps_satisfiable exSubset (by decide +kernel) (by decide +kernel) (by decide +kernel)
example := hyps_satisfiable exCount (by decide +kernel) (by decide +kernel) (by decide +kernel)
example := hyps_satisfiable exHash (by decide +kernel) (by decide +kernel) (by decide +kernel)
example := hyps_satisfiable exLocal (by decide +kernel) (by decide +kernel) (by decide +kernel)

/-- independent sanity check by evaluation: the statements recorded for (b2, app2) by the subset
    run and by the full run coincide, and there are some -/
example :
    (match generate exEv exH {} exBag exSubset, generate exEv exH {} exBag {} with
     | .ok (.done r), .ok (.done r₀) =>
       (buildFor r "b2" "app2").map (·.entries) == (buildFor r₀ "b2" "app2").map (·.entries) &&
       ((buildFor r "b2" "app2").map (·.entries.length)) == some 2
     | _, _ => false) = true := by decide +kernel

/-- selection: names in the order of `bs`, duplicates dropped -/
example : (selectedBuilders exBag (.some ["b2", "b2", "b1"])).toOption.map (·.map (·.name))
    = some ["b2", "b1"] := by decide
example : (selectedBuilders exBag (.some ["default"])).toOption.isNone = true := by decide
example : (exBag.contexts.map (·.name)).Nodup := by decide
/-- local mode -/
example : (selectedBins exBag .all (.local "sub")).toOption.map (·.map (·.name)) = some ["app2"] := by decide
example : (selectedBins exBag (.some ["app2"]) (.local "sub")).toOption.map (·.map (·.name)) = some ["app2"] := by
  decide
example : (selectedBins exBag (.some ["app1"]) (.local "sub")).toOption.isNone = true := by decide

/-- `selectedBuilders_some_complete` needs unique context names: with two builders called "x"
    (impossible after loading, but not excluded by the type `Bag`) only the first is selected -/
def dupBag : Bag := { contexts := [
  { name := "x", parent := none, isBuilder := true, definedIn := "one" },
  { name := "x", parent := none, isBuilder := true, definedIn := "two" } ] }
example : (selectedBuilders dupBag (.some ["x"])).toOption.map (·.map (·.definedIn)) = some ["one"] ∧
    (dupBag.builders.filter (fun c => ["x"].contains c.name)).map (·.definedIn) = ["one", "two"] := by decide

/-- `count:` partitions do not commute with selection (the counter runs over the selected tuples):
    (b2, app2) is in `count:1/2` of the subset run but in `count:2/2` of the full run; this is why
    `selected_subset_*` exclude `count:` (and `tuples_subset_full` / `same_as_full_run` do not) -/
example :
    ((buildTuples exH exBag { exSubset with partition := some (.count 1 2) }).toOption.map
        (·.map (fun p => (p.1.name, p.2.name))) = some [("b2", "app2")]) ∧
    ((buildTuples exH exBag { partition := some (.count 1 2) }).toOption.map
        (·.map (fun p => (p.1.name, p.2.name))) = some [("b1", "app1"), ("b2", "app1")]) := by decide

example : (exBag.bins.map (·.name)).Nodup := by decide

/-- the three `count:_/3` shards of the four tuples re-assemble them (instance of the theorem) -/
example (t : List (Context × Module)) :
    ((List.range 3).flatMap (fun k => applyPartition exH (some (.count (k + 1) 3)) t)).Perm t :=
  applyPartition_count_cover exH 3 (by decide) t

example : ((List.range 3).flatMap (fun k => countPartition (k + 1) 3 [10, 11, 12, 13, 14, 15, 16] 0)).Perm
    [10, 11, 12, 13, 14, 15, 16] := count_partition_cover 3 (by decide) _

example : countPartition 2 3 [10, 11, 12, 13, 14, 15, 16] 0
    = ([10, 11, 12, 13, 14, 15, 16].zipIdx.filter (fun (p : Nat × Nat) => (0 + p.2) % 3 == 2 - 1)).map (·.1) :=
  countPartition_spec 2 3 _ 0 (by decide)

example : [10, 11, 12, 13, 14, 15, 16].filter (fun x => (x * 7) % 3 == 1 - 1) = [12, 15] ∧
    [10, 11, 12, 13, 14, 15, 16].filter (fun x => (x * 7) % 3 == 2 - 1) = [10, 13, 16] ∧
    [10, 11, 12, 13, 14, 15, 16].filter (fun x => (x * 7) % 3 == 3 - 1) = [11, 14] := by decide

end Example

end Laze.C10
