import LazeModel.Model.Env
import LazeModel.Generated.Decisions
/-! # C04 — `EnvKey::merge`, regenerated from the source

"At every step a list merged onto a list appends; in every other combination the later value replaces the earlier one."
`translators/decisions.py` re-reads the nested `match` of `EnvKey::merge` on every run as rows (pattern of `self`, pattern of `other`,
result). `envKey_merge_is_model` proves that for EVERY pair of values the first matching row yields the model's `EnvKey.merge`, the
function `C04.merge_get`, `foldl_merge_get`, `merge_rules` and the layer theorems are stated about. -/
namespace Laze.C04m
open Laze Laze.Generated

def patMatches : MPat → EnvKey → Option Bool
  | .single, .single _ => some true
  | .single, .list _ => some false
  | .list, .list _ => some true
  | .list, .single _ => some false
  | .any, _ => some true
  | .unknown _, _ => none

def resValue (s o : EnvKey) : MRes → Option EnvKey
  | .other => some o
  | .self => some s
  | .appendLists => match s, o with
    | .list a, .list b => some (.list (a ++ b))
    | _, _ => none                       -- `self_values` / `other_values` are only bound in the list/list arm
  | .unknown _ => none

/-- first matching row; `none` when a row is not interpretable or no row matches (a Rust `match` must be exhaustive) -/
def interp (s o : EnvKey) : List (MPat × MPat × MRes) → Option EnvKey
  | [] => none
  | (ps, po, r) :: rest =>
    match patMatches ps s, patMatches po o with
    | some true, some true => resValue s o r
    | some _, some _ => interp s o rest
    | _, _ => none

/-- **translator obligation**: for every pair of values, today's `EnvKey::merge` computes the model's `EnvKey.merge` -/
theorem envKey_merge_is_model (s o : EnvKey) :
    envKeyMergeArms.bind (interp s o) = some (EnvKey.merge s o) := by
  cases s <;> cases o <;> simp [envKeyMergeArms, interp, patMatches, resValue, EnvKey.merge]

/-! non-vacuity: rows that replace instead of appending are not the model -/
example : interp (.list ["a"]) (.list ["b"]) [(.single, .any, .other), (.list, .any, .other)] ≠ some (EnvKey.merge (.list ["a"]) (.list ["b"])) := by
  decide
example : interp (.single "a") (.single "b") [(.unknown "x", .any, .other)] = none := by decide

end Laze.C04m
