import LazeModel.Model.Build
/-! C12 — the modules of a build and their order: depth-first, first reach wins, optional
    dependencies that cannot be resolved are invisible, rollback on failure, shadowing, provider
    order.

    * Part A: an imperative mirror ("L1") of the resolver with an explicit snapshot stack
      (`state_push` / `state_pop` / `stack.pop()` of `src/build.rs`) and the theorem that it computes
      exactly the pure model ("L2", `LazeModel/Model/Resolver.lean`): the stack is balanced and the
      state is restored on every error path.
    * Part B: an optional dependency that cannot be resolved leaves the build as if not written.
    * Part C: the selected list only grows by appending, stays duplicate free, app first.
    * Part D: shadowing (`Bag.resolveModule`) and provider order (`providedUp`). -/
namespace Laze.C12
open Laze

deriving instance DecidableEq for RState

/-! ## Part A — the imperative machine (L1) -/

/-- the resolver's mutable data: the current state and the stack of snapshots -/
structure Machine where
  cur : RState
  stack : List RState
  deriving DecidableEq, Repr

/-- `state_push`: push a clone of the current state -/
def Machine.push (M : Machine) : Machine := ⟨M.cur, M.cur :: M.stack⟩
/-- `state_pop`: restore the newest snapshot -/
def Machine.pop (M : Machine) : Machine :=
  match M.stack with
  | [] => M
  | t :: r => ⟨t, r⟩
/-- `stack.pop()`: discard the newest snapshot, keep the current state -/
def Machine.discard (M : Machine) : Machine := ⟨M.cur, M.stack.tail⟩
/-- in-place mutation of the current state -/
def Machine.modify (f : RState → RState) (M : Machine) : Machine := ⟨f M.cur, M.stack⟩

/-- the rejection tests of `resolve_module_deep` (the tests of `enter`) -/
def rejected (m : Mod) (s : RState) : Bool :=
  s.isDisabled m.name || (m.conflicts.any (fun c => s.isSel c || s.isProvided c) ||
    m.provides.any (fun p => s.isDisabled p))

/-- registration of the module in the current state (the `.ok` state of `enter`) -/
def register (m : Mod) (s : RState) : RState :=
  { s with
    sel := s.sel ++ [m.name]
    disabled := s.disabled ++ m.conflicts.map (fun c => (c, some m.name))
    providedBy := s.providedBy ++ m.provides.map (fun p => (p, m.name)) }

theorem enter_of_rejected {m : Mod} {s : RState} (h : rejected m s = true) :
    ∃ e, enter m s = .error e := by
  unfold enter
  unfold rejected at h
  by_cases h1 : s.isDisabled m.name = true
  · exact ⟨.disabled, by simp [h1]⟩
  · by_cases h2 : (m.conflicts.any (fun c => s.isSel c || s.isProvided c)) = true
    · exact ⟨.conflict, by simp only [h1, h2]; simp⟩
    · by_cases h3 : (m.provides.any (fun p => s.isDisabled p)) = true
      · exact ⟨.providesDisabled, by simp only [h1, h2, h3]; simp⟩
      · simp [h1, h2, h3] at h

theorem enter_of_not_rejected {m : Mod} {s : RState} (h : rejected m s = false) :
    enter m s = .ok (register m s) := by
  unfold rejected at h
  simp only [Bool.or_eq_false_iff] at h
  obtain ⟨h1, h2, h3⟩ := h
  unfold enter register
  simp only [h1, h2, h3]
  simp

abbrev IRec := Mod → Machine → Bool × Machine

/-- `resolve_module_name_deep` -/
def resolveNameI (w : World) (recI : IRec) (n : Name) (M : Machine) : Bool × Machine :=
  match w.lookup n with
  | none => (false, M)
  | some m => recI m M

/-- `resolve_module_list` -/
def resolveListI (w : World) (recI : IRec) : List Name → Name → Nat → Machine → Nat × Machine
  | [], _, cnt, M => (cnt, M)
  | p :: ps, feat, cnt, M =>
    if M.cur.isSel p then resolveListI w recI ps feat (cnt+1) M
    else if M.cur.isDisabled feat then
      (if cnt > 0 then (cnt, M) else resolveListI w recI ps feat cnt M)
    else match resolveNameI w recI p M with
      | (true, M') => resolveListI w recI ps feat (cnt+1) M'
      | (false, M') => resolveListI w recI ps feat cnt M'

/-- one dependency name; on an optional failure the loop simply continues -/
def resolveOneI (w : World) (recI : IRec) (n : Name) (optional : Bool) (M : Machine) : Bool × Machine :=
  match resolveListI w recI (w.providers n) n 0 M with
  | (cnt, M1) =>
    if cnt > 0 && M1.cur.isDisabled n then (true, M1)
    else match resolveNameI w recI n M1 with
      | (true, M2) => (true, M2)
      | (false, M2) => if optional || cnt > 0 then (true, M2) else (false, M2)

/-- the loop over the dependencies; a hard failure does `state_pop` and returns -/
def resolveDepsI (w : World) (recI : IRec) : List Dep → Machine → Bool × Machine
  | [], M => (true, M)
  | .hard n :: ds, M => match resolveOneI w recI n false M with
    | (true, M') => resolveDepsI w recI ds M'
    | (false, M') => (false, M'.pop)
  | .soft n :: ds, M => match resolveOneI w recI n true M with
    | (true, M') => resolveDepsI w recI ds M'
    | (false, M') => (false, M'.pop)
  | .ifHard c n :: ds, M =>
    if M.cur.isSel c then match resolveOneI w recI n false M with
      | (true, M') => resolveDepsI w recI ds M'
      | (false, M') => (false, M'.pop)
    else resolveDepsI w recI ds (M.modify fun s => { s with pending := s.pending ++ [(c, .hard n)] })
  | .ifSoft c n :: ds, M =>
    if M.cur.isSel c then match resolveOneI w recI n true M with
      | (true, M') => resolveDepsI w recI ds M'
      | (false, M') => (false, M'.pop)
    else resolveDepsI w recI ds (M.modify fun s => { s with pending := s.pending ++ [(c, .soft n)] })

/-- `resolve_module_deep`: tests, `state_push`, registration, the loop (which pops on a hard
    failure), `stack.pop()` on success -/
def resolveDeepStepI (w : World) (recI : IRec) (m : Mod) (M : Machine) : Bool × Machine :=
  if M.cur.isSel m.name then (true, M)
  else if rejected m M.cur then (false, M)
  else
    let M1 := M.push.modify (register m)
    match resolveDepsI w recI (m.selects ++ lateDeps M1.cur m.name) M1 with
    | (true, M2) => (true, M2.discard)
    | (false, M2) => (false, M2)

def resolveDeepI (w : World) : Nat → IRec
  | 0 => fun _ M => (false, M)
  | fuel+1 => resolveDeepStepI w (resolveDeepI w fuel)

/-! ### refinement -/

/-- the outcome of an imperative call that implements the pure result `e` from machine `M`:
    on success the new state with the stack untouched, on failure the machine as it was -/
def outcome (M : Machine) (e : Except RErr RState) : Bool × Machine :=
  match e with
  | .ok s => (true, ⟨s, M.stack⟩)
  | .error _ => (false, M)

def RecRefines (recI : IRec) (rec : RRec) : Prop :=
  ∀ m M, recI m M = outcome M (rec m M.cur)

section refine
variable {w : World} {recI : IRec} {rec : RRec}

theorem name_refines (h : RecRefines recI rec) (n : Name) (M : Machine) :
    resolveNameI w recI n M = outcome M (resolveNameW w rec n M.cur) := by
  unfold resolveNameI resolveNameW
  cases w.lookup n with
  | none => rfl
  | some m => exact h m M

theorem list_refines (h : RecRefines recI rec) (f : Name) :
    ∀ (ps : List Name) (cnt : Nat) (M : Machine),
      resolveListI w recI ps f cnt M =
        ((resolveListW w rec ps f cnt M.cur).1, ⟨(resolveListW w rec ps f cnt M.cur).2, M.stack⟩) := by
  intro ps
  induction ps with
  | nil => intro cnt M; rfl
  | cons p ps ih =>
    intro cnt M
    unfold resolveListI resolveListW
    by_cases h1 : M.cur.isSel p = true
    · simp only [h1, if_true]; exact ih (cnt+1) M
    · simp only [h1, if_false, Bool.false_eq_true]
      by_cases h2 : M.cur.isDisabled f = true
      · simp only [h2, if_true]
        by_cases h3 : cnt > 0
        · simp only [h3, if_true]
        · simp only [h3, if_false]; exact ih cnt M
      · simp only [h2, if_false, Bool.false_eq_true]
        rw [name_refines h p M]
        cases hn : resolveNameW w rec p M.cur with
        | ok s' => exact ih (cnt+1) ⟨s', M.stack⟩
        | error e => exact ih cnt M

/-- `resolveOneI`: on success exactly the pure result; on failure only the stack is guaranteed
    (the caller restores the state with `state_pop`) -/
theorem one_refines (h : RecRefines recI rec) (n : Name) (opt : Bool) (M : Machine) :
    match resolveOneW w rec n opt M.cur with
    | .ok s => resolveOneI w recI n opt M = (true, ⟨s, M.stack⟩)
    | .error _ => ∃ c, resolveOneI w recI n opt M = (false, ⟨c, M.stack⟩) := by
  unfold resolveOneI resolveOneW
  rw [list_refines h n (w.providers n) 0 M]
  generalize resolveListW w rec (w.providers n) n 0 M.cur = r
  obtain ⟨cnt, s1⟩ := r
  simp only
  by_cases h1 : (decide (cnt > 0) && s1.isDisabled n) = true
  · simp only [h1, if_true]
  · simp only [h1, if_false, Bool.false_eq_true]
    rw [name_refines h n ⟨s1, M.stack⟩]
    cases hn : resolveNameW w rec n s1 with
    | ok s2 => rfl
    | error e =>
      simp only [outcome]
      by_cases h2 : (opt || decide (cnt > 0)) = true
      · simp only [h2, if_true]
      · simp only [h2, if_false, Bool.false_eq_true]; exact ⟨s1, rfl⟩

/-- the loop, started with a snapshot `top` on the stack: on a hard failure the snapshot has
    been restored and removed -/
theorem deps_refines (h : RecRefines recI rec) :
    ∀ (ds : List Dep) (cur top : RState) (rest : List RState),
      resolveDepsI w recI ds ⟨cur, top :: rest⟩ =
        match resolveDepsW w rec ds cur with
        | .ok s => (true, ⟨s, top :: rest⟩)
        | .error _ => (false, ⟨top, rest⟩) := by
  intro ds
  induction ds with
  | nil => intro cur top rest; rfl
  | cons d ds ih =>
    intro cur top rest
    have cont : ∀ (n : Name) (opt : Bool),
        (match resolveOneI w recI n opt ⟨cur, top :: rest⟩ with
          | (true, M') => resolveDepsI w recI ds M'
          | (false, M') => (false, M'.pop)) =
        match (match resolveOneW w rec n opt cur with
                | .ok s' => resolveDepsW w rec ds s' | .error e => .error e) with
        | .ok s => (true, ⟨s, top :: rest⟩)
        | .error _ => (false, ⟨top, rest⟩) := by
      intro n opt
      have h1 := one_refines (w := w) h n opt ⟨cur, top :: rest⟩
      simp only at h1
      cases hr : resolveOneW w rec n opt cur with
      | ok s' =>
        rw [hr] at h1
        simp only at h1
        rw [h1]
        exact ih s' top rest
      | error e =>
        rw [hr] at h1
        simp only at h1
        obtain ⟨c, hc⟩ := h1
        rw [hc]
        rfl
    cases d with
    | hard n => simp only [resolveDepsI, resolveDepsW]; exact cont n false
    | soft n => simp only [resolveDepsI, resolveDepsW]; exact cont n true
    | ifHard c n =>
      simp only [resolveDepsI, resolveDepsW]
      by_cases hc : cur.isSel c = true
      · simp only [hc, if_true]; exact cont n false
      · simp only [hc, if_false, Bool.false_eq_true]; exact ih _ top rest
    | ifSoft c n =>
      simp only [resolveDepsI, resolveDepsW]
      by_cases hc : cur.isSel c = true
      · simp only [hc, if_true]; exact cont n true
      · simp only [hc, if_false, Bool.false_eq_true]; exact ih _ top rest

theorem step_refines (h : RecRefines recI rec) :
    RecRefines (resolveDeepStepI w recI) (resolveDeepStep w rec) := by
  intro m M
  unfold resolveDeepStepI resolveDeepStep
  by_cases h1 : M.cur.isSel m.name = true
  · simp only [h1, if_true]; rfl
  · simp only [h1, if_false, Bool.false_eq_true]
    cases hr : rejected m M.cur with
    | true =>
      obtain ⟨e, he⟩ := enter_of_rejected hr
      simp only [he, if_true]; rfl
    | false =>
      rw [enter_of_not_rejected hr]
      simp only [if_false, Bool.false_eq_true, Machine.push, Machine.modify]
      rw [deps_refines h]
      cases resolveDepsW w rec (m.selects ++ lateDeps (register m M.cur) m.name) (register m M.cur) with
      | ok s => rfl
      | error e => rfl

end refine

/-- **Refinement**: the machine with the snapshot stack computes exactly the pure resolver: on
    success the new state and the stack as it was, on failure the machine as it was. -/
theorem l1_refines_l2 (w : World) : ∀ (fuel : Nat) (m : Mod) (M : Machine),
    resolveDeepI w fuel m M =
      match resolveDeep w fuel m M.cur with
      | .ok s => (true, ⟨s, M.stack⟩)
      | .error _ => (false, M) := by
  intro fuel
  induction fuel with
  | zero => intro m M; rfl
  | succ f ih =>
    have hf : RecRefines (resolveDeepI w f) (resolveDeep w f) := by
      intro m M; rw [ih m M]; rfl
    intro m M
    have := step_refines (w := w) hf m M
    simp only [outcome] at this
    exact this

/-- the snapshot stack is balanced -/
theorem stack_balanced (w : World) (fuel : Nat) (m : Mod) (M : Machine) :
    (resolveDeepI w fuel m M).2.stack = M.stack := by
  rw [l1_refines_l2]
  cases resolveDeep w fuel m M.cur <;> rfl

/-- a failing call leaves the machine (state and stack) exactly as it was -/
theorem failure_restores (w : World) (fuel : Nat) (m : Mod) (M : Machine)
    (h : (resolveDeepI w fuel m M).1 = false) : (resolveDeepI w fuel m M).2 = M := by
  rw [l1_refines_l2] at h ⊢
  cases hr : resolveDeep w fuel m M.cur with
  | ok s => rw [hr] at h; simp at h
  | error e => rfl

/-- the machine succeeds exactly when the pure resolver does, with the same state -/
theorem l1_ok_iff (w : World) (fuel : Nat) (m : Mod) (M : Machine) (s : RState) :
    resolveDeepI w fuel m M = (true, ⟨s, M.stack⟩) ↔ resolveDeep w fuel m M.cur = .ok s := by
  rw [l1_refines_l2]
  cases hr : resolveDeep w fuel m M.cur with
  | ok s' =>
    constructor
    · intro h; simp only [Prod.mk.injEq, Machine.mk.injEq, true_and, and_true] at h; rw [h]
    · intro h; injection h with h; rw [h]
  | error e => simp

/-! ## Part B — optional dependencies never fail the parent, and are invisible when unresolvable -/

section soft
variable (w : World) (rec : RRec)

/-- an optional dependency never fails its parent -/
theorem optional_never_fails (n : Name) (s : RState) : ∃ s', resolveOneW w rec n true s = .ok s' := by
  unfold resolveOneW
  generalize resolveListW w rec (w.providers n) n 0 s = r
  obtain ⟨cnt, s1⟩ := r
  simp only
  split
  · exact ⟨_, rfl⟩
  · split
    · exact ⟨_, rfl⟩
    · simp

/-- if no provider and no module of that name could be resolved, an optional lookup is a no-op -/
theorem one_soft_noop {n : Name} {s : RState} {e : RErr}
    (hl : resolveListW w rec (w.providers n) n 0 s = (0, s))
    (hn : resolveNameW w rec n s = .error e) : resolveOneW w rec n true s = .ok s := by
  unfold resolveOneW
  rw [hl]
  simp [hn]

/-- An optional dependency that cannot be resolved leaves the build exactly as if it had not been
    written. -/
theorem soft_failure_invisible {n : Name} {s : RState} {e : RErr} (ds : List Dep)
    (hl : resolveListW w rec (w.providers n) n 0 s = (0, s))
    (hn : resolveNameW w rec n s = .error e) :
    resolveDepsW w rec (.soft n :: ds) s = resolveDepsW w rec ds s := by
  simp only [resolveDepsW, one_soft_noop w rec hl hn]

theorem ifSoft_failure_invisible {c n : Name} {s : RState} {e : RErr} (ds : List Dep)
    (hc : s.isSel c = true)
    (hl : resolveListW w rec (w.providers n) n 0 s = (0, s))
    (hn : resolveNameW w rec n s = .error e) :
    resolveDepsW w rec (.ifSoft c n :: ds) s = resolveDepsW w rec ds s := by
  simp only [resolveDepsW, hc, if_true, one_soft_noop w rec hl hn]

/-- the same anywhere in the dependency list of a module, as long as the state reached there
    satisfies the hypotheses -/
theorem soft_failure_invisible_mid {n : Name} {e : RErr} :
    ∀ (pre ds : List Dep) (s : RState),
      (∀ s1, resolveDepsW w rec pre s = .ok s1 →
        resolveListW w rec (w.providers n) n 0 s1 = (0, s1) ∧ resolveNameW w rec n s1 = .error e) →
      resolveDepsW w rec (pre ++ .soft n :: ds) s = resolveDepsW w rec (pre ++ ds) s := by
  intro pre
  induction pre with
  | nil =>
    intro ds s h
    obtain ⟨hl, hn⟩ := h s rfl
    exact soft_failure_invisible w rec ds hl hn
  | cons d pre ih =>
    intro ds s h
    cases d with
    | hard m =>
      simp only [List.cons_append, resolveDepsW] at h ⊢
      cases hr : resolveOneW w rec m false s with
      | ok s' => rw [hr] at h; exact ih ds s' h
      | error e' => rfl
    | soft m =>
      simp only [List.cons_append, resolveDepsW] at h ⊢
      cases hr : resolveOneW w rec m true s with
      | ok s' => rw [hr] at h; exact ih ds s' h
      | error e' => rfl
    | ifHard c m =>
      simp only [List.cons_append, resolveDepsW] at h ⊢
      by_cases hc : s.isSel c = true
      · simp only [hc, if_true] at h ⊢
        cases hr : resolveOneW w rec m false s with
        | ok s' => rw [hr] at h; exact ih ds s' h
        | error e' => rfl
      · simp only [hc, if_false, Bool.false_eq_true] at h ⊢
        exact ih ds _ h
    | ifSoft c m =>
      simp only [List.cons_append, resolveDepsW] at h ⊢
      by_cases hc : s.isSel c = true
      · simp only [hc, if_true] at h ⊢
        cases hr : resolveOneW w rec m true s with
        | ok s' => rw [hr] at h; exact ih ds s' h
        | error e' => rfl
      · simp only [hc, if_false, Bool.false_eq_true] at h ⊢
        exact ih ds _ h

end soft

/-! ## Part C — order: the selected list grows by appending, stays duplicate free, app first -/

/-- growth of the selected list -/
structure Grow (s s' : RState) : Prop where
  ext : ∃ l, s'.sel = s.sel ++ l
  nodup : s.sel.Nodup → s'.sel.Nodup

theorem Grow.refl (s : RState) : Grow s s := ⟨⟨[], by simp⟩, id⟩

theorem Grow.trans {a b c : RState} (h1 : Grow a b) (h2 : Grow b c) : Grow a c := by
  obtain ⟨l1, e1⟩ := h1.ext
  obtain ⟨l2, e2⟩ := h2.ext
  exact ⟨⟨l1 ++ l2, by rw [e2, e1, List.append_assoc]⟩, fun h => h2.nodup (h1.nodup h)⟩

theorem Grow.of_sel_eq {s s' : RState} (h : s'.sel = s.sel) : Grow s s' :=
  ⟨⟨[], by simp [h]⟩, fun hn => by rw [h]; exact hn⟩

theorem Grow.mem {s s' : RState} (h : Grow s s') {n : Name} (hn : s.isSel n = true) :
    s'.isSel n = true := by
  obtain ⟨l, e⟩ := h.ext
  simp only [RState.isSel, List.contains_iff_mem] at hn ⊢
  rw [e]; exact List.mem_append_left _ hn

/-- what we assume of the recursive call and prove of `resolveDeepStep` -/
def OrderSpec (rec : RRec) : Prop :=
  ∀ (m : Mod) (s s' : RState), rec m s = .ok s' → Grow s s' ∧ s'.isSel m.name = true

section order
variable {w : World} {rec : RRec}

theorem name_grow (hrec : OrderSpec rec) {n : Name} {s s' : RState}
    (h : resolveNameW w rec n s = .ok s') : Grow s s' := by
  unfold resolveNameW at h
  split at h
  · contradiction
  · exact (hrec _ _ _ h).1

theorem list_grow (hrec : OrderSpec rec) (f : Name) :
    ∀ (ps : List Name) (cnt : Nat) (s : RState), Grow s (resolveListW w rec ps f cnt s).2 := by
  intro ps
  induction ps with
  | nil => intro cnt s; exact Grow.refl s
  | cons p ps ih =>
    intro cnt s
    unfold resolveListW
    split
    · exact ih _ s
    · split
      · split
        · exact Grow.refl s
        · exact ih _ s
      · split
        · rename_i s2 hok
          exact Grow.trans (name_grow hrec hok) (ih _ s2)
        · exact ih _ s

theorem one_grow (hrec : OrderSpec rec) {n : Name} {opt : Bool} {s s' : RState}
    (h : resolveOneW w rec n opt s = .ok s') : Grow s s' := by
  unfold resolveOneW at h
  have g1 := list_grow (w := w) hrec n (w.providers n) 0 s
  generalize resolveListW w rec (w.providers n) n 0 s = r at h g1
  obtain ⟨cnt, s1⟩ := r
  simp only at h g1
  split at h
  · injection h with h; subst h; exact g1
  · split at h
    · rename_i s2 hok
      injection h with h; subst h
      exact Grow.trans g1 (name_grow hrec hok)
    · split at h
      · injection h with h; subst h; exact g1
      · contradiction

theorem deps_grow (hrec : OrderSpec rec) :
    ∀ (ds : List Dep) (s s' : RState), resolveDepsW w rec ds s = .ok s' → Grow s s' := by
  intro ds
  induction ds with
  | nil => intro s s' h; simp only [resolveDepsW] at h; injection h with h; subst h; exact Grow.refl s
  | cons d ds ih =>
    intro s s' h
    have cont : ∀ (n : Name) (opt : Bool),
        (match resolveOneW w rec n opt s with
          | .ok s1 => resolveDepsW w rec ds s1 | .error e => .error e) = .ok s' → Grow s s' := by
      intro n opt h
      split at h
      · rename_i s1 hone
        exact Grow.trans (one_grow hrec hone) (ih s1 s' h)
      · contradiction
    cases d with
    | hard n => simp only [resolveDepsW] at h; exact cont n false h
    | soft n => simp only [resolveDepsW] at h; exact cont n true h
    | ifHard c n =>
      simp only [resolveDepsW] at h
      split at h
      · exact cont n false h
      · have g := ih _ s' h
        exact ⟨g.ext, g.nodup⟩
    | ifSoft c n =>
      simp only [resolveDepsW] at h
      split at h
      · exact cont n true h
      · have g := ih _ s' h
        exact ⟨g.ext, g.nodup⟩

theorem enter_sel {m : Mod} {s s1 : RState} (h : enter m s = .ok s1) : s1.sel = s.sel ++ [m.name] := by
  unfold enter at h
  split at h <;> try contradiction
  split at h <;> try contradiction
  split at h <;> try contradiction
  injection h with h; subst h; rfl

theorem enter_grow {m : Mod} {s s1 : RState} (hns : s.isSel m.name = false) (h : enter m s = .ok s1) :
    Grow s s1 := by
  have e := enter_sel h
  refine ⟨⟨[m.name], e⟩, fun hn => ?_⟩
  rw [e, List.nodup_append]
  refine ⟨hn, by simp, ?_⟩
  intro a ha b hb hab
  simp only [List.mem_singleton] at hb
  rw [hab, hb] at ha
  have : s.isSel m.name = true := by simp [RState.isSel, ha]
  rw [this] at hns
  contradiction

/-- a module that is not yet selected is taken at the point where it is first reached: it is
    appended to the list, followed by whatever its dependencies add -/
theorem step_first_reach (hrec : OrderSpec rec) {m : Mod} {s s' : RState}
    (hns : s.isSel m.name = false) (h : resolveDeepStep w rec m s = .ok s') :
    (∃ l, s'.sel = s.sel ++ m.name :: l) ∧ (s.sel.Nodup → s'.sel.Nodup) := by
  unfold resolveDeepStep at h
  simp only [hns, Bool.false_eq_true, if_false] at h
  split at h
  · contradiction
  · rename_i s1 hent
    have g1 := enter_grow hns hent
    have g2 := deps_grow hrec _ _ _ h
    obtain ⟨l, e⟩ := g2.ext
    refine ⟨⟨l, ?_⟩, fun hn => g2.nodup (g1.nodup hn)⟩
    rw [e, enter_sel hent, List.append_assoc]; rfl

/-- a module that is already selected is not visited again -/
theorem step_already {m : Mod} {s : RState} (hs : s.isSel m.name = true) :
    resolveDeepStep w rec m s = .ok s := by
  unfold resolveDeepStep; simp [hs]

theorem step_order (hrec : OrderSpec rec) : OrderSpec (resolveDeepStep w rec) := by
  intro m s s' h
  cases hs : s.isSel m.name with
  | true =>
    rw [step_already hs] at h
    injection h with h; subst h
    exact ⟨Grow.refl s, hs⟩
  | false =>
    obtain ⟨⟨l, e⟩, hn⟩ := step_first_reach hrec hs h
    refine ⟨⟨⟨m.name :: l, e⟩, hn⟩, ?_⟩
    simp [RState.isSel, e]

end order

theorem deep_order (w : World) : ∀ fuel, OrderSpec (resolveDeep w fuel) := by
  intro fuel
  induction fuel with
  | zero => intro m s s' h; simp [resolveDeep] at h
  | succ f ih => exact step_order ih

/-- the selected list only grows by appending -/
theorem sel_appends (w : World) (fuel : Nat) (m : Mod) (s s' : RState)
    (h : resolveDeep w fuel m s = .ok s') : ∃ l, s'.sel = s.sel ++ l :=
  (deep_order w fuel m s s' h).1.ext

/-- the selected list stays duplicate free -/
theorem sel_nodup (w : World) (fuel : Nat) (m : Mod) (s s' : RState)
    (h : resolveDeep w fuel m s = .ok s') (hn : s.sel.Nodup) : s'.sel.Nodup :=
  (deep_order w fuel m s s' h).1.nodup hn

/-- the resolved module is selected afterwards -/
theorem sel_self (w : World) (fuel : Nat) (m : Mod) (s s' : RState)
    (h : resolveDeep w fuel m s = .ok s') : s'.isSel m.name = true :=
  (deep_order w fuel m s s' h).2

/-- the same for a dependency list (the loop of one module) -/
theorem deps_sel_appends (w : World) (fuel : Nat) (ds : List Dep) (s s' : RState)
    (h : resolveDepsW w (resolveDeep w fuel) ds s = .ok s') :
    (∃ l, s'.sel = s.sel ++ l) ∧ (s.sel.Nodup → s'.sel.Nodup) :=
  let g := deps_grow (deep_order w fuel) ds s s' h
  ⟨g.ext, g.nodup⟩

/-- first reach: a module not yet selected is appended right where it is reached, its
    dependencies follow -/
theorem first_reach (w : World) (fuel : Nat) (m : Mod) (s s' : RState)
    (hns : s.isSel m.name = false) (h : resolveDeep w fuel m s = .ok s') :
    ∃ l, s'.sel = s.sel ++ m.name :: l := by
  cases fuel with
  | zero => simp [resolveDeep] at h
  | succ f => exact (step_first_reach (deep_order w f) hns h).1

/-- a module that was already reached is not visited again: nothing changes -/
theorem second_reach (w : World) (fuel : Nat) (m : Mod) (s : RState)
    (hs : s.isSel m.name = true) : resolveDeep w (fuel+1) m s = .ok s :=
  step_already hs

/-- the top-level call puts the app first, and the module list has no duplicates -/
theorem app_first (w : World) (fuel : Nat) (app : Mod) (s0 r : RState)
    (h0 : s0.sel = []) (h : resolveDeep w fuel app s0 = .ok r) :
    r.sel.head? = some app.name ∧ r.sel.Nodup := by
  have hns : s0.isSel app.name = false := by simp [RState.isSel, h0]
  obtain ⟨l, e⟩ := first_reach w fuel app s0 r hns h
  refine ⟨by rw [e, h0]; rfl, sel_nodup w fuel app s0 r h (by rw [h0]; exact List.nodup_nil)⟩

/-- the top-level resolution of a build: app first, no duplicates -/
theorem resolveTop_app_first (b : Bag) (builder : Name) (app : Module) (cli : Cli) (r : RState)
    (h : resolveTop b builder app cli = .ok r) : r.sel.head? = some app.name ∧ r.sel.Nodup := by
  unfold resolveTop at h
  exact app_first _ _ _ _ r rfl h

/-! ## Part D — shadowing and provider order -/

/-- the module found for a name is the one of the nearest context on the chain that defines the
    name: every context before it does not define it -/
theorem shadow {b : Bag} {c n : Name} {m : Module} (h : b.resolveModule c n = some m) :
    ∃ pre cx post, b.chainCtx c = pre ++ cx :: post ∧ cx.module? n = some m ∧
      ∀ cy ∈ pre, cy.module? n = none := by
  unfold Bag.resolveModule at h
  exact List.findSome?_eq_some_iff.mp h

theorem shadow_iff {b : Bag} {c n : Name} {m : Module} :
    b.resolveModule c n = some m ↔
      ∃ pre cx post, b.chainCtx c = pre ++ cx :: post ∧ cx.module? n = some m ∧
        ∀ cy ∈ pre, cy.module? n = none := by
  unfold Bag.resolveModule
  exact List.findSome?_eq_some_iff

/-- a definition in the builder context itself (head of the chain) shadows all others -/
theorem shadow_nearest {b : Bag} {c n : Name} {cx : Context} {rest : List Context} {m : Module}
    (hc : b.chainCtx c = cx :: rest) (hm : cx.module? n = some m) : b.resolveModule c n = some m := by
  unfold Bag.resolveModule
  rw [hc, List.findSome?_cons, hm]

/-- the module found has the name asked for -/
theorem resolveModule_name {b : Bag} {c n : Name} {m : Module} (h : b.resolveModule c n = some m) :
    m.name = n := by
  obtain ⟨_, cx, _, _, hm, _⟩ := shadow h
  unfold Context.module? at hm
  have := List.find?_some hm
  simpa using this

/-- the resolver's world only sees the nearest definition -/
theorem world_lookup_shadow {b : Bag} {builder : Name} {app' : Module} {n : Name} {m : Mod}
    (hn : (n == app'.name) = false) (h : (buildWorld b builder app').lookup n = some m) :
    ∃ pre cx post md, b.chainCtx builder = pre ++ cx :: post ∧ cx.module? n = some md ∧
      md.toMod = m ∧ ∀ cy ∈ pre, cy.module? n = none := by
  simp only [buildWorld, hn, Bool.false_eq_true, if_false, Option.map_eq_some_iff] at h
  obtain ⟨md, hmd, e⟩ := h
  obtain ⟨pre, cx, post, h1, h2, h3⟩ := shadow hmd
  exact ⟨pre, cx, post, md, h1, h2, e, h3⟩

/-- the shadow filter of `merge_provides`: a provider `q` of feature `f` survives in context `c`
    unless `c` defines a module named `q` that does not provide `f` -/
def keeps (c : Context) (f : Name) (q : Name) : Bool :=
  match c.module? q with
  | some m => (m.provides.getD []).contains f
  | none => true

theorem find_map_key (t : PTable) (g : Name × List Name → List Name) (f : Name) :
    (t.map (fun e => (e.1, g e))).find? (·.1 == f) = (t.find? (·.1 == f)).map (fun e => (e.1, g e)) := by
  induction t with
  | nil => rfl
  | cons x t ih =>
    simp only [List.map_cons, List.find?_cons]
    cases (x.1 == f) with
    | true => rfl
    | false => exact ih

theorem get_filterProvided (c : Context) (t : PTable) (f : Name) :
    (c.filterProvided t).get f = (t.get f).filter (keeps c f) := by
  unfold Context.filterProvided PTable.get
  rw [find_map_key]
  cases hfi : t.find? (fun x => x.1 == f) with
  | none => simp
  | some e =>
    have he : e.1 = f := by simpa using List.find?_some hfi
    simp only [Option.map_some, Option.getD_some]
    subst he
    rfl

theorem get_union_own (own parent : PTable) (f : Name) (h : own.any (·.1 == f) = true) :
    (own.union parent).get f = dedup (own.get f ++ parent.get f) := by
  unfold PTable.union
  show (((_ ++ _ : PTable).find? (·.1 == f)).map (·.2)).getD [] = _
  rw [List.find?_append, find_map_key]
  obtain ⟨e, he, hef⟩ := List.any_eq_true.mp h
  cases hfi : own.find? (fun x => x.1 == f) with
  | none =>
    have := List.find?_eq_none.mp hfi e he
    exact absurd hef this
  | some e' =>
    have he' : e'.1 = f := by simpa using List.find?_some hfi
    simp only [PTable.get, hfi, Option.map_some, Option.some_or, Option.getD_some]
    subst he'
    rfl

theorem get_union_inherited (own parent : PTable) (f : Name) (h : own.any (·.1 == f) = false) :
    (own.union parent).get f = parent.get f := by
  unfold PTable.union
  show (((_ ++ _ : PTable).find? (·.1 == f)).map (·.2)).getD [] = _
  rw [List.find?_append, find_map_key]
  have hnone : own.find? (fun x => x.1 == f) = none := by
    rw [List.find?_eq_none]
    intro x hx hxf
    have : own.any (·.1 == f) = true := List.any_eq_true.mpr ⟨x, hx, hxf⟩
    rw [h] at this; contradiction
  rw [hnone, List.find?_filter]
  simp only [Option.map_none, Option.none_or]
  have hp : (fun a : Name × List Name =>
      decide ((!own.any (fun x => x.1 == a.1)) = true ∧ (a.1 == f) = true)) = fun a => a.1 == f := by
    funext a
    by_cases haf : (a.1 == f) = true
    · have : a.1 = f := by simpa using haf
      rw [this, h]; simp
    · simp [haf]
  rw [hp]
  rfl

/-- a feature with providers in the context itself: the context's own providers, then the
    inherited ones, without duplicates, minus the shadowed ones -/
theorem providers_own_first (c r : Context) (rest : List Context) (f : Name)
    (h : c.ownProvided.any (·.1 == f) = true) :
    (providedUp (c :: r :: rest)).get f =
      (dedup (c.ownProvided.get f ++ (providedUp (r :: rest)).get f)).filter (keeps c f) := by
  show (c.filterProvided (c.ownProvided.union (providedUp (r :: rest)))).get f = _
  rw [get_filterProvided, get_union_own _ _ _ h]

/-- a feature without providers in the context itself: the inherited list minus the shadowed
    providers -/
theorem providers_inherited (c r : Context) (rest : List Context) (f : Name)
    (h : c.ownProvided.any (·.1 == f) = false) :
    (providedUp (c :: r :: rest)).get f = ((providedUp (r :: rest)).get f).filter (keeps c f) := by
  show (c.filterProvided (c.ownProvided.union (providedUp (r :: rest)))).get f = _
  rw [get_filterProvided, get_union_inherited _ _ _ h]

/-- the root context: its own table -/
theorem providers_root (root : Context) (f : Name) :
    (providedUp [root]).get f = root.ownProvided.get f := rfl

/-- `dedup` keeps first occurrences: the deduplicated own list is a prefix (nearest context
    first) -/
theorem dedup_append_prefix [BEq α] (a b : List α) : ∃ l, dedup (a ++ b) = dedup a ++ l := by
  unfold dedup
  rw [List.foldl_append]
  generalize List.foldl (fun acc x => if acc.contains x then acc else acc ++ [x]) [] a = acc
  induction b generalizing acc with
  | nil => exact ⟨[], by simp⟩
  | cons x b ih =>
    simp only [List.foldl_cons]
    split
    · exact ih acc
    · obtain ⟨l, e⟩ := ih (acc ++ [x])
      exact ⟨x :: l, by rw [e, List.append_assoc]; rfl⟩

/-! ## a concrete rollback, on both levels -/

namespace Example

def mk (name : Name) (selects : List Dep) (conflicts : List Name := []) : Mod :=
  { name := name, selects := selects, conflicts := conflicts, provides := [] }

def app : Mod := mk "app" [.soft "x", .hard "y", .ifHard "q" "z"]
def mods : List Mod :=
  [app, mk "x" [.hard "z", .hard "missing"], mk "y" [.hard "q"] ["x"], mk "q" [], mk "z" []]

def w : World := { lookup := fun n => mods.find? (·.name == n), providers := fun _ => [] }
def s0 : RState := ⟨[], [], [], []⟩

/-- `x` is entered, `z` is taken below it, `missing` fails: `x` and `z` are rolled back; then `y`
    (which conflicts with `x`), `q`, and `z` again via the `q`-conditional dependency -/
example : (resolveDeep w 5 app s0).toOption.map (·.sel) = some ["app", "y", "q", "z"] := by decide

example : resolveDeepI w 5 app ⟨s0, []⟩ =
    (true, ⟨⟨["app", "y", "q", "z"], [], [("x", some "y")], []⟩, []⟩) := by decide

example : resolveDeep w 5 app s0 = .ok (resolveDeepI w 5 app ⟨s0, []⟩).2.cur ∧
    (resolveDeepI w 5 app ⟨s0, []⟩).2.stack = [] := by decide

/-- the failing optional dependency `x` is invisible: same result without it -/
example : resolveDepsW w (resolveDeep w 4) [.soft "x", .hard "y"] s0 =
    resolveDepsW w (resolveDeep w 4) [.hard "y"] s0 := by decide

/-- the rollback inside: resolving `x` alone fails and the machine is restored, stack included -/
example : resolveDeepI w 4 (mk "x" [.hard "z", .hard "missing"]) ⟨s0, [s0]⟩ = (false, ⟨s0, [s0]⟩) := by
  decide

end Example

end Laze.C12
