import LazeModel.Theorems.C10_selector
/-! C08 relies on `Selector::selects` / `Selector::is_superset` being the model's functions (which builds a request covers, and
    whether a cache written for a wider selection may serve it): the translator obligations of `C10_selector.lean`, re-stated here so
    that C08's check fails when they do. -/
namespace Laze.C08sel
open Laze
theorem selector_selects_is_model (s : Selector) (v : String) :
    Generated.selectorSelectsArms.bind (C10sel.interpSelects s v) = some (s.selects v) := C10sel.selector_selects_is_model s v
theorem selector_superset_is_model (s o : Selector) :
    Generated.selectorSupersetArms.bind (C10sel.interpSuperset s o) = some (s.isSuperset o) := C10sel.selector_superset_is_model s o
end Laze.C08sel
