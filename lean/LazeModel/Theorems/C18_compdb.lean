import LazeModel.Theorems.C18
/-! # C18 — `--compile-commands`

`laze build -c` runs ninja's `compdb` tool on the generated file right after generation. Modelled as a prefix of the spawn list
(`runBuildCC`); everything `C18.lean` proves about `runBuild` carries over to what follows the prefix. Observation (as coded, not a
defect of the property as we read it): with `-G -c` laze does start ninja — for the `compdb` *query*, which builds nothing. -/
namespace Laze.C18c
open Laze

/-- without the flag nothing changes -/
theorem cc_off (st : Settings) (a : Args) (fl : Flags) (builds : List BuildInfo) (task) (ninjaRc : Nat) (cmdFails : String → Bool)
    (h : fl.compileCommands = false) :
    runBuildCC st a fl builds task ninjaRc cmdFails = runBuild st a fl builds task ninjaRc cmdFails := by
  simp [runBuildCC, compdbSpawns, h]

/-- with the flag: first the compdb tool on the SAME file every other invocation uses, then exactly what the run does without it;
    the exit status is that of the run without the flag -/
theorem cc_on (st : Settings) (a : Args) (fl : Flags) (builds : List BuildInfo) (task) (ninjaRc : Nat) (cmdFails : String → Bool)
    (h : fl.compileCommands = true) :
    runBuildCC st a fl builds task ninjaRc cmdFails =
      (.ninja ["-f", ninjaFile st a.mode, "-t", "compdb"] :: (runBuild st a fl builds task ninjaRc cmdFails).1,
       (runBuild st a fl builds task ninjaRc cmdFails).2) := by
  simp [runBuildCC, compdbSpawns, h]

/-- the compdb call is a tool call on the generated file: `-f <file> -t compdb`, no targets, no `-j`/`-k` -/
theorem compdb_is_ninjaArgv (st : Settings) (a : Args) :
    ["-f", ninjaFile st a.mode, "-t", "compdb"] = ninjaArgv (ninjaFile st a.mode) false none none (some ["-t", "compdb"]) := by
  simp [ninjaArgv]

/-- every ninja BUILD invocation of a `-c` run (every spawn after the compdb call) still satisfies the selection theorem -/
theorem targets_within_selection_cc {st : Settings} {a : Args} {fl : Flags} {builds : List BuildInfo} {ninjaRc : Nat}
    {cmdFails : String → Bool} {argv : List String}
    (h : Spawn.ninja argv ∈ (runBuildCC st a fl builds none ninjaRc cmdFails).1)
    (hne : argv ≠ ["-f", ninjaFile st a.mode, "-t", "compdb"]) :
    Spawn.ninja argv ∈ (runBuild st a fl builds none ninjaRc cmdFails).1 := by
  unfold runBuildCC compdbSpawns at h
  simp only at h
  split at h
  · rw [List.mem_append] at h
    cases h with
    | inl h => simp at h; exact absurd h hne
    | inr h => exact h
  · simpa using h

/-- `-G -c`: the only process is the compdb query -/
theorem G_only_compdb (st : Settings) (a : Args) (fl : Flags) (builds : List BuildInfo) (ninjaRc : Nat) (cmdFails : String → Bool)
    (hG : fl.generateOnly = true) (hc : fl.compileCommands = true) :
    runBuildCC st a fl builds none ninjaRc cmdFails = ([.ninja ["-f", ninjaFile st a.mode, "-t", "compdb"]], 0) := by
  rw [cc_on st a fl builds none ninjaRc cmdFails hc, C18.no_ninja_with_G st a fl builds ninjaRc cmdFails hG]

example : runBuildCC {} { builders := .some ["b2"] } { compileCommands := true, jobs := some 2 } C18.exBuilds none 0 (fun _ => false) =
    ([.ninja ["-f", "build/build-global.ninja", "-t", "compdb"],
      .ninja ["-f", "build/build-global.ninja", "-j", "2", "-k", "1", "build/out/b2/app/app.elf"]], 0) := by decide +kernel

end Laze.C18c
