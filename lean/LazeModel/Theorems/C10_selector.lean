import LazeModel.Model.Select
import LazeModel.Generated.Decisions
/-! # C10 / C18 / C08 — `Selector`, regenerated from the source

`--builders` / `--apps` are `Selector`s: `selects` filters tuples (C10 `apps_is_filter`, C18 `targets_within_selection`, C16) and
`is_superset` decides whether a cache written for a wider selection may serve a narrower request (C08). `translators/decisions.py`
re-reads both functions on every run as rows; the theorems prove the rows compute the model's `Selector.selects` / `Selector.isSuperset`
for every selector and value. -/
namespace Laze.C10sel
open Laze Laze.Generated

def patMatches : SPat → Selector → Option Bool
  | .all, .all => some true
  | .all, .some _ => some false
  | .some, .some _ => some true
  | .some, .all => some false
  | .any, _ => some true
  | .unknown _, _ => none

def supersetValue (s o : Selector) : SRes → Option Bool
  | .true => some true
  | .false => some false
  | .setSuperset => match s, o with
    | .some a, .some b => some (b.all a.contains)       -- `set.is_superset(other_set)`
    | _, _ => none
  | .contains => none
  | .unknown _ => none

def interpSuperset (s o : Selector) : List (SPat × SPat × SRes) → Option Bool
  | [] => none
  | (ps, po, r) :: rest =>
    match patMatches ps s, patMatches po o with
    | some true, some true => supersetValue s o r
    | some _, some _ => interpSuperset s o rest
    | _, _ => none

/-- **translator obligation**: today's `Selector::is_superset` is the model's `Selector.isSuperset` for every pair -/
theorem selector_superset_is_model (s o : Selector) :
    selectorSupersetArms.bind (interpSuperset s o) = some (s.isSuperset o) := by
  cases s <;> cases o <;> simp [selectorSupersetArms, interpSuperset, patMatches, supersetValue, Selector.isSuperset]

def selectsValue (s : Selector) (v : String) : SRes → Option Bool
  | .true => some true
  | .false => some false
  | .contains => match s with
    | .some l => some (l.contains v)                     -- `set.contains(value)`
    | .all => none
  | .setSuperset => none
  | .unknown _ => none

def interpSelects (s : Selector) (v : String) : List (SPat × SRes) → Option Bool
  | [] => none
  | (p, r) :: rest =>
    match patMatches p s with
    | some true => selectsValue s v r
    | some false => interpSelects s v rest
    | none => none

/-- **translator obligation**: today's `Selector::selects` is the model's `Selector.selects` for every selector and value -/
theorem selector_selects_is_model (s : Selector) (v : String) :
    selectorSelectsArms.bind (interpSelects s v) = some (s.selects v) := by
  cases s <;> simp [selectorSelectsArms, interpSelects, patMatches, selectsValue, Selector.selects]

example : interpSelects (.some ["a"]) "b" [(.any, .true)] ≠ some ((Selector.some ["a"]).selects "b") := by decide
example : interpSuperset .all .all [(.unknown "x", .any, .true)] = none := by decide

end Laze.C10sel
