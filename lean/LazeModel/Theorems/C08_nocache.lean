import LazeModel.Theorems.C08
/-! C08 — runs with the cache disabled (`--info-export` sets `disable_cache`): `try_from` refuses whatever the cache file says; the
    rest of `execute` is the ordinary cache-missing run. In the transition system that is a `start` event in a state where `hit`
    may hold — covered by `inv_next` like every other event. Here: what such a run leaves on the disk, and that the record of an
    earlier run with other arguments does not survive it. -/
namespace Laze.C08
open Laze Laze.Cache

/-- what a complete run with the cache disabled does to the disk: exactly what a cache-missing run does (`run_never`), whether or
    not the cache would have served the request -/
theorem runNoCache_disk (s : State) (k : Key) (files : List File) (hi : s.proc = .idle) :
    runNoCache s k files =
      ({ s with ninja := .complete (files.map (fun f => (f, s.tree.ver f))) k
                cache := .record k (files.map (fun f => (f, s.tree.stamp f)))
                           (files.map (fun f => (f, s.tree.ver f)))
                proc := .idle }, .done) := by
  have h0 : next s (.start k files) = { s with proc := .parsing k files [] [] } := by
    simp [next, hi]
  have hmap : (files.map (fun f => (f, s.tree.ver f))).map (·.1) = files := by
    simp [List.map_map, Function.comp_def]
  simp only [runNoCache, h0]
  rw [show 4 * files.length + 12 = (2 * files.length + 11) + 2 * files.length + 1 by omega,
    steps_parsing _ (fun _ _ _ _ => rfl) (fun _ _ _ _ _ => rfl) k files [] [] _ _ rfl]
  simp only [List.nil_append, hmap]
  rw [show 2 * files.length + 11 = 4 + 2 * files.length + 7 by omega,
    steps_from_parsed k _ _ files 4 _ rfl (by simp)]
  simp

theorem stepsUntil_inv (p : Proc → Bool) : ∀ (n : Nat) (t : State), Inv t → Inv (stepsUntil p n t) := by
  intro n
  induction n with
  | zero => intro t ht; exact ht
  | succ n ih =>
    intro t ht
    unfold stepsUntil
    split
    · exact ht
    · exact ih _ (inv_next t .step ht)

/-- the invariant survives it (it is a sequence of `start`/`step` events) -/
theorem runNoCache_inv (s : State) (inv : Inv s) (k : Key) (files : List File) : Inv (runNoCache s k files).1 := by
  unfold runNoCache
  exact stepsUntil_inv _ _ _ (inv_next s _ inv)

theorem run_never_inv (s : State) (inv : Inv s) (k : Key) (files : List File) : Inv (run s k files .never).1 := by
  unfold run
  split
  · exact inv
  · exact stepsUntil_inv _ _ _ (inv_next s _ inv)

/-- **no stale record after a cache-disabled run**: whatever record was on the disk before, after a complete `--info-export` run
    with key `k` a request `k'` is served from the cache only if `k` itself vouches for it (`keyValid k k'`): the record of an
    earlier run with other `--define`, `--select`, `--disable`, `--partition` or mode does not survive next to the rewritten ninja file -/
theorem nocache_run_replaces_record (s : State) (k k' : Key) (files : List File) (hi : s.proc = .idle)
    (h : hit (runNoCache s k files).1 k' = true) : keyValid k k' = true := by
  rw [runNoCache_disk s k files hi] at h
  simp only [hit, Bool.and_eq_true] at h
  exact h.1

/-- and what is then served is the file this run wrote -/
theorem nocache_run_then_hit_is_its_own_file (s : State) (k k' : Key) (files : List File) (hi : s.proc = .idle)
    (_h : hit (runNoCache s k files).1 k' = true) :
    (runNoCache s k files).1.ninja = .complete (files.map (fun f => (f, s.tree.ver f))) k := by
  rw [runNoCache_disk s k files hi]

/-- the pre-repair shape seeded as `C08-nocache-run-keeps-cache`: a cache-disabled run that neither removes the old record nor
    writes a new one leaves `record k₀` next to a ninja file generated for `k`: `hit` then vouches for a file it does not describe -/
def runNoCacheKeeping (s : State) (k : Key) (files : List File) : State :=
  { s with ninja := .complete (files.map (fun f => (f, s.tree.ver f))) k }

theorem keeping_violates_hit_sound :
    ∃ (s : State) (k k₀ : Key) (files : List File), s.proc = .idle ∧ Inv s ∧ hit s k₀ = true ∧
      hit (runNoCacheKeeping s k files) k₀ = true ∧
      (runNoCacheKeeping s k files).ninja ≠ s.ninja ∧ ¬ keyValid k k₀ = true := by
  refine ⟨(run init k1 ["a"] .never).1, k2, k1, ["a"], ?_, ?_, ?_, ?_, ?_, ?_⟩
  · rw [run_never init k1 ["a"] rfl (by decide)]
  · exact run_never_inv init inv_init k1 ["a"]
  · exact (rerun_is_hit init k1 ["a"] rfl (by decide)).1
  · rw [run_never init k1 ["a"] rfl (by decide)]; decide
  · rw [run_never init k1 ["a"] rfl (by decide)]; decide
  · decide

end Laze.C08
