import LazeModel.Theorems.C12_order
/-! C01 — closure relies on roll-back: a module that was registered and then fails a hard dependency must disappear again
    (`C01.closure` is proved for the model's "error = caller keeps its state"). The source-level half — where the snapshot is taken,
    rolled back and dropped in `resolve_module_deep` — is the translator obligation of `C12_order.lean`, re-stated here so that C01's
    check fails when it does. -/
namespace Laze.C01order
theorem resolve_steps_reviewed : Generated.resolveSteps = C12order.reviewed := C12order.resolve_steps_reviewed
end Laze.C01order
