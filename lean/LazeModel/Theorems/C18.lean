import LazeModel.Theorems.C16
/-! C18 — the ninja invocation of `laze build` (without a task) and `laze clean`: the file, the
    flags passed through, the targets (exactly the configured builds of the `--builders`/`--apps`
    selection), `-G`, and the exit status (`runBuild … none`, `runClean`, `plainTargets`,
    `ninjaArgv` of `LazeModel/Model/MainRun.lean`).

    The result of the ninja process is the parameter `ninjaRc` of the model; "ninja cannot be
    started" is one of the non-zero values. -/
namespace Laze.C18
open Laze

/-- `-f <file> [-v] [-j n] -k <keep-going>`: the arguments before the targets -/
def flagArgs (st : Settings) (a : Args) (fl : Flags) : List String :=
  ["-f", ninjaFile st a.mode] ++ (if fl.verbose > 0 then ["-v"] else []) ++
  (match fl.jobs with | some j => ["-j", toString j] | none => []) ++
  ["-k", toString fl.keepGoing]

/-- 0 if ninja succeeded, 1 otherwise -/
def rcStatus (ninjaRc : Nat) : Nat := if ninjaRc == 0 then 0 else 1

/-- the targets given to ninja: the `out` of the selected configured builds, in order -/
def selectedOuts (a : Args) (builds : List BuildInfo) : List String := (builds.filter (selected a)).map (·.out)

theorem ninjaArgv_plain (st : Settings) (a : Args) (fl : Flags) (targets : Option (List String)) :
    ninjaArgv (ninjaFile st a.mode) (fl.verbose > 0) fl.jobs (some fl.keepGoing) targets =
      flagArgs st a fl ++ targets.getD [] := by
  unfold ninjaArgv flagArgs
  cases fl.jobs <;> simp

/-- `laze build` without a task and without `-G`, in closed form -/
theorem runBuild_plain (st : Settings) (a : Args) (fl : Flags) (builds : List BuildInfo) (ninjaRc : Nat)
    (cmdFails : String → Bool) (hG : fl.generateOnly = false) :
    runBuild st a fl builds none ninjaRc cmdFails =
      if plainTargets a builds = some [] then ([], 0)
      else ([.ninja (flagArgs st a fl ++ (plainTargets a builds).getD [])], rcStatus ninjaRc) := by
  unfold runBuild
  simp only [hG, Bool.false_eq_true, if_false]
  split
  · rename_i h; rw [if_pos h]
  · rename_i h
    rw [if_neg h, ninjaArgv_plain]
    rfl

theorem plainTargets_selector {a : Args} (builds : List BuildInfo) (h : a.builders ≠ .all ∨ a.apps ≠ .all) :
    plainTargets a builds = some (selectedOuts a builds) := by
  unfold plainTargets
  split
  · rename_i h1 h2
    rcases h with h | h
    · exact absurd h1 h
    · exact absurd h2 h
  · rfl

theorem plainTargets_all {a : Args} (builds : List BuildInfo) (hb : a.builders = .all) (ha : a.apps = .all) :
    plainTargets a builds = none := by
  unfold plainTargets
  rw [hb, ha]

theorem selected_all {a : Args} (hb : a.builders = .all) (ha : a.apps = .all) (i : BuildInfo) : selected a i = true := by
  unfold selected
  rw [hb, ha]
  rfl

theorem selector_cases (a : Args) : (a.builders = .all ∧ a.apps = .all) ∨ (a.builders ≠ .all ∨ a.apps ≠ .all) := by
  by_cases h1 : a.builders = .all
  · by_cases h2 : a.apps = .all
    · exact .inl ⟨h1, h2⟩
    · exact .inr (.inr h2)
  · exact .inr (.inl h1)

theorem mem_selectedOuts {a : Args} {builds : List BuildInfo} {p : String} :
    p ∈ selectedOuts a builds ↔ ∃ i ∈ builds, selected a i = true ∧ p = i.out := by
  unfold selectedOuts
  rw [List.mem_map]
  constructor
  · rintro ⟨i, hi, rfl⟩
    rw [List.mem_filter] at hi
    exact ⟨i, hi.1, hi.2, rfl⟩
  · rintro ⟨i, hi, hs, rfl⟩
    exact ⟨i, List.mem_filter.mpr ⟨hi, hs⟩, rfl⟩

/-! ## 7. the targets stay within the selection -/

/-- **C18.7a** with a selector (`--builders` and/or `--apps`): ninja gets exactly the `out` of the
    configured builds matching the selection — and is not started at all when there is none (so it
    never falls back to "everything in the file") -/
theorem targets_exact_of_selector (st : Settings) (a : Args) (fl : Flags) (builds : List BuildInfo) (ninjaRc : Nat)
    (cmdFails : String → Bool) (hG : fl.generateOnly = false) (hsel : a.builders ≠ .all ∨ a.apps ≠ .all) :
    runBuild st a fl builds none ninjaRc cmdFails =
      if (builds.filter (selected a)).map (·.out) = [] then ([], 0)
      else ([.ninja (flagArgs st a fl ++ (builds.filter (selected a)).map (·.out))], rcStatus ninjaRc) := by
  rw [runBuild_plain st a fl builds ninjaRc cmdFails hG, plainTargets_selector builds hsel]
  unfold selectedOuts
  by_cases h : (builds.filter (selected a)).map (·.out) = []
  · rw [if_pos h, if_pos (by rw [h])]
  · rw [if_neg h, if_neg (by intro h'; exact h (Option.some.inj h'))]
    rfl

/-- **C18.7b** without a selector no targets are passed, and every build of the file is selected -/
theorem targets_none_of_all (st : Settings) (a : Args) (fl : Flags) (builds : List BuildInfo) (ninjaRc : Nat)
    (cmdFails : String → Bool) (hG : fl.generateOnly = false) (hb : a.builders = .all) (ha : a.apps = .all) :
    runBuild st a fl builds none ninjaRc cmdFails = ([.ninja (flagArgs st a fl)], rcStatus ninjaRc) ∧
    ∀ i : BuildInfo, selected a i = true := by
  refine ⟨?_, selected_all hb ha⟩
  rw [runBuild_plain st a fl builds ninjaRc cmdFails hG, plainTargets_all builds hb ha]
  simp

/-- **C18.7** every argument after the flags of a ninja invocation of a plain `laze build` is the
    `out` of a configured build selected by `--builders`/`--apps` -/
theorem targets_within_selection {st : Settings} {a : Args} {fl : Flags} {builds : List BuildInfo} {ninjaRc : Nat}
    {cmdFails : String → Bool} {argv : List String}
    (h : Spawn.ninja argv ∈ (runBuild st a fl builds none ninjaRc cmdFails).1) :
    ∃ targets, argv = flagArgs st a fl ++ targets ∧
      ∀ p ∈ targets, ∃ i ∈ builds, selected a i = true ∧ p = i.out := by
  cases hG : fl.generateOnly with
  | true =>
    unfold runBuild at h
    simp [hG] at h
  | false =>
    rw [runBuild_plain st a fl builds ninjaRc cmdFails hG] at h
    split at h
    · simp at h
    · simp only [List.mem_singleton, Spawn.ninja.injEq] at h
      refine ⟨_, h, ?_⟩
      rcases selector_cases a with ⟨hb, ha⟩ | hsel
      · rw [plainTargets_all builds hb ha]; simp
      · rw [plainTargets_selector builds hsel]
        intro p hp
        exact mem_selectedOuts.mp hp

/-! ## 8. the targets cover the selection -/

/-- **C18.8** every selected configured build is built: its `out` is one of the targets of the
    ninja invocation — or no selector was given and ninja runs without targets (= everything) -/
theorem targets_cover {st : Settings} {a : Args} {fl : Flags} {builds : List BuildInfo} {ninjaRc : Nat}
    {cmdFails : String → Bool} (hG : fl.generateOnly = false) {i : BuildInfo} (hi : i ∈ builds)
    (hs : selected a i = true) :
    (∃ targets, runBuild st a fl builds none ninjaRc cmdFails =
        ([.ninja (flagArgs st a fl ++ targets)], rcStatus ninjaRc) ∧ i.out ∈ targets) ∨
    (a.builders = .all ∧ a.apps = .all ∧
      runBuild st a fl builds none ninjaRc cmdFails = ([.ninja (flagArgs st a fl)], rcStatus ninjaRc)) := by
  rcases selector_cases a with ⟨hb, ha⟩ | hsel
  · exact .inr ⟨hb, ha, (targets_none_of_all st a fl builds ninjaRc cmdFails hG hb ha).1⟩
  · left
    have hm : i.out ∈ (builds.filter (selected a)).map (·.out) :=
      List.mem_map.mpr ⟨i, List.mem_filter.mpr ⟨hi, hs⟩, rfl⟩
    refine ⟨_, ?_, hm⟩
    rw [targets_exact_of_selector st a fl builds ninjaRc cmdFails hG hsel, if_neg (List.ne_nil_of_mem hm)]

/-! ## 9. flags, `-G`, exit status, clean -/

/-- **C18.9a** whenever a plain `laze build` starts ninja, the arguments are
    `-f <generated file> [-v] [-j n] -k <keep-going> <targets>` -/
theorem passes_flags {st : Settings} {a : Args} {fl : Flags} {builds : List BuildInfo} {ninjaRc : Nat}
    {cmdFails : String → Bool} {argv : List String}
    (h : Spawn.ninja argv ∈ (runBuild st a fl builds none ninjaRc cmdFails).1) :
    argv = ["-f", ninjaFile st a.mode] ++ (if fl.verbose > 0 then ["-v"] else []) ++
      (match fl.jobs with | some j => ["-j", toString j] | none => []) ++
      ["-k", toString fl.keepGoing] ++ (plainTargets a builds).getD [] ∧
    (runBuild st a fl builds none ninjaRc cmdFails).1 = [.ninja argv] := by
  cases hG : fl.generateOnly with
  | true =>
    unfold runBuild at h
    simp [hG] at h
  | false =>
    rw [runBuild_plain st a fl builds ninjaRc cmdFails hG] at h ⊢
    split at h
    · simp at h
    · rename_i hne
      simp only [List.mem_singleton, Spawn.ninja.injEq] at h
      rw [if_neg hne, h]
      exact ⟨rfl, rfl⟩

/-- the ninja invocation before a task (`laze build <task>`): `-f <generated file> [-v] [-j n]
    <targets>`; `-k` is not passed (`--keep-going` then counts failing tasks) -/
theorem passes_flags_task {st : Settings} {a : Args} {fl : Flags} {builds : List BuildInfo} {t : String}
    {args : List String} {ninjaRc : Nat} {cmdFails : String → Bool} {argv : List String}
    (h : Spawn.ninja argv ∈ (runBuild st a fl builds (some (t, args)) ninjaRc cmdFails).1) :
    argv = ["-f", ninjaFile st a.mode] ++ (if fl.verbose > 0 then ["-v"] else []) ++
      (match fl.jobs with | some j => ["-j", toString j] | none => []) ++
      ((C16.runnable a builds t).filter (fun p => p.2.build)).map (fun p => p.1.out) := by
  obtain ⟨hnr, hb, hG⟩ := C16.ninja_spawned_iff.mp ⟨argv, h⟩
  obtain ⟨rest, heq, hrest, _⟩ :=
    C16.build_first' (st := st) (args := args) (ninjaRc := ninjaRc) (cmdFails := cmdFails) hnr hb hG
  rw [heq, List.mem_cons] at h
  rcases h with h | h
  · injection h with h
    rw [h]
    unfold ninjaArgv
    cases fl.jobs <;> simp
  · exact absurd rfl (hrest _ h argv)

/-- **C18.9b** `-G`: nothing is spawned by a plain `laze build`, status 0 -/
theorem no_ninja_with_G (st : Settings) (a : Args) (fl : Flags) (builds : List BuildInfo) (ninjaRc : Nat)
    (cmdFails : String → Bool) (hG : fl.generateOnly = true) :
    runBuild st a fl builds none ninjaRc cmdFails = ([], 0) := by
  unfold runBuild
  simp [hG]

/-- `-G` with a task: ninja is not started either -/
theorem no_ninja_with_G_task (st : Settings) (a : Args) (fl : Flags) (builds : List BuildInfo) (t : String)
    (args : List String) (ninjaRc : Nat) (cmdFails : String → Bool) (hG : fl.generateOnly = true) :
    ∀ s ∈ (runBuild st a fl builds (some (t, args)) ninjaRc cmdFails).1, ∀ argv, s ≠ .ninja argv :=
  C16.no_build (.inr hG)

/-- **C18.9c** a plain `laze build` exits non-zero iff it started ninja and ninja failed -/
theorem rc_nonzero_iff (st : Settings) (a : Args) (fl : Flags) (builds : List BuildInfo) (ninjaRc : Nat)
    (cmdFails : String → Bool) :
    (runBuild st a fl builds none ninjaRc cmdFails).2 ≠ 0 ↔
      (∃ argv, Spawn.ninja argv ∈ (runBuild st a fl builds none ninjaRc cmdFails).1) ∧ ninjaRc ≠ 0 := by
  cases hG : fl.generateOnly with
  | true => rw [no_ninja_with_G st a fl builds ninjaRc cmdFails hG]; simp
  | false =>
    rw [runBuild_plain st a fl builds ninjaRc cmdFails hG]
    split
    · simp
    · unfold rcStatus
      by_cases hrc : ninjaRc = 0
      · simp [hrc]
      · simp [hrc]

/-- `ExitStatus::code()` → verdict: only the exit code `0` counts as success; a ninja killed by a signal (no exit code) and every
    non-zero code are failures -/
theorem ninjaVerdict_zero_iff (c : Option Int) : ninjaVerdict c = 0 ↔ c = some 0 := by
  cases c with
  | none => simp [ninjaVerdict]
  | some v =>
    by_cases h : v = 0
    · subst h; simp [ninjaVerdict]
    · have hn : v.natAbs ≠ 0 := by omega
      simp [ninjaVerdict, h, hn]

/-- **C18.9c'** a plain `laze build` that started ninja exits non-zero whenever ninja did not exit with code 0 — including when
    it was killed by a signal -/
theorem rc_nonzero_of_killed_or_failed {st : Settings} {a : Args} {fl : Flags} {builds : List BuildInfo} (code : Option Int)
    {cmdFails : String → Bool} {argv : List String}
    (h : Spawn.ninja argv ∈ (runBuild st a fl builds none (ninjaVerdict code) cmdFails).1) :
    (runBuild st a fl builds none (ninjaVerdict code) cmdFails).2 ≠ 0 ↔ code ≠ some 0 := by
  rw [rc_nonzero_iff]
  constructor
  · intro h' hc; exact h'.2 ((ninjaVerdict_zero_iff code).2 hc)
  · intro h'; exact ⟨⟨argv, h⟩, fun hz => h' ((ninjaVerdict_zero_iff code).1 hz)⟩

/-- the requested form: with a ninja spawn, status ≠ 0 ↔ `ninjaRc ≠ 0` -/
theorem rc_nonzero_iff' {st : Settings} {a : Args} {fl : Flags} {builds : List BuildInfo} {ninjaRc : Nat}
    {cmdFails : String → Bool} {argv : List String}
    (h : Spawn.ninja argv ∈ (runBuild st a fl builds none ninjaRc cmdFails).1) :
    (runBuild st a fl builds none ninjaRc cmdFails).2 ≠ 0 ↔ ninjaRc ≠ 0 := by
  rw [rc_nonzero_iff]
  exact ⟨fun h' => h'.2, fun h' => ⟨⟨argv, h⟩, h'⟩⟩

/-- **C18.9d** `laze clean [--unused]`: exactly one process, `ninja -f <file> [-v] -t clean|cleandead`,
    on the file `laze build` generates for the same mode; non-zero status iff ninja failed -/
theorem clean_argv (st : Settings) (mode : Mode) (unused : Bool) (verbose : Nat) (ninjaRc : Nat) :
    runClean st mode unused verbose ninjaRc =
      ([.ninja (["-f", ninjaFile st mode] ++ (if verbose > 0 then ["-v"] else []) ++
          ["-t", if unused then "cleandead" else "clean"])], if ninjaRc == 0 then 0 else 1) ∧
    ((runClean st mode unused verbose ninjaRc).2 ≠ 0 ↔ ninjaRc ≠ 0) := by
  constructor
  · unfold runClean ninjaArgv
    simp
  · unfold runClean
    by_cases hrc : ninjaRc = 0
    · simp [hrc]
    · simp [hrc]

/-- clean and build use the same file -/
theorem clean_same_file {st : Settings} {a : Args} {fl : Flags} {builds : List BuildInfo} {ninjaRc : Nat}
    {cmdFails : String → Bool} {argv : List String} (unused : Bool) (verbose rc : Nat)
    (h : Spawn.ninja argv ∈ (runBuild st a fl builds none ninjaRc cmdFails).1) :
    (∃ r1, argv = "-f" :: ninjaFile st a.mode :: r1) ∧
    (∃ r2, (runClean st a.mode unused verbose rc).1 = [.ninja ("-f" :: ninjaFile st a.mode :: r2)]) := by
  obtain ⟨h1, _⟩ := passes_flags h
  constructor
  · rw [h1]; exact ⟨_, rfl⟩
  · rw [(clean_argv st a.mode unused verbose rc).1]; exact ⟨_, rfl⟩

/-! ## examples: a file with two configured builds -/

def exBuilds : List BuildInfo :=
  [ { builder := "b1", app := "app", out := "build/out/b1/app/app.elf", modules := [], globalFlat := [],
      moduleFlat := [], tasks := [], entries := [] },
    { builder := "b2", app := "app", out := "build/out/b2/app/app.elf", modules := [], globalFlat := [],
      moduleFlat := [], tasks := [], entries := [] } ]

/-- no selector: everything in the file -/
example : runBuild {} {} {} exBuilds none 0 (fun _ => false) =
    ([.ninja ["-f", "build/build-global.ninja", "-k", "1"]], 0) := by decide +kernel
/-- `--builders b2 -j 4 -k 0 -v`, ninja fails -/
example : runBuild {} { builders := .some ["b2"] } { jobs := some 4, keepGoing := 0, verbose := 1 } exBuilds none 3
    (fun _ => false) =
    ([.ninja ["-f", "build/build-global.ninja", "-v", "-j", "4", "-k", "0", "build/out/b2/app/app.elf"]], 1) := by
  decide +kernel
/-- a selection without configured build (e.g. a stale or cached file): ninja is not started -/
example : runBuild {} { builders := .some ["b3"] } {} exBuilds none 0 (fun _ => false) = ([], 0) := by decide
/-- `--apps app`: both builds -/
example : plainTargets { apps := .some ["app"] } exBuilds =
    some ["build/out/b1/app/app.elf", "build/out/b2/app/app.elf"] := by decide
/-- `-G` -/
example : runBuild {} {} { generateOnly := true } exBuilds none 0 (fun _ => false) = ([], 0) := by decide
/-- `laze clean --unused -v` in local mode -/
example : runClean {} (.local "sub") true 1 0 =
    ([.ninja ["-f", "build/build-local.ninja", "-v", "-t", "cleandead"]], 0) := by decide +kernel
/-- the hypotheses of `targets_exact_of_selector` / `targets_cover` are satisfiable -/
example : ({ builders := .some ["b2"] } : Args).builders ≠ .all ∨ ({ builders := .some ["b2"] } : Args).apps ≠ .all :=
  .inl (by decide)
example : selected { builders := .some ["b2"] } (exBuilds[1]'(by decide)) = true := by decide

end Laze.C18
