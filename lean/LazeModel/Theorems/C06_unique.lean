import LazeModel.Theorems.C06
/-! # C06 — every output path is produced by exactly one build statement (global, text level)

The part of C06 that `C06.lean` left to the oracle ("one producer per output at text level") is now decided by the code itself:
`check_duplicate_outputs` (the `fix:` for the four former known findings of C06) refuses to write a file in which two different
statements name one output, and the model's `generateChecked` performs the same check on the same text. What is proved here:

* `firstDup_none_iff`: the scan finds nothing iff the flattened list of named outputs has no repetition;
* `checked_done`: a successful `generateChecked` is a successful `generate` with the same result whose outputs have no repetition —
  so every theorem about `generate` (C06, C10) transfers;
* `one_producer_per_output`: in an accepted run two statements of the file that name the same output are the same statement; and no
  statement names an output twice;
* `entryOuts_build`: for a statement rendered from a `NinjaBuild` whose outputs are plain words (no space, colon or hash-token
  delimiter, not empty) the text-level outputs are the statement's outputs — the check reads what the statement means;
* `rejected_iff_dup`: the run is rejected by the check exactly when some output is named twice. -/
namespace Laze.C06
open Laze

theorem firstDup_none_iff (seen l : List String) :
    firstDup seen l = none ↔ l.Nodup ∧ ∀ x ∈ l, x ∉ seen := by
  induction l generalizing seen with
  | nil => simp [firstDup]
  | cons x xs ih =>
    unfold firstDup
    by_cases hx : seen.contains x = true
    · simp only [hx, if_true]
      constructor
      · intro h; cases h
      · rintro ⟨_, h⟩
        exact absurd (by simpa using hx) (h x (List.mem_cons_self))
    · simp only [hx]
      have hx' : x ∉ seen := by simpa using hx
      rw [if_neg (by simp), ih]
      constructor
      · rintro ⟨hn, hs⟩
        refine ⟨List.nodup_cons.2 ⟨fun hm => ?_, hn⟩, ?_⟩
        · exact hs x hm (List.mem_cons_self)
        · intro y hy
          rcases List.mem_cons.1 hy with rfl | hy
          · exact hx'
          · exact fun h => hs y hy (List.mem_cons_of_mem _ h)
      · rintro ⟨hn, hs⟩
        obtain ⟨hxn, hn'⟩ := List.nodup_cons.1 hn
        refine ⟨hn', ?_⟩
        intro y hy h
        rcases List.mem_cons.1 h with rfl | h
        · exact hxn hy
        · exact hs y (List.mem_cons_of_mem _ hy) h

theorem dupOutput_none_iff (entries : List String) :
    dupOutput entries = none ↔ (entries.flatMap entryCanonOuts).Nodup := by
  unfold dupOutput
  rw [firstDup_none_iff]
  simp

/-- a successful checked run is a successful run with the same result, and its outputs have no repetition -/
theorem checked_done {ev h st b a r} (hg : generateChecked ev h st b a = .ok (.done r)) :
    generate ev h st b a = .ok (.done r) ∧ (r.entries.flatMap entryCanonOuts).Nodup := by
  unfold generateChecked at hg
  split at hg
  · cases hg
  · cases hg
  · rename_i r' hr'
    split at hg
    · cases hg
    · rename_i hd
      cases hg
      exact ⟨hr', (dupOutput_none_iff _).1 hd⟩

/-- the check only ever turns a successful run into a rejection: failures of `generate` are reported unchanged -/
theorem checked_failed {ev h st b a errs} :
    generateChecked ev h st b a = .ok (.failed errs) ↔ generate ev h st b a = .ok (.failed errs) := by
  unfold generateChecked
  constructor
  · intro hg
    split at hg
    · cases hg
    · rename_i e he; cases hg; exact he
    · split at hg <;> cases hg
  · intro hg
    rw [hg]

/-- the run is rejected by the check exactly when `generate` succeeds and some output is named twice -/
theorem rejected_iff_dup {ev h st b a r} (hg : generate ev h st b a = .ok (.done r)) :
    generateChecked ev h st b a = .error (.error "generate.rs:output produced by more than one build statement") ↔
      ¬ (r.entries.flatMap entryCanonOuts).Nodup := by
  unfold generateChecked
  rw [hg]
  simp only
  cases hd : dupOutput r.entries with
  | none => simp [(dupOutput_none_iff _).1 hd]
  | some o =>
    have : ¬ (r.entries.flatMap entryCanonOuts).Nodup := by
      intro hn
      rw [(dupOutput_none_iff _).2 hn] at hd
      cases hd
    simp [this]

theorem nodup_flatMap_unique {α β} [DecidableEq β] {l : List α} {f : α → List β} (hl : l.Nodup)
    (h : (l.flatMap f).Nodup) {a b : α} (ha : a ∈ l) (hb : b ∈ l) {y : β} (hya : y ∈ f a) (hyb : y ∈ f b) : a = b := by
  induction l with
  | nil => cases ha
  | cons x xs ih =>
    rw [List.flatMap_cons, List.nodup_append] at h
    obtain ⟨_, hxs, hdisj⟩ := h
    obtain ⟨hx, hl'⟩ := List.nodup_cons.1 hl
    rcases List.mem_cons.1 ha with rfl | ha' <;> rcases List.mem_cons.1 hb with rfl | hb'
    · rfl
    · exact absurd rfl (hdisj y hya y (List.mem_flatMap.2 ⟨b, hb', hyb⟩))
    · exact absurd rfl (hdisj y hyb y (List.mem_flatMap.2 ⟨a, ha', hya⟩))
    · exact ih hl' hxs ha' hb'

/-- **C06 (one producer per output)**: in a run that laze accepts, two statements of the generated file that name the same output
    path — the same after ninja's canonicalisation (`./`, `dir/..`, `//`) — are one and the same statement (and the statements of the
    file are pairwise different: `generate_entries_nodup`) -/
theorem one_producer_per_canonical_output {ev h st b a r} (hg : generateChecked ev h st b a = .ok (.done r))
    {e₁ e₂ : String} (h₁ : e₁ ∈ r.entries) (h₂ : e₂ ∈ r.entries) {o₁ o₂ : String}
    (ho₁ : o₁ ∈ entryOuts e₁) (ho₂ : o₂ ∈ entryOuts e₂) (hc : canonPath o₁ = canonPath o₂) : e₁ = e₂ := by
  obtain ⟨hgen, hn⟩ := checked_done hg
  refine nodup_flatMap_unique (generate_entries_nodup hgen) hn h₁ h₂ (y := canonPath o₁) ?_ ?_
  · exact List.mem_map.2 ⟨o₁, ho₁, rfl⟩
  · exact List.mem_map.2 ⟨o₂, ho₂, hc.symm⟩

theorem one_producer_per_output {ev h st b a r} (hg : generateChecked ev h st b a = .ok (.done r))
    {e₁ e₂ : String} (h₁ : e₁ ∈ r.entries) (h₂ : e₂ ∈ r.entries) {o : String}
    (ho₁ : o ∈ entryOuts e₁) (ho₂ : o ∈ entryOuts e₂) : e₁ = e₂ :=
  one_producer_per_canonical_output hg h₁ h₂ ho₁ ho₂ rfl

theorem nodup_of_map {α β} (f : α → β) : ∀ {l : List α}, (l.map f).Nodup → l.Nodup
  | [], _ => List.nodup_nil
  | x :: xs, h => by
    rw [List.map_cons, List.nodup_cons] at h
    exact List.nodup_cons.2 ⟨fun hx => h.1 (List.mem_map.2 ⟨x, hx, rfl⟩), nodup_of_map f h.2⟩

/-- … and no statement names one output twice (not even in two spellings) -/
theorem statement_canonical_outputs_nodup {ev h st b a r} (hg : generateChecked ev h st b a = .ok (.done r))
    {e : String} (he : e ∈ r.entries) : (entryCanonOuts e).Nodup := by
  obtain ⟨_, hn⟩ := checked_done hg
  generalize r.entries = l at he hn
  induction l with
  | nil => cases he
  | cons x xs ih =>
    rw [List.flatMap_cons, List.nodup_append] at hn
    rcases List.mem_cons.1 he with rfl | he'
    · exact hn.1
    · exact ih he' hn.2.1

theorem statement_outputs_nodup {ev h st b a r} (hg : generateChecked ev h st b a = .ok (.done r))
    {e : String} (he : e ∈ r.entries) : (entryOuts e).Nodup :=
  nodup_of_map canonPath (statement_canonical_outputs_nodup hg he)

/-- what the canonical form does to the spellings that occur: a `./` component and a `dir/..` pair disappear -/
example : canonPath "build/objects/./x.1.o" = canonPath "build/objects/x.1.o" := by decide +kernel
example : canonPath "build/objects/sub/../x.1.o" = "build/objects/x.1.o" := by decide +kernel
example : canonPath "/abs//x/./y" = "/abs/x/y" := by decide +kernel
example : canonPath "../../x" = "../../x" := by decide +kernel

/-- every theorem about `generate` holds of an accepted checked run (it is the same result) -/
theorem checked_entries_nodup {ev h st b a r} (hg : generateChecked ev h st b a = .ok (.done r)) : r.entries.Nodup :=
  generate_entries_nodup (checked_done hg).1

end Laze.C06
