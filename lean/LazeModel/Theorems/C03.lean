import LazeModel.Model.Gen
import LazeModel.Theorems.C09_perm
/-! C03 — the link statement of the app consumes exactly one object per source file of every
    selected module (optional sources iff their guard is selected), each object is produced by the
    rule whose input extension matches, taken from the nearest context of the builder's chain, and
    the output file is `${outfile}` (after POST_LINK if there is such a rule). -/
namespace Laze.C03
open Laze

/-! ## 1. optional sources -/

/-- the effective sources: the module's own, then (in map order) those of every optional entry
    whose guard is selected -/
theorem effSources_eq (r : Resolved) (m : Module) :
    effSources r m =
      m.sources ++ (((m.sourcesOptional.getD []).filter (fun kv => r.has kv.1)).flatMap (·.2)) := by
  unfold effSources
  congr 1
  induction (m.sourcesOptional.getD []) with
  | nil => rfl
  | cons kv t ih =>
    rw [List.flatMap_cons, ih, List.filter_cons]
    unfold optionalSourcesOf
    by_cases h : r.has kv.1 = true
    · rw [if_pos h, if_pos h, List.flatMap_cons]
    · rw [if_neg h, if_neg h, List.nil_append]

theorem mem_effSources {r : Resolved} {m : Module} {s : String} :
    s ∈ effSources r m ↔
      s ∈ m.sources ∨ ∃ g l, (g, l) ∈ m.sourcesOptional.getD [] ∧ r.has g = true ∧ s ∈ l := by
  unfold effSources
  rw [List.mem_append, List.mem_flatMap]
  constructor
  · rintro (h | ⟨kv, hkv, hs⟩)
    · exact Or.inl h
    · right
      unfold optionalSourcesOf at hs
      split at hs
      · rename_i hg
        exact ⟨kv.1, kv.2, hkv, hg, hs⟩
      · cases hs
  · rintro (h | ⟨g, l, hgl, hg, hs⟩)
    · exact Or.inl h
    · right
      refine ⟨(g, l), hgl, ?_⟩
      unfold optionalSourcesOf
      rw [if_pos hg]
      exact hs

/-- an optional source whose guard is not selected (and that is not a plain source or guarded by
    another, selected, module) is not compiled -/
theorem not_mem_effSources_of_unselected {r : Resolved} {m : Module} {s : String}
    (hs : s ∉ m.sources)
    (hg : ∀ g l, (g, l) ∈ m.sourcesOptional.getD [] → s ∈ l → r.has g = false) :
    s ∉ effSources r m := by
  intro h
  rcases mem_effSources.1 h with h | ⟨g, l, hgl, hsel, hsl⟩
  · exact hs h
  · rw [hg g l hgl hsl] at hsel
    cases hsel

example :
    effSources ⟨[{ name := "g", contextName := "default" }], []⟩
      { name := "m", contextName := "default", sources := ["a.c"],
        sourcesOptional := some [("g", ["b.c"]), ("h", ["c.c"])] } = ["a.c", "b.c"] := by decide

/-! ## 2. `addEntry` only appends -/

theorem mem_addEntry {es : List String} {e x : String} : x ∈ addEntry es e ↔ x ∈ es ∨ x = e := by
  unfold addEntry
  split
  · rename_i h
    constructor
    · exact Or.inl
    · rintro (h' | rfl)
      · exact h'
      · exact List.contains_iff_mem.1 h
  · rw [List.mem_append, List.mem_singleton]

theorem mem_addEntries {l es : List String} {x : String} : x ∈ addEntries es l ↔ x ∈ es ∨ x ∈ l := by
  unfold addEntries
  induction l generalizing es with
  | nil => simp
  | cons e t ih =>
    rw [List.foldl_cons, ih, mem_addEntry, List.mem_cons, or_assoc]

theorem addEntry_subset (es : List String) (e : String) : es ⊆ addEntry es e :=
  fun _ hx => mem_addEntry.2 (Or.inl hx)

theorem addEntries_subset (es l : List String) : es ⊆ addEntries es l :=
  fun _ hx => mem_addEntries.2 (Or.inl hx)

theorem addEntries_subset_right (es l : List String) : l ⊆ addEntries es l :=
  fun _ hx => mem_addEntries.2 (Or.inr hx)

/-- `addEntry` keeps the existing entries as a prefix -/
theorem addEntry_prefix (es : List String) (e : String) : ∃ t, addEntry es e = es ++ t := by
  unfold addEntry
  split
  · exact ⟨[], (List.append_nil _).symm⟩
  · exact ⟨[e], rfl⟩

theorem addEntries_prefix (es l : List String) : ∃ t, addEntries es l = es ++ t := by
  unfold addEntries
  induction l generalizing es with
  | nil => exact ⟨[], (List.append_nil _).symm⟩
  | cons e t ih =>
    obtain ⟨t₁, h₁⟩ := addEntry_prefix es e
    obtain ⟨t₂, h₂⟩ := ih (addEntry es e)
    refine ⟨t₁ ++ t₂, ?_⟩
    rw [List.foldl_cons, h₂, h₁, List.append_assoc]

/-! ## 2. one object per source, in order -/

/-- two lists related pointwise (core Lean has no `Forall₂`) -/
inductive Forall₂ {α β : Type} (R : α → β → Prop) : List α → List β → Prop
  | nil : Forall₂ R [] []
  | cons {a b as bs} : R a b → Forall₂ R as bs → Forall₂ R (a :: as) (b :: bs)

theorem Forall₂.length_eq {α β : Type} {R : α → β → Prop} {l : List α} {l' : List β}
    (h : Forall₂ R l l') : l.length = l'.length := by
  induction h with
  | nil => rfl
  | cons _ _ ih => rw [List.length_cons, List.length_cons, ih]

theorem Forall₂.imp {α β : Type} {R S : α → β → Prop} {l : List α} {l' : List β}
    (h : Forall₂ R l l') (hi : ∀ a b, R a b → S a b) : Forall₂ S l l' := by
  induction h with
  | nil => exact .nil
  | cons hab _ ih => exact .cons (hi _ _ hab) ih

/-- the i-th elements are related -/
theorem Forall₂.get {α β : Type} {R : α → β → Prop} {l : List α} {l' : List β}
    (h : Forall₂ R l l') (i : Nat) (hi : i < l.length) (hi' : i < l'.length) : R l[i] l'[i] := by
  induction h generalizing i with
  | nil => cases hi
  | cons hab _ ih =>
    cases i with
    | zero => exact hab
    | succ j => exact ih j (Nat.lt_of_succ_lt_succ hi) (Nat.lt_of_succ_lt_succ hi')

theorem Forall₂.map_right {α β γ : Type} {R : α → γ → Prop} (g : β → γ) {l : List α} {l' : List β}
    (h : Forall₂ (fun a b => R a (g b)) l l') : Forall₂ R l (l'.map g) := by
  induction h with
  | nil => exact .nil
  | cons hab _ ih => exact .cons hab ih

/-- `mapM` in `Except` succeeds iff the function succeeds pointwise -/
theorem mapM_ok_iff_forall₂ {ε α β : Type} (f : α → Except ε β) (l : List α) (res : List β) :
    l.mapM f = .ok res ↔ Forall₂ (fun a b => f a = .ok b) l res := by
  induction l generalizing res with
  | nil =>
    rw [List.mapM_nil]
    constructor
    · intro h; cases h; exact .nil
    · intro h; cases h; rfl
  | cons a t ih =>
    rw [List.mapM_cons]
    constructor
    · intro h
      cases hfa : f a with
      | error e => rw [hfa] at h; cases h
      | ok b =>
        rw [hfa] at h
        cases ht : t.mapM f with
        | error e => rw [ht] at h; cases h
        | ok bs =>
          rw [ht] at h
          cases h
          exact .cons hfa ((ih bs).1 ht)
    · intro h
      cases h with
      | cons hfa ht =>
        rw [hfa, (ih _).2 ht]
        rfl

section Loop
variable {ev : EvalExpr} {st : Settings} {builder appName : Name} {rules : List (String × Rule)}
  {mrules : List (String × NinjaRule)} {flat : Flat} {srcdir : String}
  {combined localDeps : Option (List String)} {srcTagfile : Option String}

/-- the entries after the compile loop: the statements of every source, added in order -/
theorem compileSourcesLoop_spec {sources entries objects entries' objects'}
    (h : compileSourcesLoop ev st builder appName rules mrules flat srcdir combined localDeps
          srcTagfile sources entries objects = .ok (entries', objects')) :
    ∃ res : List (String × List String),
      Forall₂ (fun s p => compileSource ev st builder appName rules mrules flat srcdir combined
        localDeps srcTagfile s = .ok p) sources res ∧
      objects' = objects ++ res.map (·.1) ∧
      entries' = res.foldl (fun es p => addEntries es p.2) entries := by
  induction sources generalizing entries objects with
  | nil =>
    unfold compileSourcesLoop at h
    cases h
    exact ⟨[], .nil, (List.append_nil _).symm, rfl⟩
  | cons s ss ih =>
    unfold compileSourcesLoop at h
    split at h
    · cases h
    · rename_i os hos
      obtain ⟨res, hres, hobj, hent⟩ := ih h
      refine ⟨os :: res, .cons hos hres, ?_, ?_⟩
      · rw [hobj, List.map_cons, List.append_assoc]; rfl
      · rw [hent, List.foldl_cons]

theorem mem_foldl_addEntries {res : List (String × List String)} {entries : List String} {x : String} :
    x ∈ res.foldl (fun es p => addEntries es p.2) entries ↔ x ∈ entries ∨ ∃ p ∈ res, x ∈ p.2 := by
  induction res generalizing entries with
  | nil => simp
  | cons p t ih =>
    rw [List.foldl_cons, ih, mem_addEntries]
    constructor
    · rintro ((h | h) | ⟨q, hq, hx⟩)
      · exact Or.inl h
      · exact Or.inr ⟨p, List.mem_cons_self, h⟩
      · exact Or.inr ⟨q, List.mem_cons_of_mem _ hq, hx⟩
    · rintro (h | ⟨q, hq, hx⟩)
      · exact Or.inl (Or.inl h)
      · cases hq with
        | head => exact Or.inl (Or.inr hx)
        | tail _ hq => exact Or.inr ⟨q, hq, hx⟩

/-- C03.2: the compile loop produces exactly one object per source, in order; every statement of
    every source is among the resulting entries, the old entries are kept and nothing else is added -/
theorem compileSourcesLoop_ok {sources entries objects entries' objects'}
    (h : compileSourcesLoop ev st builder appName rules mrules flat srcdir combined localDeps
          srcTagfile sources entries objects = .ok (entries', objects')) :
    ∃ res : List (String × List String),
      sources.mapM (compileSource ev st builder appName rules mrules flat srcdir combined localDeps
        srcTagfile) = .ok res ∧
      objects' = objects ++ res.map (·.1) ∧
      (∀ p ∈ res, ∀ x ∈ p.2, x ∈ entries') ∧
      entries ⊆ entries' ∧
      (∀ x ∈ entries', x ∈ entries ∨ ∃ p ∈ res, x ∈ p.2) := by
  obtain ⟨res, hres, hobj, hent⟩ := compileSourcesLoop_spec h
  refine ⟨res, (mapM_ok_iff_forall₂ _ _ _).2 hres, hobj, ?_, ?_, ?_⟩
  · intro p hp x hx
    rw [hent]
    exact mem_foldl_addEntries.2 (Or.inr ⟨p, hp, hx⟩)
  · intro x hx
    rw [hent]
    exact mem_foldl_addEntries.2 (Or.inl hx)
  · intro x hx
    rw [hent] at hx
    exact mem_foldl_addEntries.1 hx

/-! ## 3. per source -/

/-- C03.3: the object of a source and its compile statement -/
theorem compileSource_ok {s : String} {obj : String} {stmts : List String}
    (h : compileSource ev st builder appName rules mrules flat srcdir combined localDeps srcTagfile s
          = .ok (obj, stmts)) :
    ∃ srcpath ext rule nr out,
      expandSrcPath ev flat srcdir s = .ok srcpath ∧
      pathExtension srcpath = some ext ∧
      rulesGet rules ext = some rule ∧
      (mrules.find? (·.1 == ext)).map (·.2) = some nr ∧
      rule.out = some out ∧
      obj = objectPath st builder appName rule nr (depsHashOf combined) out srcpath ∧
      stmts = (buildFromRule nr (some [srcpath]) [obj] combined).render ::
                sourceDepStmts localDeps srcTagfile srcpath := by
  unfold compileSource at h
  split at h
  · cases h
  · rename_i srcpath hsp
    unfold compileStmts at h
    split at h
    · cases h
    · rename_i ext hext
      split at h
      · cases h
      · rename_i rn hrn
        split at h
        · cases h
        · rename_i out hout
          unfold lookupCompileRule at hrn
          split at hrn
          · cases hrn
          · rename_i rule hrule
            split at hrn
            · cases hrn
            · rename_i nr hnr
              cases hrn
              unfold compileOut at h
              cases h
              exact ⟨srcpath, ext, rule, nr, out, hsp, hext, hrule, hnr, hout, rfl, rfl⟩

/-- the FIRST statement of a source is the compile statement: exactly that one input, that one
    output, the rule `nr.name` -/
theorem compileSource_head {s : String} {obj : String} {stmts : List String}
    (h : compileSource ev st builder appName rules mrules flat srcdir combined localDeps srcTagfile s
          = .ok (obj, stmts)) :
    ∃ srcpath ext rule nr out,
      expandSrcPath ev flat srcdir s = .ok srcpath ∧
      pathExtension srcpath = some ext ∧
      rulesGet rules ext = some rule ∧
      rule.out = some out ∧
      obj = objectPath st builder appName rule nr (depsHashOf combined) out srcpath ∧
      stmts.head? = some (buildFromRule nr (some [srcpath]) [obj] combined).render ∧
      (buildFromRule nr (some [srcpath]) [obj] combined).inputs = some [srcpath] ∧
      (buildFromRule nr (some [srcpath]) [obj] combined).outs = [obj] ∧
      (buildFromRule nr (some [srcpath]) [obj] combined).rule = nr.name := by
  obtain ⟨srcpath, ext, rule, nr, out, h1, h2, h3, _, h5, h6, h7⟩ := compileSource_ok h
  exact ⟨srcpath, ext, rule, nr, out, h1, h2, h3, h5, h6, by rw [h7]; rfl, rfl, rfl, rfl⟩

end Loop

/-! ## 4. lifting through the module loop -/

section Lift
variable {ev : EvalExpr} {st : Settings} {builder appName : Name} {rules : List (String × Rule)}
  {flat : Flat} {srcdir : String}

theorem ruleForSource_ok {s : String} {en : String × NinjaRule}
    (h : ruleForSource ev rules flat s = .ok en) :
    ∃ rule, pathExtension s = some en.1 ∧ rulesGet rules en.1 = some rule ∧
      ruleToNinja ev rule flat = .ok en.2 := by
  unfold ruleForSource at h
  split at h
  · cases h
  · rename_i ext hext
    split at h
    · cases h
    · rename_i rule hrule
      split at h
      · cases h
      · rename_i nr hnr
        cases h
        exact ⟨rule, hext, hrule, hnr⟩

/-- every entry of the module's rule table is the conversion (in the module's env) of the global
    rule for that extension, and its rendering is among the entries -/
def MRulesOK (ev : EvalExpr) (rules : List (String × Rule)) (flat : Flat) (entries : List String)
    (mrules : List (String × NinjaRule)) : Prop :=
  ∀ p ∈ mrules, ∃ rule, rulesGet rules p.1 = some rule ∧ ruleToNinja ev rule flat = .ok p.2 ∧
    p.2.render ∈ entries

theorem MRulesOK.mono {entries entries' : List String} {mrules : List (String × NinjaRule)}
    (h : MRulesOK ev rules flat entries mrules) (hs : entries ⊆ entries') :
    MRulesOK ev rules flat entries' mrules := by
  intro p hp
  obtain ⟨rule, h1, h2, h3⟩ := h p hp
  exact ⟨rule, h1, h2, hs h3⟩

theorem moduleRulesLoop_ok {sources entries entries'} {mrules mrules' : List (String × NinjaRule)}
    (h : moduleRulesLoop ev rules flat sources entries mrules = .ok (entries', mrules'))
    (hm : MRulesOK ev rules flat entries mrules) :
    entries ⊆ entries' ∧ MRulesOK ev rules flat entries' mrules' := by
  induction sources generalizing entries mrules with
  | nil =>
    unfold moduleRulesLoop at h
    cases h
    exact ⟨fun _ hx => hx, hm⟩
  | cons s ss ih =>
    unfold moduleRulesLoop at h
    split at h
    · cases h
    · rename_i en hen
      obtain ⟨rule, _, hrule, hnr⟩ := ruleForSource_ok hen
      have hm' : MRulesOK ev rules flat (addEntry entries en.2.render) (addModuleRule mrules en.1 en.2) := by
        unfold addModuleRule
        split
        · exact hm.mono (addEntry_subset _ _)
        · intro p hp
          rcases List.mem_append.1 hp with hp | hp
          · exact (hm.mono (addEntry_subset _ _)) p hp
          · rw [List.mem_singleton] at hp
            subst hp
            exact ⟨rule, hrule, hnr, mem_addEntry.2 (Or.inr rfl)⟩
      obtain ⟨hsub, hok⟩ := ih h hm'
      exact ⟨fun x hx => hsub (addEntry_subset _ _ hx), hok⟩

/-- the lookup in a good rule table gives the conversion of the global rule for that extension -/
theorem MRulesOK.lookup {entries : List String} {mrules : List (String × NinjaRule)} {ext : String}
    {nr : NinjaRule} (hm : MRulesOK ev rules flat entries mrules)
    (h : (mrules.find? (·.1 == ext)).map (·.2) = some nr) :
    ∃ rule, rulesGet rules ext = some rule ∧ ruleToNinja ev rule flat = .ok nr ∧ nr.render ∈ entries := by
  cases hf : mrules.find? (·.1 == ext) with
  | none => rw [hf] at h; cases h
  | some p =>
    rw [hf] at h
    cases h
    have hp := List.mem_of_find?_eq_some hf
    have hk := List.find?_some hf
    have hk' : p.1 = ext := by simpa using hk
    rw [← hk']
    exact hm p hp

/-- what C03 says about one source `s` of a module (env `flat`, source directory `srcdir`, build-dep
    files `combined`) and its object `obj`: the object path is derived from the expanded source path
    and the rule found in the global rule table under the source's extension; that rule, converted
    in the module's env, and the compile statement (exactly one input: the source, exactly one
    output: the object) are among `entries` -/
def SourceObj (ev : EvalExpr) (st : Settings) (builder appName : Name) (rules : List (String × Rule))
    (flat : Flat) (srcdir : String) (combined : Option (List String)) (entries : List String)
    (s obj : String) : Prop :=
  ∃ srcpath ext rule nr out,
    expandSrcPath ev flat srcdir s = .ok srcpath ∧
    pathExtension srcpath = some ext ∧
    rulesGet rules ext = some rule ∧
    ruleToNinja ev rule flat = .ok nr ∧
    rule.out = some out ∧
    obj = objectPath st builder appName rule nr (depsHashOf combined) out srcpath ∧
    nr.render ∈ entries ∧
    (buildFromRule nr (some [srcpath]) [obj] combined).render ∈ entries

theorem SourceObj.mono {combined entries entries' s obj}
    (h : SourceObj ev st builder appName rules flat srcdir combined entries s obj)
    (hs : entries ⊆ entries') :
    SourceObj ev st builder appName rules flat srcdir combined entries' s obj := by
  obtain ⟨srcpath, ext, rule, nr, out, h1, h2, h3, h4, h5, h6, h7, h8⟩ := h
  exact ⟨srcpath, ext, rule, nr, out, h1, h2, h3, h4, h5, h6, hs h7, hs h8⟩

/-- a module without a `build:` section: exactly one object per source, in order, appended -/
theorem defaultBuildStep_ok {sources combined localDeps srcTagfile} {ls ls' : LoopState}
    (h : defaultBuildStep ev st builder appName rules flat srcdir sources combined localDeps
          srcTagfile ls = .ok ls') :
    ls.entries ⊆ ls'.entries ∧ ls'.files = ls.files ∧ ls'.downloadDirs = ls.downloadDirs ∧
    ∃ l, ls'.objects = ls.objects ++ l ∧
      Forall₂ (SourceObj ev st builder appName rules flat srcdir combined ls'.entries) sources l := by
  unfold defaultBuildStep at h
  split at h
  · cases h
  · rename_i em hem
    split at h
    · cases h
    · rename_i eo heo
      cases h
      have hm0 : MRulesOK ev rules flat ls.entries [] := fun p hp => nomatch hp
      obtain ⟨hsub1, hmr⟩ := moduleRulesLoop_ok (entries' := em.1) (mrules' := em.2) hem hm0
      obtain ⟨res, hres, hobj, hent⟩ := compileSourcesLoop_spec (entries' := eo.1) (objects' := eo.2) heo
      have hsub2 : em.1 ⊆ eo.1 := by
        intro x hx
        rw [hent]
        exact mem_foldl_addEntries.2 (Or.inl hx)
      refine ⟨fun x hx => hsub2 (hsub1 hx), rfl, rfl, res.map (·.1), hobj, ?_⟩
      apply Forall₂.map_right
      -- pointwise
      have hall : ∀ p ∈ res, ∀ x ∈ p.2, x ∈ eo.1 := by
        intro p hp x hx
        rw [hent]
        exact mem_foldl_addEntries.2 (Or.inr ⟨p, hp, hx⟩)
      clear hent hobj heo hem
      induction hres with
      | nil => exact .nil
      | @cons s p ss ps hsp _ ih =>
        refine .cons ?_ (ih (fun q hq => hall q (List.mem_cons_of_mem _ hq)))
        obtain ⟨obj, stmts⟩ := p
        obtain ⟨srcpath, ext, rule, nr, out, h1, h2, h3, h4, h5, h6, h7⟩ := compileSource_ok hsp
        obtain ⟨rule', hr', hnr, hrender⟩ := hmr.lookup h4
        rw [h3] at hr'
        cases hr'
        refine ⟨srcpath, ext, rule, nr, out, h1, h2, h3, hnr, h5, h6, hsub2 hrender, ?_⟩
        apply hall (obj, stmts) List.mem_cons_self
        show _ ∈ stmts
        rw [h7]
        exact List.mem_cons_self

/-- a module with a `build:` section adds no objects -/
theorem customBuildStep_ok {m : Module} {sources combined cb} {ls ls' : LoopState}
    (h : customBuildStep ev flat m srcdir sources combined cb ls = .ok ls') :
    ls.entries ⊆ ls'.entries ∧ ls'.objects = ls.objects := by
  unfold customBuildStep at h
  split at h
  · cases h
  unfold customBuildStepCore at h
  simp only [bind, Except.bind, pure, Except.pure] at h
  split at h
  · cases h
  · split at h
    · cases h
    · split at h
      · cases h
      · split at h
        · cases h
        · cases h
          exact ⟨addEntries_subset _ _, rfl⟩

theorem downloadStep_ok {m : Module} {ls : LoopState} {lt : LoopState × Option String}
    (h : downloadStep ev m srcdir rules flat ls = .ok lt) :
    ls.entries ⊆ lt.1.entries ∧ lt.1.objects = ls.objects := by
  unfold downloadStep at h
  split at h
  · split at h
    · cases h
    · cases h
      exact ⟨addEntries_subset _ _, rfl⟩
  · split at h
    · cases h
    · cases h
      exact ⟨fun _ hx => hx, rfl⟩

theorem registerLocalDeps_objects (m : Module) (ls : LoopState) :
    (registerLocalDeps m ls).objects = ls.objects ∧ (registerLocalDeps m ls).entries = ls.entries := by
  unfold registerLocalDeps
  split <;> exact ⟨rfl, rfl⟩

/-- the objects a module with source directory `srcdir` and env `flat` appends -/
def BuildObjs (ev : EvalExpr) (st : Settings) (builder appName : Name) (r : Resolved)
    (rules : List (String × Rule)) (m : Module) (srcdir : String) (flat : Flat)
    (entries : List String) (l : List String) : Prop :=
  (m.build.isSome = true ∧ l = []) ∨
  (m.build = none ∧ ∃ combined,
    Forall₂ (SourceObj ev st builder appName rules flat srcdir combined entries) (effSources r m) l)

theorem BuildObjs.mono {r : Resolved} {m : Module} {entries entries' l}
    (h : BuildObjs ev st builder appName r rules m srcdir flat entries l) (hs : entries ⊆ entries') :
    BuildObjs ev st builder appName r rules m srcdir flat entries' l := by
  rcases h with h | ⟨hb, combined, h⟩
  · exact Or.inl h
  · exact Or.inr ⟨hb, combined, h.imp (fun _ _ hab => hab.mono hs)⟩

theorem buildStep_ok {m : Module} {sources combined srcTagfile} {ls ls' : LoopState}
    (h : buildStep ev st builder appName rules flat m srcdir sources combined srcTagfile ls = .ok ls') :
    ls.entries ⊆ ls'.entries ∧
    ∃ l, ls'.objects = ls.objects ++ l ∧
      ((m.build.isSome = true ∧ l = []) ∨
       (m.build = none ∧
         Forall₂ (SourceObj ev st builder appName rules flat srcdir combined ls'.entries) sources l)) := by
  unfold buildStep at h
  split at h
  · rename_i cb hcb
    obtain ⟨h1, h2⟩ := customBuildStep_ok h
    exact ⟨h1, [], by rw [h2, List.append_nil], Or.inl ⟨by rw [hcb]; rfl, rfl⟩⟩
  · rename_i hb
    obtain ⟨h1, _, _, l, h2, h3⟩ := defaultBuildStep_ok h
    exact ⟨h1, l, h2, Or.inr ⟨hb, h3⟩⟩

theorem moduleStmts_ok {app : Module} {r : Resolved} {globals : List Name} {m : Module} {bdeps}
    {ls ls' : LoopState}
    (h : moduleStmts ev st builder app r rules globals m bdeps srcdir flat ls = .ok ls') :
    ls.entries ⊆ ls'.entries ∧
    ∃ l, ls'.objects = ls.objects ++ l ∧
      BuildObjs ev st builder app.name r rules m srcdir flat ls'.entries l := by
  unfold moduleStmts at h
  split at h
  · cases h
  · rename_i lt hlt
    split at h
    · cases h
    · rename_i imported _
      obtain ⟨hd1, hd2⟩ := downloadStep_ok hlt
      obtain ⟨hr1, hr2⟩ := registerLocalDeps_objects m lt.1
      obtain ⟨hb1, l, hb2, hb3⟩ := buildStep_ok h
      refine ⟨fun x hx => hb1 (hr2 ▸ hd1 hx), l, ?_, ?_⟩
      · rw [hb2, hr1, hd2]
      · rcases hb3 with hb3 | ⟨hb, hb3⟩
        · exact Or.inl hb3
        · exact Or.inr ⟨hb, _, hb3⟩

/-- the objects one module of the build order appends: none for a context module (no source
    directory) or a custom-build module, else one per effective source, in order -/
def ModuleObjs (ev : EvalExpr) (st : Settings) (builder appName : Name) (r : Resolved)
    (rules : List (String × Rule)) (opts : Option VarOpts) (m : Module) (menv : Env)
    (entries : List String) (l : List String) : Prop :=
  (m.srcdir = none ∧ l = []) ∨
  (∃ srcdir flat, m.srcdir = some srcdir ∧ moduleFlat opts menv = .ok flat ∧
    BuildObjs ev st builder appName r rules m srcdir flat entries l)

theorem ModuleObjs.mono {r : Resolved} {opts} {m : Module} {menv} {entries entries' l}
    (h : ModuleObjs ev st builder appName r rules opts m menv entries l) (hs : entries ⊆ entries') :
    ModuleObjs ev st builder appName r rules opts m menv entries' l := by
  rcases h with h | ⟨sd, fl, h1, h2, h3⟩
  · exact Or.inl h
  · exact Or.inr ⟨sd, fl, h1, h2, h3.mono hs⟩

theorem moduleStep_ok {app : Module} {r : Resolved} {opts} {globals : List Name} {m : Module} {menv bdeps}
    {ls : LoopState} {lf : LoopState × Option (Name × Flat)}
    (h : moduleStep ev st builder app r rules opts globals m menv bdeps ls = .ok lf) :
    ls.entries ⊆ lf.1.entries ∧
    ∃ l, lf.1.objects = ls.objects ++ l ∧
      ModuleObjs ev st builder app.name r rules opts m menv lf.1.entries l := by
  unfold moduleStep at h
  split at h
  · rename_i hsd
    cases h
    exact ⟨fun _ hx => hx, [], (List.append_nil _).symm, Or.inl ⟨hsd, rfl⟩⟩
  · rename_i sd hsd
    split at h
    · cases h
    · rename_i fl hfl
      split at h
      · cases h
      · rename_i ls' hls'
        cases h
        obtain ⟨h1, l, h2, h3⟩ := moduleStmts_ok hls'
        exact ⟨h1, l, h2, Or.inr ⟨sd, fl, hsd, hfl, h3⟩⟩

/-- context modules add no objects -/
theorem moduleStep_context_objects {app : Module} {r : Resolved} {opts} {globals : List Name} {m : Module}
    {menv bdeps} {ls : LoopState} {lf : LoopState × Option (Name × Flat)}
    (hm : m.srcdir = none)
    (h : moduleStep ev st builder app r rules opts globals m menv bdeps ls = .ok lf) :
    lf.1.objects = ls.objects := by
  obtain ⟨_, l, h2, h3⟩ := moduleStep_ok h
  rcases h3 with ⟨_, hl⟩ | ⟨sd, _, hsd, _⟩
  · rw [h2, hl, List.append_nil]
  · rw [hm] at hsd; cases hsd

/-- custom-build modules add no objects -/
theorem moduleStep_custom_objects {app : Module} {r : Resolved} {opts} {globals : List Name} {m : Module}
    {menv bdeps} {ls : LoopState} {lf : LoopState × Option (Name × Flat)} {cb : CustomBuild}
    (hm : m.build = some cb)
    (h : moduleStep ev st builder app r rules opts globals m menv bdeps ls = .ok lf) :
    lf.1.objects = ls.objects := by
  obtain ⟨_, l, h2, h3⟩ := moduleStep_ok h
  rcases h3 with ⟨_, hl⟩ | ⟨sd, _, _, _, ⟨_, hl⟩ | ⟨hb, _⟩⟩
  · rw [h2, hl, List.append_nil]
  · rw [h2, hl, List.append_nil]
  · rw [hm] at hb; cases hb

/-- a default-build module adds exactly one object per effective source, in order -/
theorem moduleStep_default_objects {app : Module} {r : Resolved} {opts} {globals : List Name} {m : Module}
    {menv bdeps} {ls : LoopState} {lf : LoopState × Option (Name × Flat)} {sd : String}
    (hsd : m.srcdir = some sd) (hb : m.build = none)
    (h : moduleStep ev st builder app r rules opts globals m menv bdeps ls = .ok lf) :
    ∃ fl combined l, moduleFlat opts menv = .ok fl ∧ lf.1.objects = ls.objects ++ l ∧
      l.length = (effSources r m).length ∧
      Forall₂ (SourceObj ev st builder app.name rules fl sd combined lf.1.entries) (effSources r m) l := by
  obtain ⟨_, l, h2, h3⟩ := moduleStep_ok h
  rcases h3 with ⟨hn, _⟩ | ⟨sd', fl, hsd', hfl, ⟨hs, _⟩ | ⟨_, combined, hf⟩⟩
  · rw [hsd] at hn; cases hn
  · rw [hb] at hs; cases hs
  · rw [hsd] at hsd'
    cases hsd'
    exact ⟨fl, combined, l, hfl, h2, hf.length_eq.symm, hf⟩

/-- the module loop: the objects grow by appending, one block per module of the build order -/
theorem modulesLoop_ok {app : Module} {r : Resolved} {opts} {globals : List Name} {menvs : List ModEnv}
    {order : List Name} {ls : LoopState} {mflats : List (Name × Flat)} {lm : LoopState × List (Name × Flat)}
    (h : modulesLoop ev st builder app r rules opts globals menvs order ls mflats = .ok lm) :
    ls.entries ⊆ lm.1.entries ∧
    ∃ ll : List (List String), lm.1.objects = ls.objects ++ ll.flatten ∧
      Forall₂ (fun n l => ∃ me, me ∈ menvs ∧ me.1.name = n ∧ menvs.find? (·.1.name == n) = some me ∧
        ModuleObjs ev st builder app.name r rules opts me.1 me.2.1 lm.1.entries l) order ll := by
  induction order generalizing ls mflats with
  | nil =>
    unfold modulesLoop at h
    cases h
    exact ⟨fun _ hx => hx, [], by simp, .nil⟩
  | cons n ns ih =>
    unfold modulesLoop at h
    split at h
    · cases h
    · rename_i me hme
      split at h
      · cases h
      · rename_i lf hlf
        obtain ⟨h1, l, h2, h3⟩ := moduleStep_ok hlf
        obtain ⟨i1, ll, i2, i3⟩ := ih h
        refine ⟨fun x hx => i1 (h1 hx), l :: ll, ?_, .cons ⟨me, ?_, ?_, hme, h3.mono i1⟩ i3⟩
        · rw [i2, h2, List.flatten_cons, List.append_assoc]
        · exact List.mem_of_find?_eq_some hme
        · simpa using List.find?_some hme

end Lift

/-! ## 5. the link statement -/

section Link
variable {ev : EvalExpr} {st : Settings} {b : Bag} {builder : Name} {app : Module}

/-- the link statement of a build: rule `linkRule`, inputs exactly `objects`, output `outfile` -/
def linkStmt (linkRule : NinjaRule) (objects : List String) (outfile : String)
    (globals : List Name) (files : FileTable) : NinjaBuild :=
  buildFromRule linkRule (some objects) [outfile] (globalDepFiles globals files)

theorem linkStmt_inputs (linkRule objects outfile globals files) :
    (linkStmt linkRule objects outfile globals files).inputs = some objects ∧
    (linkStmt linkRule objects outfile globals files).outs = [outfile] ∧
    (linkStmt linkRule objects outfile globals files).rule = linkRule.name := ⟨rfl, rfl, rfl⟩

/-- C03.5: the link statement consumes exactly `ls.objects` -/
theorem linkStep_ok {rules : List (String × Rule)} {gflat : Flat} {globals : List Name} {outfile : String}
    {ls : LoopState} {entries : List String}
    (h : linkStep ev rules gflat globals outfile ls = .ok entries) :
    ∃ lr linkRule, rulesByName rules "LINK" = some lr ∧ ruleToNinja ev lr gflat = .ok linkRule ∧
      entries = addEntries ls.entries
        [linkRule.render, (linkStmt linkRule ls.objects outfile globals ls.files).render] ∧
      linkRule.render ∈ entries ∧
      (buildFromRule linkRule (some ls.objects) [outfile] (globalDepFiles globals ls.files)).render ∈ entries ∧
      ls.entries ⊆ entries := by
  unfold linkStep at h
  split at h
  · cases h
  · rename_i lr hlr
    split at h
    · cases h
    · rename_i linkRule hlink
      cases h
      refine ⟨lr, linkRule, hlr, hlink, rfl, ?_, ?_, addEntries_subset _ _⟩
      · exact addEntries_subset_right _ _ List.mem_cons_self
      · exact addEntries_subset_right _ _ (List.mem_cons_of_mem _ List.mem_cons_self)

/-- C03.7 (local form): the optional POST_LINK step -/
theorem postLinkStep_ok {rules : List (String × Rule)} {gflat : Flat} {outfile : String}
    {entries : List String} {eo : List String × String}
    (h : postLinkStep ev rules gflat outfile entries = .ok eo) :
    entries ⊆ eo.1 ∧
    ((rulesByName rules "POST_LINK" = none ∧ eo.2 = outfile ∧ eo.1 = entries) ∨
     (∃ pr ext pl, rulesByName rules "POST_LINK" = some pr ∧ pr.out = some ext ∧
        ruleToNinja ev pr gflat = .ok pl ∧ eo.2 = pathWithExtension outfile ext ∧
        pl.render ∈ eo.1 ∧
        (buildFromRule pl (some [outfile]) [pathWithExtension outfile ext] none).render ∈ eo.1)) := by
  unfold postLinkStep at h
  split at h
  · rename_i hn
    cases h
    exact ⟨fun _ hx => hx, Or.inl ⟨hn, rfl, rfl⟩⟩
  · rename_i pr hpr
    split at h
    · cases h
    · rename_i ext hext
      split at h
      · cases h
      · rename_i pl hpl
        cases h
        refine ⟨addEntries_subset _ _, Or.inr ⟨pr, ext, pl, hpr, hext, hpl, rfl, ?_, ?_⟩⟩
        · exact addEntries_subset_right _ _ List.mem_cons_self
        · exact addEntries_subset_right _ _ (List.mem_cons_of_mem _ List.mem_cons_self)

/-- the output file of a build whose `${outfile}` evaluates to `outfile` -/
def finalOut (rules : List (String × Rule)) (outfile : String) : String :=
  match rulesByName rules "POST_LINK" with
  | none => outfile
  | some pr => pathWithExtension outfile (pr.out.getD "")

theorem postLinkStep_out {rules : List (String × Rule)} {gflat : Flat} {outfile : String}
    {entries : List String} {eo : List String × String}
    (h : postLinkStep ev rules gflat outfile entries = .ok eo) : eo.2 = finalOut rules outfile := by
  obtain ⟨_, ⟨hn, ho, _⟩ | ⟨pr, ext, pl, hpr, hext, _, ho, _⟩⟩ := postLinkStep_ok h
  · unfold finalOut; rw [hn]; exact ho
  · unfold finalOut; rw [hpr, ho]; simp only [hext, Option.getD_some]

theorem finishBuild_ok {r : Resolved} {rules : List (String × Rule)} {gflat : Flat} {outfile : String}
    {globals : List Name} {ls : LoopState} {mflats : List (Name × Flat)} {i : BuildInfo}
    (h : finishBuild ev b builder app r rules gflat outfile globals ls mflats = .ok i) :
    ls.entries ⊆ i.entries ∧
    i.out = finalOut rules outfile ∧
    (∃ lr linkRule, rulesByName rules "LINK" = some lr ∧ ruleToNinja ev lr gflat = .ok linkRule ∧
      linkRule.render ∈ i.entries ∧
      (buildFromRule linkRule (some ls.objects) [outfile] (globalDepFiles globals ls.files)).render
        ∈ i.entries) ∧
    ((rulesByName rules "POST_LINK" = none ∧ i.out = outfile) ∨
     (∃ pr ext pl, rulesByName rules "POST_LINK" = some pr ∧ pr.out = some ext ∧
        ruleToNinja ev pr gflat = .ok pl ∧ i.out = pathWithExtension outfile ext ∧
        pl.render ∈ i.entries ∧
        (buildFromRule pl (some [outfile]) [pathWithExtension outfile ext] none).render ∈ i.entries)) := by
  unfold finishBuild at h
  split at h
  · cases h
  · rename_i entries1 hlink
    split at h
    · cases h
    · rename_i eo hpost
      split at h
      · cases h
      · cases h
        obtain ⟨lr, linkRule, h1, h2, _, h4, h5, h6⟩ := linkStep_ok hlink
        obtain ⟨p1, p2⟩ := postLinkStep_ok hpost
        refine ⟨fun x hx => p1 (h6 hx), postLinkStep_out hpost, ⟨lr, linkRule, h1, h2, p1 h4, p1 h5⟩, ?_⟩
        rcases p2 with ⟨q1, q2, _⟩ | q
        · exact Or.inl ⟨q1, q2⟩
        · exact Or.inr q

theorem unwrapX_ok {α : Type} {site : String} {x : Except XErr α} {v : α}
    (h : unwrapX site x = .ok v) : x = .ok v := by
  unfold unwrapX at h
  split at h
  · cases h; rfl
  · cases h
  · cases h

/-- everything a successful `configureBuild` went through -/
theorem configureBuild_inv {cli : Cli} {i : BuildInfo}
    (h : configureBuild ev st b builder app cli = .ok (.build i)) :
    ∃ rs gflat outfile menvs order ls mflats,
      resolveTop b builder app cli = .ok rs ∧
      globalFlat (builderVarOpts b builder)
        (globalEnv st b builder app (resolvedOf b builder (appClone app builder cli) rs) cli) = .ok gflat ∧
      expandS gflat .empty "${outfile}" = .ok outfile ∧
      moduleEnvs (resolvedOf b builder (appClone app builder cli) rs)
        (globalEnv st b builder app (resolvedOf b builder (appClone app builder cli) rs) cli)
        (resolvedOf b builder (appClone app builder cli) rs).modules = .ok menvs ∧
      buildOrder (menvs.map ModEnv.deps) = some order ∧
      modulesLoop ev st builder app (resolvedOf b builder (appClone app builder cli) rs)
        (b.collectRules builder) (builderVarOpts b builder)
        (globalBuildDeps (resolvedOf b builder (appClone app builder cli) rs)) menvs order {} []
        = .ok (ls, mflats) ∧
      finishBuild ev b builder app (resolvedOf b builder (appClone app builder cli) rs)
        (b.collectRules builder) gflat outfile
        (globalBuildDeps (resolvedOf b builder (appClone app builder cli) rs)) ls mflats = .ok i := by
  unfold configureBuild at h
  split at h
  · cases h
  · split at h
    · cases h
    · split at h
      · cases h
      · rename_i rs hrs
        unfold configureResolved configureSelection at h
        split at h
        · cases h
        · rename_i gflat hgflat
          unfold configureWithEnv at h
          split at h
          · cases h
          · rename_i outfile hout
            split at h
            · cases h
            · rename_i menvs hmenvs
              unfold configureOrdered at h
              split at h
              · cases h
              · rename_i order horder
                split at h
                · cases h
                · rename_i lm hlm
                  split at h
                  · cases h
                  · rename_i i' hfin
                    cases h
                    exact ⟨rs, gflat, outfile, menvs, order, lm.1, lm.2, hrs, hgflat, unwrapX_ok hout,
                      hmenvs, horder, hlm, hfin⟩

end Link

/-! ## 6. the nearest rule -/

/-- the key under which `collect_rules` files a rule: its input extension, else its name -/
def ruleKey (r : Rule) : String := r.in_.getD r.name

/-- the LAST rule of a list with key `k` -/
def lastWithKey (rs : List Rule) (k : String) : Option Rule := rs.reverse.find? (fun r => ruleKey r == k)

theorem lastWithKey_cons (r : Rule) (rs : List Rule) (k : String) :
    lastWithKey (r :: rs) k = (lastWithKey rs k).or (if ruleKey r = k then some r else none) := by
  unfold lastWithKey
  rw [List.reverse_cons, List.find?_append, List.find?_cons]
  by_cases h : ruleKey r = k
  · simp [h]
  · have hb : (ruleKey r == k) = false := beq_eq_false_iff_ne.2 h
    simp [hb, h]

theorem rulesGet_eq_lk (rules : List (String × Rule)) (k : String) : rulesGet rules k = C09.lk rules k := rfl

/-- one context's rules inserted on top of `acc` -/
theorem lk_foldl_rules (rs : List Rule) (acc : List (String × Rule)) (k : String) :
    C09.lk (rs.foldl (fun acc r => insertKeyed acc (r.in_.getD r.name) r) acc) k =
      (lastWithKey rs k).or (C09.lk acc k) := by
  induction rs generalizing acc with
  | nil => simp [lastWithKey]
  | cons r t ih =>
    rw [List.foldl_cons, ih, C09.lk_insertKeyed, lastWithKey_cons]
    show _ = ((lastWithKey t k).or (if r.in_.getD r.name = k then some r else none)).or _
    rw [Option.or_assoc]
    congr 1
    by_cases h : r.in_.getD r.name = k
    · rw [if_pos h, if_pos h.symm]; rfl
    · rw [if_neg h, if_neg (fun e => h e.symm)]; rfl

theorem lk_foldl_contexts (cs : List Context) (acc : List (String × Rule)) (k : String) :
    C09.lk (cs.foldl (fun acc x =>
        (x.rules.getD []).foldl (fun acc r => insertKeyed acc (r.in_.getD r.name) r) acc) acc) k =
      (cs.reverse.findSome? (fun x => lastWithKey (x.rules.getD []) k)).or (C09.lk acc k) := by
  induction cs generalizing acc with
  | nil => simp
  | cons x t ih =>
    rw [List.foldl_cons, ih, lk_foldl_rules, List.reverse_cons, List.findSome?_append, Option.or_assoc]
    congr 1
    simp [List.findSome?_cons]
    cases lastWithKey (x.rules.getD []) k <;> rfl

/-- C03.6: the rule for key `k` is the one of the NEAREST context on the builder's chain that has a
    rule with that key, and within that context the LAST such rule -/
theorem rule_nearest (b : Bag) (c : Name) (k : String) :
    rulesGet (b.collectRules c) k =
      (b.chainCtx c).findSome? (fun x => lastWithKey (x.rules.getD []) k) := by
  rw [rulesGet_eq_lk]
  unfold Bag.collectRules
  rw [lk_foldl_contexts, List.reverse_reverse]
  simp

/-- the rule found has the requested key -/
theorem rule_nearest_key {b : Bag} {c : Name} {k : String} {r : Rule}
    (h : rulesGet (b.collectRules c) k = some r) : ruleKey r = k ∧
      ∃ x ∈ b.chainCtx c, r ∈ x.rules.getD [] := by
  rw [rule_nearest] at h
  obtain ⟨x, hx, hl⟩ := List.exists_of_findSome?_eq_some h
  unfold lastWithKey at hl
  have h1 := List.find?_some hl
  have h2 := List.mem_of_find?_eq_some hl
  exact ⟨by simpa using h1, x, hx, List.mem_reverse.1 h2⟩

/-! ## 7b. the build order contains every selected module exactly once -/

section Order

theorem find?_map_keyfix {α : Type} (f : String × α → String × α) (hf : ∀ e, (f e).1 = e.1)
    (es : List (String × α)) (k : String) :
    (es.map f).find? (·.1 == k) = (es.find? (·.1 == k)).map f := by
  induction es with
  | nil => rfl
  | cons e t ih =>
    rw [List.map_cons, List.find?_cons, List.find?_cons, hf e]
    cases (e.1 == k)
    · exact ih
    · rfl

/-- `n → d` is an edge of the graph -/
def HasEdge (g : DepGraph) (n d : Name) : Prop := ∃ dl, g.deps n = some dl ∧ d ∈ dl

theorem deps_add (g : DepGraph) (n d n' : Name) :
    (g.add n d).deps n' =
      if n' = n then
        some (match g.deps n with
              | some dl => if dl.contains d then dl else dl ++ [d]
              | none => [d])
      else g.deps n' := by
  unfold DepGraph.add DepGraph.deps
  dsimp only
  by_cases hany : g.edges.any (·.1 == n) = true
  · rw [if_pos hany, find?_map_keyfix]
    · by_cases hn : n' = n
      · subst hn
        rw [if_pos rfl]
        cases hf : g.edges.find? (·.1 == n') with
        | none =>
          exfalso
          rw [List.find?_eq_none] at hf
          obtain ⟨e, he, hk⟩ := List.any_eq_true.1 hany
          exact hf e he hk
        | some e =>
          have hk : (e.1 == n') = true := by
            have := List.find?_some hf
            exact this
          simp only [Option.map_some, hk, if_true]
      · rw [if_neg hn]
        cases hf : g.edges.find? (·.1 == n') with
        | none => rfl
        | some e =>
          have hk : (e.1 == n') = true := by
            have := List.find?_some hf
            exact this
          have hne : (e.1 == n) = false := by
            apply beq_eq_false_iff_ne.2
            intro h
            apply hn
            rw [← h]
            exact (beq_iff_eq.1 hk).symm
          simp only [Option.map_some, hne, Bool.false_eq_true, if_false]
    · intro e
      split
      · rename_i h
        exact (beq_iff_eq.1 h).symm
      · rfl
  · rw [if_neg hany, List.find?_append]
    have hnone : g.edges.find? (·.1 == n) = none := by
      rw [List.find?_eq_none]
      intro e he hk
      exact hany (List.any_eq_true.2 ⟨e, he, hk⟩)
    by_cases hn : n' = n
    · subst hn
      rw [if_pos rfl, hnone]
      simp
    · rw [if_neg hn]
      have : (n == n') = false := beq_eq_false_iff_ne.2 (fun h => hn h.symm)
      simp [this]

theorem hasEdge_add_self (g : DepGraph) (n d : Name) : HasEdge (g.add n d) n d := by
  unfold HasEdge
  rw [deps_add, if_pos rfl]
  refine ⟨_, rfl, ?_⟩
  split
  · split
    · rename_i h; exact List.contains_iff_mem.1 h
    · exact List.mem_append_right _ List.mem_cons_self
  · exact List.mem_cons_self

theorem hasEdge_add_of (g : DepGraph) (n d : Name) {a c : Name} (h : HasEdge g a c) :
    HasEdge (g.add n d) a c := by
  obtain ⟨dl, hdl, hc⟩ := h
  unfold HasEdge
  rw [deps_add]
  by_cases ha : a = n
  · subst ha
    rw [if_pos rfl, hdl]
    refine ⟨_, rfl, ?_⟩
    dsimp only
    split
    · exact hc
    · exact List.mem_append_left _ hc
  · rw [if_neg ha]
    exact ⟨dl, hdl, hc⟩

theorem hasEdge_foldl_add {β : Type} (f : β → Name × Name) (l : List β) (g : DepGraph) {a c : Name}
    (h : HasEdge g a c) : HasEdge (l.foldl (fun g x => g.add (f x).1 (f x).2) g) a c := by
  induction l generalizing g with
  | nil => exact h
  | cons x t ih => exact ih _ (hasEdge_add_of g _ _ h)

theorem hasEdge_graphAddModuleEdges (g : DepGraph) (mb : Module × Option (List Name)) :
    HasEdge (graphAddModuleEdges g mb) rootNode mb.1.name := hasEdge_add_self _ _ _

theorem hasEdge_graphAddModuleEdges_of (g : DepGraph) (mb : Module × Option (List Name)) {a c : Name}
    (h : HasEdge g a c) : HasEdge (graphAddModuleEdges g mb) a c := by
  unfold graphAddModuleEdges
  apply hasEdge_add_of
  exact hasEdge_foldl_add (fun d => (mb.1.name, d)) _ g h

theorem hasEdge_graphAddModule (g : DepGraph) (mb : Module × Option (List Name)) :
    HasEdge (graphAddModule g mb) rootNode mb.1.name := by
  unfold graphAddModule
  split
  · exact hasEdge_add_of _ _ _ (hasEdge_graphAddModuleEdges g mb)
  · exact hasEdge_graphAddModuleEdges g mb

theorem hasEdge_graphAddModule_of (g : DepGraph) (mb : Module × Option (List Name)) {a c : Name}
    (h : HasEdge g a c) : HasEdge (graphAddModule g mb) a c := by
  unfold graphAddModule
  split
  · exact hasEdge_add_of _ _ _ (hasEdge_graphAddModuleEdges_of g mb h)
  · exact hasEdge_graphAddModuleEdges_of g mb h

theorem hasEdge_foldl_graphAddModule_of (mods : List (Module × Option (List Name))) (g : DepGraph)
    {a c : Name} (h : HasEdge g a c) : HasEdge (mods.foldl graphAddModule g) a c := by
  induction mods generalizing g with
  | nil => exact h
  | cons x t ih => exact ih _ (hasEdge_graphAddModule_of g x h)

theorem hasEdge_foldl_graphAddModule (mods : List (Module × Option (List Name))) (g : DepGraph)
    {mb : Module × Option (List Name)} (hm : mb ∈ mods) :
    HasEdge (mods.foldl graphAddModule g) rootNode mb.1.name := by
  induction mods generalizing g with
  | nil => cases hm
  | cons x t ih =>
    rw [List.foldl_cons]
    cases hm with
    | head => exact hasEdge_foldl_graphAddModule_of t _ (hasEdge_graphAddModule g mb)
    | tail _ hm => exact ih _ hm

/-- the root node depends on every module -/
theorem buildGraph_root (mods : List (Module × Option (List Name))) {mb : Module × Option (List Name)}
    (hm : mb ∈ mods) : HasEdge (buildGraph mods) rootNode mb.1.name :=
  hasEdge_foldl_graphAddModule mods _ hm

/-- the node `nextDependency` returns is unsatisfied and all its dependencies are satisfied -/
theorem nextDependency_ok {g : DepGraph} {sat : List Name} {fuel : Nat} {path : List Name} {pos p : Name}
    (h : nextDependency g sat fuel path pos = some p) (hpos : sat.contains pos = false) :
    sat.contains p = false ∧ ∀ d, HasEdge g p d → d ∈ sat := by
  induction fuel generalizing path pos with
  | zero => unfold nextDependency at h; cases h
  | succ f ih =>
    unfold nextDependency at h
    split at h
    · cases h
    · split at h
      · rename_i hd
        cases h
        refine ⟨hpos, ?_⟩
        rintro d ⟨dl, hdl, _⟩
        rw [hd] at hdl
        cases hdl
      · rename_i deplist hd
        split at h
        · rename_i n hn
          have := List.find?_some hn
          exact ih h (by simpa using this)
        · rename_i hnone
          cases h
          refine ⟨hpos, ?_⟩
          rintro d ⟨dl, hdl, hmem⟩
          rw [hd] at hdl
          cases hdl
          rw [List.find?_eq_none] at hnone
          have := hnone d hmem
          simpa using this

/-- the emission order is duplicate-free, closed under dependencies, contains the target, and none
    of its nodes depends on itself -/
theorem dependenciesOf_ok {g : DepGraph} {target : Name} {size fuel : Nat} {sat res : List Name}
    (h : dependenciesOf g target size fuel sat = some res)
    (hnd : sat.Nodup) (hcl : ∀ n ∈ sat, ∀ d, HasEdge g n d → d ∈ sat)
    (hns : ∀ n ∈ sat, ¬ HasEdge g n n) :
    res.Nodup ∧ (∀ n ∈ res, ∀ d, HasEdge g n d → d ∈ res) ∧ target ∈ res ∧
      ∀ n ∈ res, ¬ HasEdge g n n := by
  induction fuel generalizing sat with
  | zero => unfold dependenciesOf at h; cases h
  | succ f ih =>
    unfold dependenciesOf at h
    split at h
    · rename_i ht
      cases h
      exact ⟨hnd, hcl, List.contains_iff_mem.1 ht, hns⟩
    · rename_i ht
      split at h
      · cases h
      · rename_i n hn
        have ht' : sat.contains target = false := by simpa using ht
        obtain ⟨hn1, hn2⟩ := nextDependency_ok hn ht'
        have hn1' : n ∉ sat := by
          intro hmem
          rw [List.contains_iff_mem.2 hmem] at hn1
          cases hn1
        apply ih h
        · rw [List.nodup_append]
          refine ⟨hnd, List.nodup_cons.2 ⟨List.not_mem_nil, List.nodup_nil⟩, ?_⟩
          intro a ha c hc
          rw [List.mem_singleton] at hc
          rintro rfl
          exact hn1' (hc ▸ ha)
        · intro x hx d hd
          rcases List.mem_append.1 hx with hx | hx
          · exact List.mem_append_left _ (hcl x hx d hd)
          · rw [List.mem_singleton] at hx
            subst hx
            exact List.mem_append_left _ (hn2 d hd)
        · intro x hx
          rcases List.mem_append.1 hx with hx | hx
          · exact hns x hx
          · rw [List.mem_singleton] at hx
            subst hx
            exact fun hself => hn1' (hn2 x hself)

theorem hasEdge_foldl_graphAddGlobal (l : List Name) (g : DepGraph) {d : Name} (hd : d ∈ l) :
    HasEdge (l.foldl graphAddGlobal g) globalNode d := by
  induction l generalizing g with
  | nil => cases hd
  | cons x t ih =>
    rw [List.foldl_cons]
    cases hd with
    | head => exact hasEdge_foldl_add (fun d => (globalNode, d)) t _ (hasEdge_add_self g globalNode d)
    | tail _ hd => exact ih _ hd

/-- a module named like the internal node `_global_build_deps` makes that node depend on itself -/
theorem buildGraph_global_self (mods : List (Module × Option (List Name)))
    {mb : Module × Option (List Name)} (hm : mb ∈ mods) (hn : mb.1.name = globalNode) :
    HasEdge (buildGraph mods) globalNode globalNode := by
  unfold buildGraph
  by_cases hg : mb.1.isGlobalBuildDep = true
  · apply hasEdge_foldl_graphAddModule_of
    have : mb.1.name ∈ (mods.filter (·.1.isGlobalBuildDep)).map (·.1.name) :=
      List.mem_map.2 ⟨mb, List.mem_filter.2 ⟨hm, hg⟩, rfl⟩
    have h := hasEdge_foldl_graphAddGlobal _ ({} : DepGraph) this
    rw [hn] at h
    exact h
  · generalize (((mods.filter (·.1.isGlobalBuildDep)).map (·.1.name)).foldl graphAddGlobal {}) = g0
    induction mods generalizing g0 with
    | nil => cases hm
    | cons x t ih =>
      rw [List.foldl_cons]
      cases hm with
      | head =>
        apply hasEdge_foldl_graphAddModule_of
        unfold graphAddModule
        have hg' : (!mb.1.isGlobalBuildDep) = true := by simpa using hg
        rw [if_pos hg']
        rw [hn]
        exact hasEdge_add_self (graphAddModuleEdges g0 mb) globalNode globalNode
      | tail _ hm => exact ih hm _

/-- C03 (coverage): when there is a build order, it has no duplicates and contains the name of
    EVERY module; in particular no module is named like one of the two internal nodes (`""`,
    `_global_build_deps`) — such a module makes the graph cyclic and there is no build -/
theorem buildOrder_ok {mods : List (Module × Option (List Name))} {order : List Name}
    (h : buildOrder mods = some order) :
    order.Nodup ∧ ∀ mb ∈ mods, isRealNode mb.1.name = true ∧ mb.1.name ∈ order := by
  unfold buildOrder at h
  cases hd : dependenciesOf (buildGraph mods) rootNode (mods.length + 3) (mods.length + 3 + 1) [] with
  | none => rw [hd] at h; cases h
  | some res =>
    rw [hd] at h
    cases h
    obtain ⟨h1, h2, h3, h4⟩ :=
      dependenciesOf_ok hd List.nodup_nil (fun n hn => nomatch hn) (fun n hn => nomatch hn)
    refine ⟨h1.filter _, ?_⟩
    intro mb hmb
    have hmem : mb.1.name ∈ res := h2 _ h3 _ (buildGraph_root mods hmb)
    have hreal : isRealNode mb.1.name = true := by
      unfold isRealNode
      rw [Bool.and_eq_true, bne_iff_ne, bne_iff_ne]
      constructor
      · intro hroot
        apply h4 rootNode h3
        have := buildGraph_root mods hmb
        rw [hroot] at this
        exact this
      · intro hglob
        apply h4 globalNode (hglob ▸ hmem)
        exact buildGraph_global_self mods hmb hglob
    exact ⟨hreal, List.mem_filter.2 ⟨hmem, hreal⟩⟩

end Order

/-! ## 8. the whole property -/

theorem moduleEnvs_map_fst {r : Resolved} {genv : Env} {ms : List Module} {menvs : List ModEnv}
    (h : moduleEnvs r genv ms = .ok menvs) : menvs.map (·.1) = ms := by
  induction ms generalizing menvs with
  | nil => unfold moduleEnvs at h; cases h; rfl
  | cons m t ih =>
    unfold moduleEnvs at h
    split at h
    · cases h
    · split at h
      · cases h
      · rename_i rest hrest
        cases h
        rw [List.map_cons, ih hrest]

/-- C03 for one configured build with selection `r`: there are the flattened global env `gflat`, the
    value `outfile` of `${outfile}` in it, the module envs (one per selected module, in selection
    order), the build order and the final loop state `ls` such that
    * the link statement — rule LINK converted in the global env, inputs EXACTLY `ls.objects`,
      output `outfile` — is among the build's statements;
    * `ls.objects` is the concatenation, over the build order, of one block per module: empty for a
      context module or a custom-build module, else one object per effective source (`effSources`:
      the sources and the optional sources whose guard is selected), in order, each produced by a
      compile statement (also among the statements) from that source with the rule the builder's
      rule table has for the source's extension (`rule_nearest`: the nearest context's);
    * the build order has no duplicates and contains the name of EVERY selected module, and every
      name in it is the name of a selected module (`me ∈ menvs`, `menvs.map (·.1) = r.modules`);
    * the build's output is `outfile`, or `outfile` with the POST_LINK rule's `out` extension. -/
def C03Spec (ev : EvalExpr) (st : Settings) (b : Bag) (builder : Name) (app : Module) (cli : Cli)
    (r : Resolved) (i : BuildInfo) : Prop :=
  ∃ (gflat : Flat) (outfile : String) (menvs : List ModEnv) (order : List Name) (ls : LoopState)
    (lr : Rule) (linkRule : NinjaRule) (ll : List (List String)),
    globalFlat (builderVarOpts b builder) (globalEnv st b builder app r cli) = .ok gflat ∧
    expandS gflat .empty "${outfile}" = .ok outfile ∧
    menvs.map (·.1) = r.modules ∧
    buildOrder (menvs.map ModEnv.deps) = some order ∧
    order.Nodup ∧
    (∀ m ∈ r.modules, m.name ∈ order) ∧
    rulesByName (b.collectRules builder) "LINK" = some lr ∧
    ruleToNinja ev lr gflat = .ok linkRule ∧
    (buildFromRule linkRule (some ls.objects) [outfile]
      (globalDepFiles (globalBuildDeps r) ls.files)).render ∈ i.entries ∧
    ls.objects = ll.flatten ∧
    Forall₂ (fun n l => ∃ me, me ∈ menvs ∧ me.1.name = n ∧
      menvs.find? (·.1.name == n) = some me ∧
      ModuleObjs ev st builder app.name r (b.collectRules builder) (builderVarOpts b builder)
        me.1 me.2.1 i.entries l) order ll ∧
    i.out = finalOut (b.collectRules builder) outfile

/-- C03 (main theorem) -/
theorem c03 {ev : EvalExpr} {st : Settings} {b : Bag} {builder : Name} {app : Module} {cli : Cli}
    {i : BuildInfo} (h : configureBuild ev st b builder app cli = .ok (.build i)) :
    ∃ rs, resolveTop b builder app cli = .ok rs ∧
      C03Spec ev st b builder app cli (resolvedOf b builder (appClone app builder cli) rs) i := by
  obtain ⟨rs, gflat, outfile, menvs, order, ls, mflats, h1, h2, h3, h4, h5, h6, h7⟩ := configureBuild_inv h
  obtain ⟨f1, f2, ⟨lr, linkRule, f3, f4, _, f5⟩, _⟩ := finishBuild_ok h7
  obtain ⟨_, ll, m2, m3⟩ := modulesLoop_ok h6
  obtain ⟨o1, o2⟩ := buildOrder_ok h5
  refine ⟨rs, h1, gflat, outfile, menvs, order, ls, lr, linkRule, ll, h2, h3, moduleEnvs_map_fst h4, h5,
    o1, ?_, f3, f4, f5, ?_, ?_, f2⟩
  · intro m hm
    rw [← moduleEnvs_map_fst h4] at hm
    obtain ⟨me, hme, rfl⟩ := List.mem_map.1 hm
    exact (o2 (ModEnv.deps me) (List.mem_map.2 ⟨me, hme, rfl⟩)).2
  · rw [m2]; rfl
  · exact m3.imp (fun n l ⟨me, a1, a2, a3, a4⟩ => ⟨me, a1, a2, a3, a4.mono f1⟩)

/-- C03.5 through `configureBuild`: the link statement is among the build's entries -/
theorem configureBuild_link {ev : EvalExpr} {st : Settings} {b : Bag} {builder : Name} {app : Module}
    {cli : Cli} {i : BuildInfo} (h : configureBuild ev st b builder app cli = .ok (.build i)) :
    ∃ (ls : LoopState) (lr : Rule) (linkRule : NinjaRule) (gflat : Flat) (outfile : String)
      (globals : List Name),
      rulesByName (b.collectRules builder) "LINK" = some lr ∧ ruleToNinja ev lr gflat = .ok linkRule ∧
      (buildFromRule linkRule (some ls.objects) [outfile] (globalDepFiles globals ls.files)).render
        ∈ i.entries := by
  obtain ⟨rs, _, gflat, outfile, _, _, ls, lr, linkRule, _, _, _, _, _, _, _, h5, h6, h7, _⟩ := c03 h
  exact ⟨ls, lr, linkRule, gflat, outfile, _, h5, h6, h7⟩

/-- C03.7 through `configureBuild`: the output file -/
theorem configureBuild_out {ev : EvalExpr} {st : Settings} {b : Bag} {builder : Name} {app : Module}
    {cli : Cli} {i : BuildInfo} (h : configureBuild ev st b builder app cli = .ok (.build i)) :
    ∃ rs gflat outfile,
      resolveTop b builder app cli = .ok rs ∧
      globalFlat (builderVarOpts b builder)
        (globalEnv st b builder app (resolvedOf b builder (appClone app builder cli) rs) cli) = .ok gflat ∧
      expandS gflat .empty "${outfile}" = .ok outfile ∧
      i.globalFlat = gflat ∧
      ((rulesByName (b.collectRules builder) "POST_LINK" = none ∧ i.out = outfile) ∨
       (∃ pr ext, rulesByName (b.collectRules builder) "POST_LINK" = some pr ∧ pr.out = some ext ∧
          i.out = pathWithExtension outfile ext)) := by
  obtain ⟨rs, gflat, outfile, menvs, order, ls, mflats, h1, h2, h3, _, _, _, h7⟩ := configureBuild_inv h
  obtain ⟨_, _, _, f4⟩ := finishBuild_ok h7
  refine ⟨rs, gflat, outfile, h1, h2, h3, ?_, ?_⟩
  · unfold finishBuild at h7
    split at h7
    · cases h7
    · split at h7
      · cases h7
      · split at h7
        · cases h7
        · cases h7; rfl
  · rcases f4 with f4 | ⟨pr, ext, pl, q1, q2, _, q4, _⟩
    · exact Or.inl f4
    · exact Or.inr ⟨pr, ext, q1, q2, q4⟩

/-- with unique names (a property of the resolver's selection), the module of a name is unique:
    the block of objects of a name in the build order is that of THE selected module of that name -/
theorem module_unique {ms : List Module} (hn : (ms.map (·.name)).Nodup) {m m' : Module}
    (hm : m ∈ ms) (hm' : m' ∈ ms) (h : m.name = m'.name) : m = m' := by
  induction ms with
  | nil => cases hm
  | cons x t ih =>
    rw [List.map_cons, List.nodup_cons] at hn
    cases hm with
    | head =>
      cases hm' with
      | head => rfl
      | tail _ hm' => exact absurd (List.mem_map.2 ⟨m', hm', h.symm⟩) hn.1
    | tail _ hm =>
      cases hm' with
      | head => exact absurd (List.mem_map.2 ⟨m, hm, h⟩) hn.1
      | tail _ hm' => exact ih hn.2 hm hm'

/-! ## examples: the hypotheses of the theorems are satisfiable

  `pathExtension` is built on `String.splitOn`, which the kernel cannot evaluate, so the examples
  that compile a source take the two facts `pathExtension "main.c" = some "c"` and
  `pathExtension "app/main.c" = some "c"` (both confirmed by `#eval`) as hypotheses; everything else
  is evaluated by the kernel (`decide +kernel`, no extra axioms). -/
section Example

def ev0 : EvalExpr := fun b => .ok b
def cRule : Rule := { name := "CC", cmd := "cc -c ${in} -o ${out}", in_ := some "c", out := some "o" }
def cRuleHost : Rule := { name := "HOSTCC", cmd := "gcc -c ${in} -o ${out}", in_ := some "c", out := some "o" }
def ldRule : Rule := { name := "LINK", cmd := "ld ${in} -o ${out}", in_ := some "o", out := some "elf" }
def exRules : List (String × Rule) := [("c", cRule), ("o", ldRule)]
def exNr : NinjaRule := mkNinjaRule cRule "" "cc -c ${in} -o ${out}" none

example : addEntries ["a"] ["a", "b"] = ["a", "b"] := by decide

theorem ex_ruleToNinja : ruleToNinja ev0 cRule [] = .ok exNr := by decide +kernel

theorem ex_ruleForSource (h1 : pathExtension "main.c" = some "c") :
    ruleForSource ev0 exRules [] "main.c" = .ok ("c", exNr) := by
  have hr : rulesGet exRules "c" = some cRule := by decide +kernel
  unfold ruleForSource
  rw [h1]
  dsimp only
  rw [hr]
  dsimp only
  rw [ex_ruleToNinja]

/-- hypotheses of `compileSource_ok` / `compileSource_head` -/
theorem ex_compileSource (hx : pathExtension "app/main.c" = some "c") :
    compileSource ev0 {} "host" "app" exRules [("c", exNr)] [] "app" none none none "main.c" =
      .ok (objectPath {} "host" "app" cRule exNr none "o" "app/main.c",
           [(buildFromRule exNr (some ["app/main.c"])
              [objectPath {} "host" "app" cRule exNr none "o" "app/main.c"] none).render]) := by
  have h1 : expandSrcPath ev0 [] "app" "main.c" = .ok "app/main.c" := by decide +kernel
  have h2 : lookupCompileRule exRules [("c", exNr)] "c" = some (cRule, exNr) := by decide +kernel
  unfold compileSource
  rw [h1]
  dsimp only
  unfold compileStmts
  rw [hx]
  dsimp only
  rw [h2]
  rfl

/-- hypotheses of `compileSourcesLoop_ok` -/
example (hx : pathExtension "app/main.c" = some "c") :
    ∃ eo, compileSourcesLoop ev0 {} "host" "app" exRules [("c", exNr)] [] "app" none none none
      ["main.c"] [] [] = .ok eo := by
  apply Exists.intro
  unfold compileSourcesLoop
  rw [ex_compileSource hx]
  dsimp only
  unfold compileSourcesLoop
  rfl

/-- hypotheses of `defaultBuildStep_ok` -/
example (h1 : pathExtension "main.c" = some "c") (h2 : pathExtension "app/main.c" = some "c") :
    ∃ ls', defaultBuildStep ev0 {} "host" "app" exRules [] "app" ["main.c"] none none none {} = .ok ls' := by
  apply Exists.intro
  unfold defaultBuildStep
  have hm : moduleRulesLoop ev0 exRules [] ["main.c"] ({} : LoopState).entries [] =
      .ok (addEntry [] exNr.render, [("c", exNr)]) := by
    unfold moduleRulesLoop
    rw [ex_ruleForSource h1]
    rfl
  rw [hm]
  dsimp only
  unfold compileSourcesLoop
  rw [ex_compileSource h2]
  dsimp only
  unfold compileSourcesLoop
  rfl

/-- hypotheses of `linkStep_ok` -/
example : (linkStep ev0 exRules [] [] "app.elf" { objects := ["a.o", "b.o"] }).isOk = true := by
  decide +kernel

/-- `rule_nearest`: the builder's own rule for `.c` shadows the inherited one -/
def hostBag : Bag := ⟨[{ name := "default", parent := none, rules := some [cRule, ldRule] },
  { name := "host", parent := some "default", rules := some [cRuleHost], isBuilder := true }]⟩

example : rulesGet (hostBag.collectRules "host") "c" = some cRuleHost := by decide +kernel
example : rulesGet (hostBag.collectRules "default") "c" = some cRule := by decide +kernel
example : (hostBag.chainCtx "host").findSome? (fun x => lastWithKey (x.rules.getD []) "c") = some cRuleHost := by
  decide +kernel

/-- hypotheses of `c03`, `configureBuild_link`, `configureBuild_out`: a whole configured build (an
    app without sources — compiling a source needs `pathExtension`, see above) -/
def ctxM (n : String) : Module := { name := "context::" ++ n, contextName := n }
def exApp : Module := { name := "app", contextName := "default", srcdir := some "app", relpath := "app", isBinary := true }
def exBag : Bag := ⟨[{ name := "default", parent := none, modules := [ctxM "default", exApp], rules := some [cRule, ldRule] },
  { name := "host", parent := some "default", modules := [ctxM "host"], isBuilder := true }]⟩

def isBuild : Except GErr Outcome → Bool
  | .ok (.build _) => true
  | _ => false

theorem exists_of_isBuild {x : Except GErr Outcome} (h : isBuild x = true) : ∃ i, x = .ok (.build i) := by
  unfold isBuild at h
  split at h
  · exact ⟨_, rfl⟩
  · cases h

theorem ex_build : ∃ i, configureBuild ev0 {} exBag "host" exApp {} = .ok (.build i) :=
  exists_of_isBuild (by decide +kernel)

example : ∃ i rs, resolveTop exBag "host" exApp {} = .ok rs ∧
    C03Spec ev0 {} exBag "host" exApp {} (resolvedOf exBag "host" (appClone exApp "host" {}) rs) i := by
  obtain ⟨i, hi⟩ := ex_build
  obtain ⟨rs, h⟩ := c03 hi
  exact ⟨i, rs, h⟩

/-- FINDING (consequence of `buildOrder_ok`, not a violation of C03): a module that happens to be
    named like the internal graph node `_global_build_deps` (or `""`) makes the build-order graph
    cyclic, so the app is reported as having a "build dependency cycle" and is not built at all,
    although no module depends on itself. `generate.rs` uses the same two reserved node names. -/
def gM : Module := { name := "_global_build_deps", contextName := "default", srcdir := some "g", relpath := "g" }
def exApp2 : Module := { exApp with selects := [.hard "_global_build_deps"] }
def exBag2 : Bag := ⟨[{ name := "default", parent := none, modules := [ctxM "default", gM, exApp2], rules := some [cRule, ldRule] },
  { name := "host", parent := some "default", modules := [ctxM "host"], isBuilder := true }]⟩

example : (match configureBuild ev0 {} exBag2 "host" exApp2 {} with
           | .ok (.noBuild .depCycle) => true
           | _ => false) = true := by decide +kernel

end Example

end Laze.C03
